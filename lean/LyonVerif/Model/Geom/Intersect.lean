/-
  Intersection queries of `crates/geom/src/{line,quadratic_bezier,cubic_bezier,utils,triangle}.rs`,
  mirrored expression by expression (operand order included: the tie is bit-level).

  NaN-free normal form: wherever the Rust code relies on `x/0`, `inf`, `NaN` comparisons being
  false, the model has an explicit branch producing the same observable result; each such branch
  is marked `-- IEEE:` with the reasoning.

  Not modelled: `cubic_bezier_intersections.rs` (fat-line clipping) — oracle only.

  Names: the box / triangle / range helpers this file needs carry the prefix `Ix` / `ix`
  (`IxBox`, `IxTri`, `ixMinMax`, `Seg.ixBoundingRangeX/Y`, `Seg.ixBoundingBox`,
  `Quad.ixFastBoundingBox`, `Cubic.ixFastBoundingBox`): `Model/Geom/Extrema.lean` (C11) declares
  `Lyon.Box`, `Lyon.Tri`, `Lyon.minMax`, … for the same Rust items with other function sets, and
  the two files must be importable together (the C08 driver links the sweep model, which imports
  this file, next to the complete stroker model, which imports Extrema.lean).
-/
import LyonVerif.Model.Geom.Basic

namespace Lyon
open Scalar

/-- `num_traits::Float::signum` (`1` for `+0`/positive, `-1` for `-0`/negative, NaN for NaN). -/
class Sgn (α : Type) where
  signum : α → α

/-- lyon's `Scalar::EPSILON` and `Scalar::epsilon_for` (NOT the machine epsilon). -/
class Eps (α : Type) where
  epsilon : α
  epsilonFor : α → α

instance : Sgn Float32 where
  signum x := if x.isNaN then x else if (x.toBits >>> 31) == 1 then -1 else 1
instance : Sgn Float where
  signum x := if x.isNaN then x else if (x.toBits >>> 63) == 1 then -1 else 1

/-- `impl Scalar for f32`: `EPSILON = 1e-4`; `epsilon_for` matches on `reference.abs() as i32`.
(Before fix b6989654 the arm `5096..=65535` left `4096..=5095` to `_ => 1.0`.) -/
instance : Eps Float32 where
  epsilon := Float32.ofScientific 1 true 4
  epsilonFor r :=
    let n := Transc.toNat (Float32.abs r)
    if n ≤ 7 then Float32.ofScientific 1 true 5
    else if n ≤ 1023 then Float32.ofScientific 1 true 3
    else if n ≤ 4095 then Float32.ofScientific 1 true 2
    else if 4096 ≤ n ∧ n ≤ 65535 then Float32.ofScientific 1 true 1
    else if 65536 ≤ n ∧ n ≤ 8388607 then 0.5
    else 1.0

/-- `impl Scalar for f64`: `EPSILON = 1e-8`; `epsilon_for` matches on `reference.abs() as i64`. -/
instance : Eps Float where
  epsilon := Float.ofScientific 1 true 8
  epsilonFor r :=
    let n := Transc.toNat (Float.abs r)
    if n ≤ 65535 then Float.ofScientific 1 true 8
    else if n ≤ 8388607 then Float.ofScientific 1 true 5
    else if n ≤ 4294967295 then Float.ofScientific 1 true 3
    else Float.ofScientific 1 true 1

variable {α : Type} [Scalar α]

/-! ## `Line`, `LineEquation`, `Box2D` -/

structure Line (α : Type) where
  point : P α
  vector : P α

/-- `LineEquation { a, b, c }` (normalised: `a² + b² = 1` up to rounding) -/
structure LineEq (α : Type) where
  a : α
  b : α
  c : α

structure IxBox (α : Type) where
  min : P α
  max : P α

/-- `utils::min_max` -/
def ixMinMax (a b : α) : α × α := if a < b then (a, b) else (b, a)

namespace IxBox
/-- `Box2D::inflate(w, h)` -/
def inflate (b : IxBox α) (w h : α) : IxBox α := ⟨⟨b.min.x - w, b.min.y - h⟩, ⟨b.max.x + w, b.max.y + h⟩⟩
/-- `Box2D::intersects` (strict) -/
def intersects (b o : IxBox α) : Bool :=
  decide (b.min.x < o.max.x) && decide (b.max.x > o.min.x)
    && decide (b.min.y < o.max.y) && decide (b.max.y > o.min.y)
end IxBox

/-- `LineEquation::new`: `div = 1/sqrt(a*a + b*b)`; `(a*div, b*div, c*div)` -/
def LineEq.new [Transc α] (a b c : α) : LineEq α :=
  let div := one / Transc.sqrt (a * a + b * b)
  ⟨a * div, b * div, c * div⟩

namespace Line
/-- `Line::equation` -/
def equation [Transc α] (l : Line α) : LineEq α :=
  let a := -l.vector.y
  let b := l.vector.x
  let c := -(a * l.point.x + b * l.point.y)
  LineEq.new a b c

def det (l o : Line α) : α := l.vector.cross o.vector

/-- the point computed by `Line::intersection` once the determinant test passed -/
def ixPoint (l o : Line α) : P α :=
  let inv_det := one / det l o
  let self_p2 := l.point + l.vector
  let other_p2 := o.point + o.vector
  let a := l.point.cross self_p2
  let b := o.point.cross other_p2
  ⟨(b * l.vector.x - a * o.vector.x) * inv_det, (b * l.vector.y - a * o.vector.y) * inv_det⟩

/-- `Line::intersection` -/
def intersection [Eps α] (l o : Line α) : Option (P α) :=
  if Scalar.abs (det l o) ≤ Eps.epsilon then none else some (ixPoint l o)
end Line

/-! ## `LineSegment` queries -/

namespace Seg

def toLine (s : Seg α) : Line α := ⟨s.a, s.b - s.a⟩
def ixBoundingRangeX (s : Seg α) : α × α := ixMinMax s.a.x s.b.x
def ixBoundingRangeY (s : Seg α) : α × α := ixMinMax s.a.y s.b.y
def ixBoundingBox (s : Seg α) : IxBox α :=
  ⟨⟨(ixBoundingRangeX s).1, (ixBoundingRangeY s).1⟩, ⟨(ixBoundingRangeX s).2, (ixBoundingRangeY s).2⟩⟩

/-- the four endpoint comparisons at the top of `intersection_t`, in the code's order -/
def sharesEndpoint (s o : Seg α) : Bool :=
  s.b == o.b || s.a == o.a || s.a == o.b || s.b == o.a

variable [Sgn α]

/-- `v1_cross_v2` -/
def ixDet (s o : Seg α) : α := s.toVector.cross o.toVector
/-- `t` before the postponed division: `v3.cross(v2) * sign_v1_cross_v2` -/
def ixT (s o : Seg α) : α := (o.a - s.a).cross o.toVector * Sgn.signum (ixDet s o)
/-- `u` before the postponed division: `v3.cross(v1) * sign_v1_cross_v2` -/
def ixU (s o : Seg α) : α := (o.a - s.a).cross s.toVector * Sgn.signum (ixDet s o)

/-- `LineSegment::intersection_t` -/
def intersectionT (s o : Seg α) : Option (α × α) :=
  if sharesEndpoint s o then none
  else if ixDet s o == zero then none
  else if ixT s o < zero ∨ ixT s o > Scalar.abs (ixDet s o)
        ∨ ixU s o < zero ∨ ixU s o > Scalar.abs (ixDet s o) then none
  else some (ixT s o / Scalar.abs (ixDet s o), ixU s o / Scalar.abs (ixDet s o))

/-- `LineSegment::intersection` -/
def intersection (s o : Seg α) : Option (P α) :=
  match intersectionT s o with
  | none => none
  | some (t, _) => some (s.sample t)

/-- `LineSegment::intersects` -/
def intersects (s o : Seg α) : Bool := (intersectionT s o).isSome

def lineDet (s : Seg α) (l : Line α) : α := s.toVector.cross l.vector
def lineT (s : Seg α) (l : Line α) : α := (l.point - s.a).cross l.vector * Sgn.signum (lineDet s l)

/-- `LineSegment::line_intersection_t` -/
def lineIntersectionT (s : Seg α) (l : Line α) : Option α :=
  if lineDet s l == zero then none
  else if lineT s l < zero ∨ lineT s l > Scalar.abs (lineDet s l) then none
  else some (lineT s l / Scalar.abs (lineDet s l))

/-- `LineSegment::line_intersection` -/
def lineIntersection (s : Seg α) (l : Line α) : Option (P α) :=
  match lineIntersectionT s l with
  | none => none
  | some t => some (s.sample t)

/-- `LineSegment::intersects_line` -/
def intersectsLine (s : Seg α) (l : Line α) : Bool := (lineIntersectionT s l).isSome

/-- `axis_aligned_intersection_1d` after the swap (`a ≤ b` unless NaN) -/
def axis1dCore (a b v : α) (swap : Bool) : Option α :=
  if b - a == zero then none
  else if (v - a) / (b - a) < zero ∨ (v - a) / (b - a) > one then none
  else some (if swap then one - (v - a) / (b - a) else (v - a) / (b - a))

/-- `LineSegment::axis_aligned_intersection_1d` -/
def axis1d (a b v : α) : Option α :=
  if a > b then axis1dCore b a v true else axis1dCore a b v false

def horizontalLineIntersectionT (s : Seg α) (y : α) : Option α := axis1d s.a.y s.b.y y
def verticalLineIntersectionT (s : Seg α) (x : α) : Option α := axis1d s.a.x s.b.x x

end Seg

/-! ## Quadratic × line / segment -/

/-- push `t` if `t >= 0 && t <= 1` -/
def inUnit (t : α) : Bool := decide (t ≥ zero) && decide (t ≤ one)

namespace Quad
variable [Sgn α] [Transc α]

def ixFastBoundingBox (q : Quad α) : IxBox α :=
  ⟨⟨Scalar.min (Scalar.min q.a.x q.c.x) q.b.x, Scalar.min (Scalar.min q.a.y q.c.y) q.b.y⟩,
   ⟨Scalar.max (Scalar.max q.a.x q.c.x) q.b.x, Scalar.max (Scalar.max q.a.y q.c.y) q.b.y⟩⟩

/-- `i`, `j`, `k`: the control points injected in `a·x + b·y` -/
def liI (q : Quad α) (e : LineEq α) : α := e.a * q.a.x + e.b * q.a.y
def liJ (q : Quad α) (e : LineEq α) : α := e.a * q.c.x + e.b * q.c.y
def liK (q : Quad α) (e : LineEq α) : α := e.a * q.b.x + e.b * q.b.y
/-- `a = i - j - j + k` -/
def liA (q : Quad α) (e : LineEq α) : α := liI q e - liJ q e - liJ q e + liK q e
/-- `b = j + j - i - i` -/
def liB (q : Quad α) (e : LineEq α) : α := liJ q e + liJ q e - liI q e - liI q e
/-- `c = i + eqn.c()` -/
def liC (q : Quad α) (e : LineEq α) : α := liI q e + e.c

def qDelta (a b c : α) : α := b * b - four * a * c
/-- `t1 = (-b + (-b.signum() * sqrt_delta)) / (2a)` -/
def qT1 (a b c : α) : α := (-b + -(Sgn.signum b) * Transc.sqrt (qDelta a b c)) / (two * a)
/-- `t2 = c / (a * t1)` -/
def qT2 (a b c : α) : α := c / (a * qT1 a b c)

/-- the two pushes after the (already performed) swap -/
def qPush (t1 t2 : α) : List α :=
  (if inUnit t1 then [t1] else []) ++ (if inUnit t2 && !(t1 == t2) then [t2] else [])

/-- The root computation of `line_intersections_t` on the coefficients `a`, `b`, `c`.
The linear branch solves `bt + c = 0` as `-c / b` (since fix 37d6f3b8; before it computed
`c / b`: parabola (0,0) (1,1) (2,0) against the line x = 1/2 returned nothing, against x = -1/2
returned t = 1/4 whose point (1/2, 3/8) is not on the line). -/
def solve (a b c : α) : List α :=
  if a == zero then
    -- IEEE: `b == 0` gives `t = -c/0 ∈ {±inf, NaN}`, not pushed; the fall-through computes
    -- `delta = 0`, `t1 = 0/0 = NaN`: nothing pushed.  `b ≠ 0` and `t` outside [0,1]: the
    -- fall-through has `delta = b²`, `t1 = -2b/0 = ±inf`, `t2 = c/(0·inf) = NaN`: nothing pushed.
    if b == zero then []
    else if inUnit (-c / b) then [-c / b] else []
  else if qDelta a b c ≥ zero then
    -- IEEE: `t1 == 0` gives `t2 = c/(a·0) ∈ {±inf, NaN}`; whichever way the swap goes exactly
    -- the zero is pushed.
    if qT1 a b c == zero then [qT1 a b c]
    else if qT1 a b c > qT2 a b c then qPush (qT2 a b c) (qT1 a b c)
    else qPush (qT1 a b c) (qT2 a b c)
  else []

/-- `QuadraticBezierSegment::line_intersections_t` -/
def lineIntersectionsT (q : Quad α) (l : Line α) : List α :=
  -- IEEE: a zero line vector makes `LineEquation::new` produce NaNs (`0 · 1/0`), every
  -- comparison is false and nothing is pushed.
  if l.vector.x == zero && l.vector.y == zero then []
  else solve (liA q l.equation) (liB q l.equation) (liC q l.equation)

/-- `QuadraticBezierSegment::line_intersections` -/
def lineIntersections (q : Quad α) (l : Line α) : List (P α) :=
  (lineIntersectionsT q l).map q.sample

end Quad

/-- the part of `line_segment_intersections_t` after the bounding-box test, shared by the
quadratic and the cubic version: `x`/`y`/`sample` are the curve's evaluation functions -/
def segFilter [Transc α] (cx cy : α → α) (csample : α → P α) (s : Seg α) (ts : List α) :
    List (α × α) :=
  let vertical : Bool := decide (Scalar.abs (s.a.y - s.b.y) ≥ Scalar.abs (s.a.x - s.b.x))
  let rng := if vertical then s.ixBoundingRangeY else s.ixBoundingRangeX
  ts.filterMap fun t =>
    let xy := if vertical then cy t else cx t
    if xy ≥ rng.1 ∧ xy ≤ rng.2 then
      let t2 := Transc.sqrt (csample t - s.a).sqLen / s.length
      if (!(t == zero) && !(t == one)) || (!(t2 == zero) && !(t2 == one)) then some (t, t2)
      else none
    else none

/-- `QuadraticBezierSegment::line_segment_intersections_t` -/
def Quad.lineSegmentIntersectionsT [Sgn α] [Transc α] [Eps α] (q : Quad α) (s : Seg α) :
    List (α × α) :=
  if !((q.ixFastBoundingBox.inflate Eps.epsilon Eps.epsilon).intersects
        (s.ixBoundingBox.inflate Eps.epsilon Eps.epsilon)) then []
  else segFilter q.x q.y q.sample s (q.lineIntersectionsT s.toLine)

/-! ## `utils::cubic_polynomial_roots` -/

namespace Roots
variable [Sgn α] [Transc α] [Eps α]

/-- `epsilon = S::epsilon_for(max(|a|,|b|,|c|,|d|))` -/
def eps (a b c d : α) : α :=
  Eps.epsilonFor
    (Scalar.max (Scalar.max (Scalar.max (Scalar.abs a) (Scalar.abs b)) (Scalar.abs c)) (Scalar.abs d))

/-- `delta = c*c - 4*b*d` of the quadratic branch -/
def qdelta (b c d : α) : α := c * c - four * b * d

/-- quadratic branch (`|a| < epsilon`, `|b| ≥ epsilon`): `b x² + c x + d` -/
def quadratic (e b c d : α) : List α :=
  if qdelta b c d > zero then
    [(-c - Transc.sqrt (qdelta b c d)) / (two * b), (-c + Transc.sqrt (qdelta b c d)) / (two * b)]
  else if Scalar.abs (qdelta b c d) < e then [-c / (two * b)]
  else []

/-- `frac_1_3 = 1/3` -/
def frac13 : α := one / three
/-- `(3*cn - bn*bn) / 9` -/
def delta0 (bn cn : α) : α := (three * cn - bn * bn) / nine
/-- `(9*bn*cn - 27*dn - 2*bn*bn*bn) / 54` -/
def delta1 (bn cn dn : α) : α :=
  (nine * bn * cn - ofNat 27 * dn - two * bn * bn * bn) / ofNat 54
/-- `delta0³ + delta1²` -/
def delta01 (d0 d1 : α) : α := d0 * d0 * d0 + d1 * d1
/-- `x.signum() * |x|.powf(1/3)` -/
def cbrtS (x : α) : α := Sgn.signum x * Transc.pow (Scalar.abs x) frac13

/-- the cube root that does not cancel: of `delta1 + sqrt(delta_01)` when `delta1 >= 0`, of
`delta1 - sqrt(delta_01)` otherwise (since fix 7006df58; before, both `s` and `t` were computed
as cube roots, one of them of a cancelled difference — witness f64 cubic (0,0) (0.0001,1)
(0.0002,2) (100,3) against the line x = 50: x(t) = 50.000238) -/
def cBig (d0 d1 : α) : α :=
  if d1 ≥ zero then cbrtS (d1 + Transc.sqrt (delta01 d0 d1))
  else cbrtS (d1 - Transc.sqrt (delta01 d0 d1))
/-- the other one, from `s * t = -delta0` (`0` when the first is `0`) -/
def cOther (d0 d1 : α) : α :=
  if cBig d0 d1 == zero then zero else -d0 / cBig d0 d1
def cS (d0 d1 : α) : α := if d1 ≥ zero then cBig d0 d1 else cOther d0 d1
def cT (d0 d1 : α) : α := if d1 ≥ zero then cOther d0 d1 else cBig d0 d1

/-- `epsilon_for(max(|bn|,|cn|,|dn|))`: threshold of the repeated-root test, taken from the
normalised polynomial (since fix 7006df58; before, the epsilon of the raw coefficients was used —
witness f32 cubic (1260,0) (15,1000) (-1230,2000) (2520,3000) against the line x = 0 reported
t = 0.5 although the curve stays 16.87 away) -/
def epsN (bn cn dn : α) : α :=
  Eps.epsilonFor (Scalar.max (Scalar.max (Scalar.abs bn) (Scalar.abs cn)) (Scalar.abs dn))

/-- Cardano, `delta_01 >= 0` -/
def cardano1 (e bn d0 d1 : α) : List α :=
  [-bn * frac13 + (cS d0 d1 + cT d0 d1)]
    ++ (if Scalar.abs (cS d0 d1 - cT d0 d1) < e ∧ Scalar.abs (cS d0 d1 + cT d0 d1) ≥ e
        then [-bn * frac13 - (cS d0 d1 + cT d0 d1) / two] else [])

def theta (d0 d1 : α) : α := Transc.acos (d1 / Transc.sqrt (-d0 * d0 * d0))
def twoSqrt (d0 : α) : α := two * Transc.sqrt (-d0)

/-- trigonometric branch, `delta_01 < 0` (three real roots) -/
def cardano3 (bn d0 d1 : α) : List α :=
  [twoSqrt d0 * Transc.cos (theta d0 d1 * frac13) - bn * frac13,
   twoSqrt d0 * Transc.cos ((theta d0 d1 + two * Transc.pi) * frac13) - bn * frac13,
   twoSqrt d0 * Transc.cos ((theta d0 d1 + four * Transc.pi) * frac13) - bn * frac13]

/-- normalised cubic `x³ + bn x² + cn x + dn` -/
def cardano (bn cn dn : α) : List α :=
  if delta01 (delta0 bn cn) (delta1 bn cn dn) ≥ zero
  then cardano1 (epsN bn cn dn) bn (delta0 bn cn) (delta1 bn cn dn)
  else cardano3 bn (delta0 bn cn) (delta1 bn cn dn)

/-- `cubic_polynomial_roots` with the epsilon already chosen -/
def rootsWith (e a b c d : α) : List α :=
  if Scalar.abs a < e then
    if Scalar.abs b < e then
      if Scalar.abs c < e then [] else [-d / c]
    else quadratic e b c d
  else cardano (b / a) (c / a) (d / a)

/-- `utils::cubic_polynomial_roots(a, b, c, d)` -/
def cubicPolynomialRoots (a b c d : α) : List α := rootsWith (eps a b c d) a b c d
end Roots

/-! ## Cubic × line / segment -/

namespace Cubic
variable [Sgn α] [Transc α] [Eps α]

def ixFastBoundingBox (c : Cubic α) : IxBox α :=
  ⟨⟨Scalar.min (Scalar.min (Scalar.min c.a.x c.c1.x) c.c2.x) c.b.x,
    Scalar.min (Scalar.min (Scalar.min c.a.y c.c1.y) c.c2.y) c.b.y⟩,
   ⟨Scalar.max (Scalar.max (Scalar.max c.a.x c.c1.x) c.c2.x) c.b.x,
    Scalar.max (Scalar.max (Scalar.max c.a.y c.c1.y) c.c2.y) c.b.y⟩⟩

/-- `p1 = to - from + (ctrl1 - ctrl2) * 3` -/
def liP1 (c : Cubic α) : P α := c.b - c.a + (c.c1 - c.c2).smul three
/-- `p2 = from * 3 + (ctrl2 - ctrl1 * 2) * 3` -/
def liP2 (c : Cubic α) : P α := c.a.smul three + (c.c2 - c.c1.smul two).smul three
/-- `p3 = (ctrl1 - from) * 3` -/
def liP3 (c : Cubic α) : P α := (c.c1 - c.a).smul three
/-- `c = line.point.y * line.vector.x - line.point.x * line.vector.y` -/
def liC0 (l : Line α) : α := l.point.y * l.vector.x - l.point.x * l.vector.y

def liCoefA (c : Cubic α) (l : Line α) : α := l.vector.y * (liP1 c).x - l.vector.x * (liP1 c).y
def liCoefB (c : Cubic α) (l : Line α) : α := l.vector.y * (liP2 c).x - l.vector.x * (liP2 c).y
def liCoefC (c : Cubic α) (l : Line α) : α := l.vector.y * (liP3 c).x - l.vector.x * (liP3 c).y
def liCoefD (c : Cubic α) (l : Line α) : α := l.vector.y * c.a.x - l.vector.x * c.a.y + liC0 l

/-- the root finder applied to the coefficients for a given line (the body of
`line_intersections_t` after the line has been normalised) -/
def lineRoots (c : Cubic α) (l : Line α) : List α :=
  (Roots.cubicPolynomialRoots (liCoefA c l) (liCoefB c l) (liCoefC c l) (liCoefD c l)).filter inUnit

/-- `len = line.vector.length()` -/
def lineLen (l : Line α) : α := Transc.sqrt l.vector.sqLen
/-- `Line { point, vector: vector / len }` -/
def unitLine (l : Line α) : Line α := ⟨l.point, l.vector.sdiv (lineLen l)⟩

/-- `CubicBezierSegment::line_intersections_t`.  Since fix ba950a71 the line's direction is
normalised first and only a zero (or non-finite) length yields "no intersection"; before, every
line with `|vector|² < EPSILON` did (witness: cubic (0,0) (1,2) (2,-2) (3,0), line through
(3/2,0) with vector (0,1/200): crossing at t = 1/2 was not reported). -/
def lineIntersectionsT (c : Cubic α) (l : Line α) : List α :=
  if lineLen l == zero then []
  else if !(Transc.isFinite (lineLen l)) then []
  else lineRoots c (unitLine l)

/-- `CubicBezierSegment::line_intersections` -/
def lineIntersections (c : Cubic α) (l : Line α) : List (P α) :=
  (lineIntersectionsT c l).map c.sample

/-- `CubicBezierSegment::line_segment_intersections_t` -/
def lineSegmentIntersectionsT (c : Cubic α) (s : Seg α) : List (α × α) :=
  if !((c.ixFastBoundingBox.inflate Eps.epsilon Eps.epsilon).intersects
        (s.ixBoundingBox.inflate Eps.epsilon Eps.epsilon)) then []
  else segFilter c.x c.y c.sample s (c.lineIntersectionsT s.toLine)
end Cubic

/-! ## Triangle -/

structure IxTri (α : Type) where
  a : P α
  b : P α
  c : P α

namespace IxTri
/-- `v0.cross(v1)` of `get_barycentric_coords_for_point` -/
def det (t : IxTri α) : α := (t.b - t.a).cross (t.c - t.a)
/-- `a = v0.cross(v2) * inv` -/
def baryA (t : IxTri α) (p : P α) : α := (t.b - t.a).cross (p - t.a) * (one / det t)
/-- `b = v2.cross(v1) * inv` -/
def baryB (t : IxTri α) (p : P α) : α := (p - t.a).cross (t.c - t.a) * (one / det t)
/-- `c = 1 - a - b` -/
def baryC (t : IxTri α) (p : P α) : α := one - baryA t p - baryB t p

/-- `Triangle::contains_point` -/
def containsPoint (t : IxTri α) (p : P α) : Bool :=
  -- IEEE: a degenerate triangle has `inv = 1/0 = ±inf`; `a`, `b` are then in {±inf, NaN} and if
  -- both are `+inf` then `c = 1 - inf - inf = -inf`: never all three positive.
  if det t == zero then false
  else decide (baryA t p > zero) && decide (baryB t p > zero) && decide (baryC t p > zero)

def ab (t : IxTri α) : Seg α := ⟨t.a, t.b⟩
def bc (t : IxTri α) : Seg α := ⟨t.b, t.c⟩
def ac (t : IxTri α) : Seg α := ⟨t.a, t.c⟩
def beq (t o : IxTri α) : Bool := t.a == o.a && t.b == o.b && t.c == o.c

variable [Sgn α]

/-- `Triangle::intersects` -/
def intersects (t o : IxTri α) : Bool :=
  t.ab.intersects o.ab || t.ab.intersects o.bc || t.ab.intersects o.ac
    || t.bc.intersects o.ab || t.bc.intersects o.bc || t.bc.intersects o.ac
    || t.ac.intersects o.ab || t.ac.intersects o.bc || t.ac.intersects o.ac
    || t.containsPoint o.a || o.containsPoint t.a || beq t o

/-- `Triangle::intersects_line_segment` -/
def intersectsLineSegment (t : IxTri α) (s : Seg α) : Bool :=
  t.ab.intersects s || t.bc.intersects s || t.ac.intersects s || t.containsPoint s.a
end IxTri

end Lyon
