/-
  Cubic × cubic intersection by Bézier (fat-line) clipping:
  `crates/geom/src/cubic_bezier_intersections.rs` and the `CubicBezierSegment` methods it reaches
  (`is_a_point`, `is_linear`, `fat_line_min_max`, `solve_t_for_x/y`, `x/y_minimum/maximum_t`,
  `cubic_intersections`), mirrored function by function, expression by expression (operand order
  included: the tie is bit-level).

  * The recursion of `add_curve_intersections` is structural on a fuel argument; the Rust budget
    (`call_count >= 4096 || recursion_count >= 60`) is mirrored literally with both counters, the
    fuel (60 at the top) is never the reason to stop (`fuelOut` would be printed by the driver).
  * One recursion step is split into a decision function `step` (everything between the budget test
    and the recursive calls) returning what to do next (`Step`): the recursive skeleton
    `addCurveIx` contains nothing else.
  * `ArrayVec` capacities: `intersections` is only pushed under `len() < 9` (mirrored);
    the parameter lists hold at most 3 + 3 (+1) ≤ 9 entries, the hull chains 2..4 ≤ 4 entries: no
    capacity panic is reachable.
  * The only reachable panic is `max.to_i32().unwrap()` / `to_i64().unwrap()` of
    `epsilon_for_point` (NaN, or a coordinate ≥ 2^31 in f32 / 2^63 in f64): explicit branch, the
    state's `panicked` flag is set and the driver prints `panic`.
  * `inputs_are_f32::<S>()` is `S::EPSILON > 1e-6` — mirrored on lyon's `EPSILON` (`Eps` class).
  * IEEE: `is_linear` with a zero baseline divides by zero (`inf`, then `0·inf = NaN`, every
    comparison false): explicit branch.  `restrict_curve_to_fat_line` is only called with
    `curve2.from != curve2.to`; its line equation divides by the baseline length, which is zero on
    floats only if the squared length underflows — no explicit branch, the theorems about the clip
    do not depend on the normalisation factor at all (any factor, even 0, gives a sound clip).
-/
import LyonVerif.Model.Geom.Intersect

namespace Lyon.Clip
open Lyon Scalar

/-- `Scalar::value(v: f32) -> Self`: every decimal literal passed through `S::value` is an **f32**
literal (`value` is the identity at f32 and `v as f64` at f64): at f64 the "tenths" are
`0.100000001490116…` etc. and the thresholds `1e-9`, `1e-3`, … are the f32 roundings widened.
`lit m e` = the literal `m · 10^(-e)`. -/
class F32Lit (α : Type) where
  lit : Nat → Nat → α

instance : F32Lit Float32 where
  lit m e := Float32.ofScientific m true e
instance : F32Lit Float where
  lit m e := (Float32.ofScientific m true e).toFloat

export F32Lit (lit)

variable {α : Type} [Scalar α]

/-! ## small helpers -/

/-- `inputs_are_f32::<S>()`: `S::EPSILON > S::value(1e-6)` -/
def inputsAreF32 (α : Type) [Scalar α] [Eps α] [F32Lit α] : Bool :=
  decide ((Eps.epsilon : α) > lit 1 6)

/-- the local `midpoint` of `cubic_bezier_intersections_t` -/
def midpoint (p q : P α) : P α := ⟨(p.x + q.x) * half, (p.y + q.y) * half⟩

/-- `domain_value_at_t`: `domain.start + (domain.end - domain.start) * t` -/
def domainValueAtT (d : α × α) (t : α) : α := d.1 + (d.2 - d.1) * t

/-- midpoint of a parameter range: `(domain.start + domain.end) * S::HALF` -/
def domMid (d : α × α) : α := (d.1 + d.2) * half

/-- `rectangles_overlap` (closed, unlike `Box2D::intersects`) -/
def rectanglesOverlap (r1 r2 : IxBox α) : Bool :=
  decide (r1.min.x ≤ r2.max.x) && decide (r2.min.x ≤ r1.max.x)
    && decide (r1.min.y ≤ r2.max.y) && decide (r2.min.y ≤ r1.max.y)

/-- `LineEquation::signed_distance_to_point`: `a * p.x + b * p.y + c` -/
def LineEq.signedDistance (e : LineEq α) (p : P α) : α := e.a * p.x + e.b * p.y + e.c

/-- derived `PartialEq` of `CubicBezierSegment` -/
def cubicBeq (c o : Cubic α) : Bool := c.a == o.a && c.c1 == o.c1 && c.c2 == o.c2 && c.b == o.b

/-- `curve1.from == curve2.to && curve1.ctrl1 == curve2.ctrl2 && curve1.ctrl2 == curve2.ctrl1
&& curve1.to == curve2.from` -/
def cubicIsReverse (c o : Cubic α) : Bool := c.a == o.b && c.c1 == o.c2 && c.c2 == o.c1 && c.b == o.a

/-! ## `CubicBezierSegment` methods used by the clipper -/

/-- `CubicBezierSegment::is_a_point(tolerance)` -/
def isAPoint (c : Cubic α) (tol : α) : Bool :=
  decide ((c.a - c.b).sqLen ≤ tol * tol) && decide ((c.a - c.c1).sqLen ≤ tol * tol)
    && decide ((c.b - c.c2).sqLen ≤ tol * tol)

/-- `c1 = baseline.cross(v1)` of `is_linear` -/
def linC1 (c : Cubic α) : α := (c.b - c.a).cross (c.c1 - c.a)
/-- `c2 = baseline.cross(v2)` -/
def linC2 (c : Cubic α) : α := (c.b - c.a).cross (c.c2 - c.a)
/-- `inv_baseline_len2 = 1 / baseline.square_length()` -/
def linInv (c : Cubic α) : α := one / (c.b - c.a).sqLen
/-- `factor`: 3/4 if the control points are on the same side, 4/9 otherwise -/
def linFactor (c : Cubic α) : α := if linC1 c * linC2 c > zero then three / four else four / nine

/-- `CubicBezierSegment::is_linear(tolerance)`:
`d1 * f2 <= threshold && d2 * f2 <= threshold` with `d_i = (c_i * c_i) * inv_baseline_len2`. -/
def isLinear (c : Cubic α) (tol : α) : Bool :=
  -- IEEE: zero squared baseline length gives `inv = inf`; `c_i * c_i` is then `0` (exact zero
  -- baseline: `0 * inf = NaN`) or positive (underflow: `inf`); `NaN <= x` and `inf <= x` are false
  -- for finite thresholds.
  if (c.b - c.a).sqLen == zero then false
  else decide ((linC1 c * linC1 c) * linInv c * (linFactor c * linFactor c) ≤ tol * tol)
    && decide ((linC2 c * linC2 c) * linInv c * (linFactor c * linFactor c) ≤ tol * tol)

variable [Transc α]

/-- the baseline's normalised line equation: `self.baseline().to_line().equation()` -/
def baselineEq (c : Cubic α) : LineEq α := c.baseline.toLine.equation

/-- signed distances of the two control points to the baseline, ordered by `min_max` -/
def fatD (c : Cubic α) : α × α :=
  ixMinMax (LineEq.signedDistance (baselineEq c) c.c1) (LineEq.signedDistance (baselineEq c) c.c2)

/-- `factor` of `fat_line_min_max` -/
def fatFactor (c : Cubic α) : α := if (fatD c).1 * (fatD c).2 > zero then three / four else four / nine

/-- `CubicBezierSegment::fat_line_min_max`: `(factor * min(d1, 0), factor * max(d2, 0))` -/
def fatLineMinMax (c : Cubic α) : α × α :=
  (fatFactor c * Scalar.min (fatD c).1 zero, fatFactor c * Scalar.max (fatD c).2 zero)

variable [Sgn α] [Eps α] [F32Lit α]

/-- `parameters_for_xy_value(value, from, ctrl1, ctrl2, to)` -/
def parametersForXY (value p0 p1 p2 p3 : α) : List α :=
  (Roots.cubicPolynomialRoots
    (-p0 + three * p1 - three * p2 + p3)
    (three * p0 - six * p1 + three * p2)
    (-three * p0 + three * p1)
    (p0 - value)).filter fun r => decide (r > zero) && decide (r < one)

/-- `fast_bounding_range` of one coordinate: `from.min(ctrl1).min(ctrl2).min(to)`, same with max -/
def fastRange (p0 p1 p2 p3 : α) : α × α :=
  (Scalar.min (Scalar.min (Scalar.min p0 p1) p2) p3, Scalar.max (Scalar.max (Scalar.max p0 p1) p2) p3)

/-- `solve_t_for_x` / `solve_t_for_y` on one coordinate -/
def solveTFor (v p0 p1 p2 p3 : α) : List α :=
  if (fastRange p0 p1 p2 p3).1 > v ∨ (fastRange p0 p1 p2 p3).2 < v then []
  else parametersForXY v p0 p1 p2 p3

def solveTForX (c : Cubic α) (x : α) : List α := solveTFor x c.a.x c.c1.x c.c2.x c.b.x
def solveTForY (c : Cubic α) (y : α) : List α := solveTFor y c.a.y c.c1.y c.c2.y c.b.y

/-! ### extrema of one coordinate (`for_each_local_extremum`, `x_minimum_t`, …) -/

namespace C1
/-- body of `CubicBezierSegment::x` / `::y` -/
def ev (p0 p1 p2 p3 t : α) : α :=
  p0 * ((one - t) * (one - t) * (one - t)) + p1 * three * ((one - t) * (one - t)) * t
    + p2 * three * (one - t) * (t * t) + p3 * (t * t * t)

def ca (p0 p1 p2 p3 : α) : α := three * (p3 + three * (p1 - p2) - p0)
def cb (p0 p1 p2 : α) : α := six * (p2 - two * p1 + p0)
def cc (p0 p1 : α) : α := three * (p1 - p0)
/-- `if in_range(t) { cb(t) }` with `in_range(t) = t > 0 && t < 1` -/
def keep (t : α) : List α := if t > zero ∧ t < one then [t] else []
def disc (a b c : α) : α := b * b - four * a * c
/-- `q = -(b + b.signum() * discriminant_sqrt) / 2` -/
def rootQ (b s : α) : α := -(b + Sgn.signum b * s) / two
/-- `q / a` and `c / q`, swapped into increasing order, each kept if in range -/
def twoRoots (a b c s : α) : List α :=
  if rootQ b s / a > c / rootQ b s
  then keep (c / rootQ b s) ++ keep (rootQ b s / a)
  else keep (rootQ b s / a) ++ keep (c / rootQ b s)
/-- `for_each_local_extremum` on the derivative coefficients -/
def extremaOf (a b c : α) : List α :=
  if a == zero then (if b != zero then keep (-c / b) else [])
  else if disc a b c < zero then []
  else if disc a b c == zero then keep (-b / (two * a))
  else twoRoots a b c (Transc.sqrt (disc a b c))
def localExtrema (p0 p1 p2 p3 : α) : List α := extremaOf (ca p0 p1 p2 p3) (cb p0 p1 p2) (cc p0 p1)
def maxInit (p0 p3 : α) : α × α := if p3 > p0 then (one, p3) else (zero, p0)
def minInit (p0 p3 : α) : α × α := if p3 < p0 then (one, p3) else (zero, p0)
def maxStep (p0 p1 p2 p3 : α) (st : α × α) (t : α) : α × α :=
  if ev p0 p1 p2 p3 t > st.2 then (t, ev p0 p1 p2 p3 t) else st
def minStep (p0 p1 p2 p3 : α) (st : α × α) (t : α) : α × α :=
  if ev p0 p1 p2 p3 t < st.2 then (t, ev p0 p1 p2 p3 t) else st
/-- `x_maximum_t` / `y_maximum_t` -/
def maxT (p0 p1 p2 p3 : α) : α :=
  ((localExtrema p0 p1 p2 p3).foldl (maxStep p0 p1 p2 p3) (maxInit p0 p3)).1
/-- `x_minimum_t` / `y_minimum_t` -/
def minT (p0 p1 p2 p3 : α) : α :=
  ((localExtrema p0 p1 p2 p3).foldl (minStep p0 p1 p2 p3) (minInit p0 p3)).1
end C1

def xMinimumT (c : Cubic α) : α := C1.minT c.a.x c.c1.x c.c2.x c.b.x
def xMaximumT (c : Cubic α) : α := C1.maxT c.a.x c.c1.x c.c2.x c.b.x
def yMinimumT (c : Cubic α) : α := C1.minT c.a.y c.c1.y c.c2.y c.b.y
def yMaximumT (c : Cubic α) : α := C1.maxT c.a.y c.c1.y c.c2.y c.b.y

/-! ## `point_curve_intersections` -/

/-- inner loop body: `t` is skipped if its sample is farther than `epsilon` (squared) from `pt`
or a parameter within `10 * epsilon` is already in `result` -/
def pciPush (pt : P α) (c : Cubic α) (eps : α) (result : List α) (t : α) : List α :=
  if (pt - c.sample t).sqLen > eps then result
  else if result.any (fun u => decide (Scalar.abs (t - u) < ten * eps)) then result
  else result ++ [t]

/-- `maybe_add` chain, short-circuiting: the first of the four extremal parameters whose sample
is within `epsilon` of `pt` -/
def pciExtremal (pt : P α) (c : Cubic α) (eps : α) : List α :=
  if (c.sample (xMinimumT c) - pt).sqLen < eps then [xMinimumT c]
  else if (c.sample (xMaximumT c) - pt).sqLen < eps then [xMaximumT c]
  else if (c.sample (yMinimumT c) - pt).sqLen < eps then [yMinimumT c]
  else if (c.sample (yMaximumT c) - pt).sqLen < eps then [yMaximumT c]
  else []

/-- the coalesced x- and y-direction parameters -/
def pciSolved (pt : P α) (c : Cubic α) (eps : α) : List α :=
  (solveTForY c pt.y).foldl (pciPush pt c eps) ((solveTForX c pt.x).foldl (pciPush pt c eps) [])

/-- `point_curve_intersections(pt, curve, epsilon)` -/
def pointCurveIntersections (pt : P α) (c : Cubic α) (eps : α) : List α :=
  if (pt - c.a).sqLen < eps then [zero]
  else if (pt - c.b).sqLen < eps then [one]
  else if !(pciSolved pt c eps).isEmpty then pciSolved pt c eps
  else pciExtremal pt c eps

/-! ## `add_intersection` -/

/-- `epsilon` of `add_intersection`: `1e-3` for f32, `S::EPSILON` otherwise -/
def addEps : α := if inputsAreF32 α then lit 1 3 else Eps.epsilon

/-- `t < epsilon || t > 1 - epsilon` -/
def isEndpointParam (t : α) : Bool := decide (t < (addEps : α)) || decide (t > one - (addEps : α))

/-- the de-duplication loop over the existing intersections: the first old pair within `epsilon`
in both parameters is replaced if the new pair's sample distance is smaller (note: the two curves
are NOT swapped when `flip` swapped the parameters — mirrored as written), and nothing is pushed;
`none` = no such pair. -/
def dedup (t1 t2 : α) (o1 o2 : Cubic α) : List (α × α) → Option (List (α × α))
  | [] => none
  | old :: rest =>
    if Scalar.abs (t1 - old.1) < (addEps : α) ∧ Scalar.abs (t2 - old.2) < (addEps : α) then
      if ((o1.sample t1 - o2.sample t2).sqLen) < ((o1.sample old.1 - o2.sample old.2).sqLen)
      then some ((t1, t2) :: rest) else some (old :: rest)
    else (dedup t1 t2 o1 o2 rest).map (old :: ·)

/-- `add_intersection` after the flip swap -/
def addIntersectionCore (t1 t2 : α) (o1 o2 : Cubic α) (ixs : List (α × α)) : List (α × α) :=
  if isEndpointParam t1 && isEndpointParam t2 then ixs
  else match dedup t1 t2 o1 o2 ixs with
    | some l => l
    | none => if ixs.length < 9 then ixs ++ [(t1, t2)] else ixs

/-- `add_intersection(t1, orig_curve1, t2, orig_curve2, flip, intersections)` -/
def addIntersection (t1 : α) (o1 : Cubic α) (t2 : α) (o2 : Cubic α) (flip : Bool)
    (ixs : List (α × α)) : List (α × α) :=
  if flip then addIntersectionCore t2 t1 o1 o2 ixs else addIntersectionCore t1 t2 o1 o2 ixs

/-! ## linear special cases -/

/-- `line_is_mostly_vertical` for the baseline `from → to` -/
def mostlyVertical (c : Cubic α) : Bool :=
  decide (Scalar.abs (c.a.y - c.b.y) ≥ Scalar.abs (c.a.x - c.b.x))

/-- parameters on the line-like curve for the point `curve(curve_t)` -/
def lineParamsAt (line curve : Cubic α) (curveT : α) : List α :=
  if mostlyVertical line then solveTForY line (curve.y curveT) else solveTForX line (curve.x curveT)

/-- `line_curve_intersections(line_as_curve, curve, flip)` -/
def lineCurveIntersections (line curve : Cubic α) (flip : Bool) : List (α × α) :=
  (curve.lineIntersectionsT line.baseline.toLine).foldl
    (fun res curveT =>
      (lineParamsAt line curve curveT).foldl
        (fun res lineT => addIntersection lineT line curveT curve flip res) res)
    []

/-- `parameters_for_line_point(curve, pt)` -/
def parametersForLinePoint (c : Cubic α) (pt : P α) : List α :=
  if mostlyVertical c then solveTForY c pt.y else solveTForX c pt.x

/-- the double loop of `line_line_intersections` -/
def lineLinePairs (c1 c2 : Cubic α) (l1 l2 : List α) : List (α × α) :=
  l1.foldl (fun res t1 => l2.foldl (fun res t2 => addIntersection t1 c1 t2 c2 false res) res) []

/-- `line_line_intersections(curve1, curve2)` -/
def lineLineIntersections (c1 c2 : Cubic α) : List (α × α) :=
  match c1.baseline.toLine.intersection c2.baseline.toLine with
  | none => []
  | some p =>
    if (parametersForLinePoint c1 p).isEmpty then []
    else if (parametersForLinePoint c2 p).isEmpty then []
    else lineLinePairs c1 c2 (parametersForLinePoint c1 p) (parametersForLinePoint c2 p)

/-! ## `epsilon_for_point`, `add_point_curve_intersection` -/

/-- `max(|pt.x|, |pt.y|)` -/
def ptMax (pt : P α) : α := Scalar.max (Scalar.abs pt.x) (Scalar.abs pt.y)

/-- `to_i32().unwrap()` (f32) / `to_i64().unwrap()` (f64) panics: NaN or `≥ 2^31` / `≥ 2^63`
(num-traits: same-size float → int casts accept `MIN ≤ x < MAX+1`) -/
def epsPanics (pt : P α) : Bool :=
  Transc.isNaN (ptMax pt) ||
    (if inputsAreF32 α then decide (ptMax pt ≥ ofNat 2147483648)
     else decide (ptMax pt ≥ ofNat 9223372036854775808))

/-- the table of `epsilon_for_point` on the truncated magnitude -/
def epsTable (n : Nat) : α :=
  if inputsAreF32 α then
    (if n ≤ 9 then lit 1 3 else if n ≤ 99 then lit 1 2 else if n ≤ 999 then lit 1 1
     else if n ≤ 9999 then lit 25 2 else if n ≤ 999999 then half else one)
  else
    (if n ≤ 99999 then Eps.epsilon else if n ≤ 99999999 then lit 1 5
     else if n ≤ 9999999999 then lit 1 3 else lit 1 1)

/-- `epsilon_for_point(pt)`; `none` = panic -/
def epsilonForPoint (pt : P α) : Option α :=
  if epsPanics pt then none else some (epsTable (Transc.toNat (ptMax pt)))

/-- `tenths = [0.0, 0.1, …, 1.0]` through `S::value` -/
def tenths : List α :=
  [lit 0 1, lit 1 1, lit 2 1, lit 3 1, lit 4 1, lit 5 1, lit 6 1, lit 7 1, lit 8 1, lit 9 1, lit 10 1]

/-- one iteration of the sampling loop: state `(t_for_min, min_dist_sq)` -/
def sampleStep (pt : P α) (c : Cubic α) (st : α × α) (t : α) : α × α :=
  if (pt - c.sample t).sqLen < st.2 then (t, (pt - c.sample t).sqLen) else st

/-- the sampling loop -/
def sampleMin (pt : P α) (c : Cubic α) (eps : α) : α × α :=
  tenths.foldl (sampleStep pt c) (zero, eps)

/-- `curve_t` of the sampling stage (`-1` = nothing closer than `epsilon` found) -/
def sampledCurveT (pt : P α) (c : Cubic α) (eps : α) (curveDomain : α × α) : α :=
  if (sampleMin pt c eps).2 == eps then -one
  else domainValueAtT curveDomain (sampleMin pt c eps).1

/-- `add_point_curve_intersection` with the epsilon already chosen and the flip already adjusted
(note: `add_intersection` receives the SUB-curves `pt_curve` and `curve` with parameters of the
original curves — mirrored as written) -/
def addPointCurveWith (eps : α) (ptCurve curve : Cubic α) (ptDomain curveDomain : α × α)
    (flip : Bool) (ixs : List (α × α)) : List (α × α) :=
  if sampledCurveT ptCurve.a curve eps curveDomain != -one then
    addIntersection (domMid ptDomain) ptCurve (sampledCurveT ptCurve.a curve eps curveDomain) curve flip ixs
  else
    (pointCurveIntersections ptCurve.a curve eps).foldl
      (fun res t => addIntersection (domMid ptDomain) ptCurve (domainValueAtT curveDomain t) curve flip res)
      ixs

/-- the recursion state: `intersections`, `call_count`, and the two flags of the model -/
structure State (α : Type) where
  ixs : List (α × α)
  calls : Nat
  panicked : Bool
  fuelOut : Bool

/-- `add_point_curve_intersection(pt_curve, pt_curve_is_curve1, curve, pt_domain, curve_domain,
intersections, flip)` -/
def addPointCurveIntersection (ptCurve : Cubic α) (ptIsCurve1 : Bool) (curve : Cubic α)
    (ptDomain curveDomain : α × α) (flip : Bool) (st : State α) : State α :=
  match epsilonForPoint ptCurve.a with
  | none => { st with panicked := true }
  | some eps =>
    { st with ixs := addPointCurveWith eps ptCurve curve ptDomain curveDomain
                      (if ptIsCurve1 then flip else !flip) st.ixs }

/-! ## the fat-line clip -/

/-- vertical signed distance of `p1` from `[p0, p3]`: `d1 - (2 * d0 + d3) / 3` -/
def hullDist1 (d0 d1 d3 : α) : α := d1 - (two * d0 + d3) / three
/-- `d2 - (d0 + 2 * d3) / 3` -/
def hullDist2 (d0 d2 d3 : α) : α := d2 - (d0 + two * d3) / three

/-- the hull "assuming p1 is on top": `(top, bottom)` -/
def hullUnflipped (d0 d1 d2 d3 : α) : List (P α) × List (P α) :=
  if hullDist1 d0 d1 d3 * hullDist2 d0 d2 d3 < zero then
    ([⟨zero, d0⟩, ⟨one / three, d1⟩, ⟨one, d3⟩], [⟨zero, d0⟩, ⟨two / three, d2⟩, ⟨one, d3⟩])
  else if Scalar.abs (hullDist1 d0 d1 d3) ≥ two * Scalar.abs (hullDist2 d0 d2 d3) then
    ([⟨zero, d0⟩, ⟨one / three, d1⟩, ⟨one, d3⟩], [⟨zero, d0⟩, ⟨one, d3⟩])
  else if Scalar.abs (hullDist2 d0 d2 d3) ≥ two * Scalar.abs (hullDist1 d0 d1 d3) then
    ([⟨zero, d0⟩, ⟨two / three, d2⟩, ⟨one, d3⟩], [⟨zero, d0⟩, ⟨one, d3⟩])
  else
    ([⟨zero, d0⟩, ⟨one / three, d1⟩, ⟨two / three, d2⟩, ⟨one, d3⟩], [⟨zero, d0⟩, ⟨one, d3⟩])

/-- `convex_hull_of_distance_curve(d0, d1, d2, d3, top, bottom)`: `(top, bottom)` -/
def convexHull (d0 d1 d2 d3 : α) : List (P α) × List (P α) :=
  if hullDist1 d0 d1 d3 < zero ∨ (hullDist1 d0 d1 d3 == zero ∧ hullDist2 d0 d2 d3 < zero)
  then ((hullUnflipped d0 d1 d2 d3).2, (hullUnflipped d0 d1 d2 d3).1)
  else hullUnflipped d0 d1 d2 d3

/-- `walk_convex_hull_edges_to_fat_line(hull_vertices, vertices_are_for_top, threshold)` -/
def walkEdges (top : Bool) (thr : α) : List (P α) → Option α
  | p :: q :: rest =>
    if (top && decide (q.y ≥ thr)) || (!top && decide (q.y ≤ thr)) then
      (if q.y == thr then some q.x
       else some (p.x + (thr - p.y) * (q.x - p.x) / (q.y - p.y)))
    else walkEdges top thr (q :: rest)
  | _ => none

/-- `walk_convex_hull_start_to_fat_line(hull_top, hull_bottom, d_min, d_max)`; the chains are
never empty (`hull_top_vertices[0]`) -/
def walkStart (top bottom : List (P α)) (dMin dMax : α) : Option α :=
  match top with
  | [] => none
  | s :: _ =>
    if s.y < dMin then walkEdges true dMin top
    else if s.y > dMax then walkEdges false dMax bottom
    else some s.x

/-- `clip_convex_hull_to_fat_line(hull_top, hull_bottom, d_min, d_max)` -/
def clipHull (top bottom : List (P α)) (dMin dMax : α) : Option (α × α) :=
  match walkStart top bottom dMin dMax with
  | none => none
  | some tMin =>
    match walkStart top.reverse bottom.reverse dMin dMax with
    | none => none
    | some tMax => some (tMin, tMax)

/-- `restrict_curve_to_fat_line(curve1, curve2)` -/
def restrictCurveToFatLine (c1 c2 : Cubic α) : Option (α × α) :=
  clipHull
    (convexHull (LineEq.signedDistance (baselineEq c2) c1.a) (LineEq.signedDistance (baselineEq c2) c1.c1)
      (LineEq.signedDistance (baselineEq c2) c1.c2) (LineEq.signedDistance (baselineEq c2) c1.b)).1
    (convexHull (LineEq.signedDistance (baselineEq c2) c1.a) (LineEq.signedDistance (baselineEq c2) c1.c1)
      (LineEq.signedDistance (baselineEq c2) c1.c2) (LineEq.signedDistance (baselineEq c2) c1.b)).2
    (fatLineMinMax c2).1 (fatLineMinMax c2).2

/-! ## `add_curve_intersections` -/

/-- the arguments of one call (everything but `intersections` and `call_count`) -/
structure Args (α : Type) where
  c1 : Cubic α
  c2 : Cubic α
  d1 : α × α
  d2 : α × α
  flip : Bool
  rc : Nat
  o1 : Cubic α
  o2 : Cubic α

/-- what one call does after the budget test: finish with a new state, or recurse once / twice
(the state is untouched on the recursive paths) -/
inductive Step (α : Type) where
  | done (st : State α)
  | one (a : Args α)
  | two (a b : Args α)

/-- convergence threshold: `5e-6` for f32, `1e-9` otherwise -/
def convEps : α := if inputsAreF32 α then lit 5 6 else lit 1 9

/-- `new_domain1` from the clip values -/
def newDomain1 (a : Args α) (clip : α × α) : α × α :=
  (domainValueAtT a.d1 clip.1, domainValueAtT a.d1 clip.2)

/-- the f32-only rejection of a converged pair whose `t2` is at an end and whose samples are more
than 5 apart -/
def endpointReject (a : Args α) (t1 t2 : α) : Bool :=
  inputsAreF32 α && (decide (t2 < lit 1 3) || decide (t2 > one - lit 1 3))
    && decide (Transc.sqrt ((a.o1.sample t1 - a.o2.sample t2).sqLen) > five)

/-- both ranges below the threshold: report the midpoints -/
def stepConverged (a : Args α) (nd1 : α × α) (st : State α) : State α :=
  if endpointReject a (domMid nd1) (domMid a.d2) then st
  else { st with ixs := addIntersection (domMid nd1) a.o1 (domMid a.d2) a.o2 a.flip st.ixs }

/-- the two halves of `curve2` (`orig_curve2.split_range(domain2).split(1/2)`) -/
def halves2 (a : Args α) : Cubic α × Cubic α := (a.o2.splitRange a.d2.1 a.d2.2).split half

/-- clip ratio above 80 %: subdivide the curve that has converged the least -/
def stepSubdivide (a : Args α) (nd1 : α × α) (c1' : Cubic α) : Step α :=
  if nd1.2 - nd1.1 > a.d2.2 - a.d2.1 then
    .two { c1 := a.c2, c2 := (c1'.split half).1, d1 := a.d2, d2 := (nd1.1, domMid nd1),
           flip := !a.flip, rc := a.rc, o1 := a.o2, o2 := a.o1 }
         { c1 := a.c2, c2 := (c1'.split half).2, d1 := a.d2, d2 := (domMid nd1, nd1.2),
           flip := !a.flip, rc := a.rc, o1 := a.o2, o2 := a.o1 }
  else
    .two { c1 := (halves2 a).1, c2 := c1', d1 := (a.d2.1, domMid a.d2), d2 := nd1,
           flip := !a.flip, rc := a.rc, o1 := a.o2, o2 := a.o1 }
         { c1 := (halves2 a).2, c2 := c1', d1 := (domMid a.d2, a.d2.2), d2 := nd1,
           flip := !a.flip, rc := a.rc, o1 := a.o2, o2 := a.o1 }

/-- clip ratio at most 80 %: swap roles (or keep clipping `curve1` if `domain2` is tight) -/
def stepIterate (a : Args α) (nd1 : α × α) (c1' : Cubic α) : Step α :=
  if a.d2.2 - a.d2.1 ≥ (convEps : α) then
    .one { c1 := a.c2, c2 := c1', d1 := a.d2, d2 := nd1, flip := !a.flip, rc := a.rc,
           o1 := a.o2, o2 := a.o1 }
  else
    .one { a with c1 := c1', d1 := nd1 }

/-- after a successful clip `(t_min_clip, t_max_clip)` -/
def stepClipped (a : Args α) (clip : α × α) (st : State α) : Step α :=
  if Scalar.max (a.d2.2 - a.d2.1) ((newDomain1 a clip).2 - (newDomain1 a clip).1) < (convEps : α) then
    .done (stepConverged a (newDomain1 a clip) st)
  else if (newDomain1 a clip).1 == (newDomain1 a clip).2
      || isAPoint (a.o1.splitRange (newDomain1 a clip).1 (newDomain1 a clip).2) zero then
    .done (addPointCurveIntersection (a.o1.splitRange (newDomain1 a clip).1 (newDomain1 a clip).2)
            true a.c2 (newDomain1 a clip) a.d2 a.flip st)
  else if clip.2 - clip.1 > eight / ten then
    stepSubdivide a (newDomain1 a clip) (a.o1.splitRange (newDomain1 a clip).1 (newDomain1 a clip).2)
  else
    stepIterate a (newDomain1 a clip) (a.o1.splitRange (newDomain1 a clip).1 (newDomain1 a clip).2)

/-- the body of `add_curve_intersections` between the budget test and the recursive calls -/
def step (a : Args α) (st : State α) : Step α :=
  if a.d2.1 == a.d2.2 || isAPoint a.c2 zero then
    .done (addPointCurveIntersection a.c2 false a.c1 a.d2 a.d1 a.flip st)
  else if a.c2.a == a.c2.b then
    .two { a with c2 := (halves2 a).1, d2 := (a.d2.1, domMid a.d2) }
         { a with c2 := (halves2 a).2, d2 := (domMid a.d2, a.d2.2) }
  else if !rectanglesOverlap a.c1.ixFastBoundingBox a.c2.ixFastBoundingBox then .done st
  else match restrictCurveToFatLine a.c1 a.c2 with
    | none => .done st
    | some clip => stepClipped a clip st

/-- `add_curve_intersections`: `call_count += 1; recursion_count += 1;
if call_count >= 4096 || recursion_count >= 60 { return call_count }`, then `step`. -/
def addCurveIx : Nat → Args α → State α → State α
  | 0, _, st => { st with fuelOut := true }
  | fuel + 1, a, st =>
    if st.calls + 1 ≥ 4096 ∨ a.rc + 1 ≥ 60 then { st with calls := st.calls + 1 }
    else match step { a with rc := a.rc + 1 } { st with calls := st.calls + 1 } with
      | .done s => s
      | .one a1 => addCurveIx fuel a1 { st with calls := st.calls + 1 }
      | .two a1 a2 => addCurveIx fuel a2 (addCurveIx fuel a1 { st with calls := st.calls + 1 })

/-! ## `cubic_bezier_intersections_t` -/

/-- the early exit: bounding boxes do not (strictly) intersect, equal curves, reversed curves -/
def trivialReject (c1 c2 : Cubic α) : Bool :=
  !(c1.ixFastBoundingBox.intersects c2.ixFastBoundingBox) || cubicBeq c1 c2 || cubicIsReverse c1 c2

/-- `for t in curve_params { if t > EPSILON && t < 1 - EPSILON { push } }` -/
def interiorParams (ts : List α) : List α :=
  ts.filter fun t => decide (t > (Eps.epsilon : α)) && decide (t < one - (Eps.epsilon : α))

/-- one of the curves is a point -/
def pointCases (c1 c2 : Cubic α) : List (α × α) :=
  if isAPoint c1 Eps.epsilon && !isAPoint c2 Eps.epsilon then
    (interiorParams (pointCurveIntersections (midpoint c1.a c1.b) c2 Eps.epsilon)).map fun t => (zero, t)
  else if !isAPoint c1 Eps.epsilon && isAPoint c2 Eps.epsilon then
    (interiorParams (pointCurveIntersections (midpoint c2.a c2.b) c1 Eps.epsilon)).map fun t => (t, zero)
  else []

/-- the top-level call of the clipper -/
def clipTop (c1 c2 : Cubic α) : State α :=
  addCurveIx 60 { c1 := c1, c2 := c2, d1 := (zero, one), d2 := (zero, one), flip := false, rc := 0,
                  o1 := c1, o2 := c2 } { ixs := [], calls := 0, panicked := false, fuelOut := false }

/-- `cubic_bezier_intersections_t(curve1, curve2)` with the model's flags (`ixs` is the result) -/
def cubicIntersectionsState (c1 c2 : Cubic α) : State α :=
  if trivialReject c1 c2 then ⟨[], 0, false, false⟩
  else if isAPoint c1 Eps.epsilon || isAPoint c2 Eps.epsilon then ⟨pointCases c1 c2, 0, false, false⟩
  else if isLinear c1 Eps.epsilon && !isLinear c2 Eps.epsilon then
    ⟨lineCurveIntersections c1 c2 false, 0, false, false⟩
  else if !isLinear c1 Eps.epsilon && isLinear c2 Eps.epsilon then
    ⟨lineCurveIntersections c2 c1 true, 0, false, false⟩
  else if isLinear c1 Eps.epsilon && isLinear c2 Eps.epsilon then
    ⟨lineLineIntersections c1 c2, 0, false, false⟩
  else clipTop c1 c2

/-- `CubicBezierSegment::cubic_intersections_t` (the result list; a panic yields the pairs found
so far — the driver prints `panic` instead) -/
def cubicIntersectionsT (c1 c2 : Cubic α) : List (α × α) := (cubicIntersectionsState c1 c2).ixs

/-! ## `CubicBezierSegment::cubic_intersections` (points, sorted, near-duplicates removed) -/

/-- `pair_cmp(s, t) != Greater` -/
def pointLe (s t : P α) : Bool :=
  (decide (s.x < t.x) || (s.x == t.x && decide (s.y < t.y))) || (s.x == t.x && s.y == t.y)

/-- insertion into a list sorted by `pair_cmp` (the result of `sort_unstable_by` on at most nine
points is determined by the values: `Equal` points have equal coordinates) -/
def insertPoint (p : P α) : List (P α) → List (P α)
  | [] => [p]
  | q :: rest => if pointLe p q then p :: q :: rest else q :: insertPoint p rest

def sortPoints (l : List (P α)) : List (P α) := l.foldr insertPoint []

/-- `dist_sq` -/
def distSq (p q : P α) : α := (p.x - q.x) * (p.x - q.x) + (p.y - q.y) * (p.y - q.y)

/-- the de-duplication pass: `ref` is the last kept point -/
def dedupPoints (ref : P α) : List (P α) → List (P α)
  | [] => []
  | p :: rest =>
    if distSq ref p < (Eps.epsilon : α) * Eps.epsilon then dedupPoints ref rest
    else p :: dedupPoints p rest

/-- `CubicBezierSegment::cubic_intersections` -/
def cubicIntersections (c1 c2 : Cubic α) : List (P α) :=
  match sortPoints ((cubicIntersectionsT c1 c2).map fun p => c1.sample p.1) with
  | [] => []
  | p :: rest => p :: dedupPoints p rest

end Lyon.Clip
