/-
  Flattening of quadratic / cubic Bézier segments and elliptic arcs:
  `crates/geom/src/quadratic_bezier.rs` (`is_linear`, `is_a_point`, `FlatteningParameters`,
  `approx_parabola_integral`, `approx_parabola_inv_integral`, `for_each_flattened(_with_t)`,
  `Flattened`, `FlattenedT`), `cubic_bezier.rs` (`num_quadratics(_impl)`,
  `for_each_quadratic_bezier(_with_t)`, `for_each_flattened(_with_t)`, `Flattened`),
  `arc.rs` (`flattening_step`, `for_each_flattened(_with_t)`, `Flattened`),
  mirrored expression by expression (operand order included: the tie is bit-level).

  Shape of the results (reusable by the adapter properties):
  * the callback forms return the list of emitted `FlatSeg`s (`from`, `to`, `t0`, `t1`) in
    emission order — `FlatSeg.ends` projects to the `(point, t)` pairs a consumer such as
    `lyon_path::private::flatten_*` sees (`line.to`, `t.end`);
  * the iterator forms are explicit state machines (`…Iter.next`) plus a fuelled `collect`.
  * `none` = the Rust code panics there (`count.to_u32().unwrap()` on a count ≥ 2^32).

  Mathlib-free.
-/
import LyonVerif.Model.Geom.Basic

namespace Lyon
open Scalar

/-- Constants of `lyon_geom::Scalar` that depend on the scalar type. -/
class FlatConst (α : Type) where
  /-- `S::EPSILON` — lyon's own constant (1e-4 for `f32`, 1e-8 for `f64`), *not* the machine epsilon -/
  epsilon : α
  /-- `S::value(m·10^-e)`: an `f32` literal converted to `S` (for `f64`: `0.67f32 as f64`) -/
  value : Nat → Nat → α
  /-- `S::value(0.67).powi(4)` as the compiled code evaluates it -/
  d4 : α

instance : FlatConst Float32 where
  epsilon := Float32.ofScientific 1 true 4
  value m e := Float32.ofScientific m true e
  -- rustc/LLVM folds `0.67f32.powi(4)` at compile time: evaluated in double precision and then
  -- rounded to f32 (0x3e4e58f6), one ulp above the all-f32 product (d·d)·(d·d) = 0x3e4e58f5.
  d4 :=
    let d := (Float32.ofScientific 67 true 2).toFloat
    ((d * d) * (d * d)).toFloat32

instance : FlatConst Float where
  epsilon := Float.ofScientific 1 true 8
  value m e := (Float32.ofScientific m true e).toFloat
  d4 :=
    let d := (Float32.ofScientific 67 true 2).toFloat
    (d * d) * (d * d)

variable {α : Type} [Scalar α]

/-- One emitted line segment with its parameter range (`callback(&LineSegment{from,to}, t0..t1)`). -/
structure FlatSeg (α : Type) where
  a : P α
  b : P α
  t0 : α
  t1 : α

/-- what a consumer of `for_each_flattened_with_t` that only looks at `line.to` / `t.end` sees -/
def FlatSeg.ends (l : List (FlatSeg α)) : List (P α × α) := l.map (fun s => (s.b, s.t1))
def FlatSeg.points (l : List (FlatSeg α)) : List (P α) := l.map (·.b)

/-- `Line::square_distance_to_point` for `Line { point, vector }` -/
def lineSqDist (point vector p : P α) : α :=
  let v := p - point
  let c := vector.cross v
  (c * c) / vector.sqLen

/-- `LineSegment::closest_point`: `t = min(max(v2·v1 / v1·v1, 0), 1); from + v1*t`.
(`from == to`: in floats `0/0 = NaN` and `max(NaN, 0) = 0`; in a field `0/0 = 0` — both give `t = 0`.) -/
def segClosestPoint (a b p : P α) : P α :=
  let v1 := b - a
  let v2 := p - a
  let t := Scalar.min (Scalar.max (v2.dot v1 / v1.dot v1) zero) one
  a + v1.smul t

/-- `LineSegment::square_distance_to_point` -/
def segSqDist (a b p : P α) : α := (segClosestPoint a b p - p).sqLen

/-- `num_traits::ToPrimitive::to_u32` on a float: `Some` iff `-1 < x < 2^32` (truncating) -/
def toU32 [Transc α] (x : α) : Option Nat :=
  if -one < x ∧ x < ofNat 4294967296 then some (Transc.toNat x) else none

/-- `to_i32` on a value that is `≥ 1` or NaN (`num_quadratics_impl` ends in `.max(1)`):
`Some` iff `x < 2^31` -/
def toI32 [Transc α] (x : α) : Option Nat :=
  if x < ofNat 2147483648 then some (Transc.toNat x) else none

/-! ## Quadratic Bézier -/

namespace Quad

/-- `is_a_point` -/
def isAPoint (q : Quad α) (tol : α) : Bool :=
  let tol2 := tol * tol
  decide ((q.a - q.b).sqLen ≤ tol2) && decide ((q.a - q.c).sqLen ≤ tol2)

/-- `is_linear` (as repaired by 014eb9a5: distance of the control point to the baseline
*segment*; no `from == to` shortcut) -/
def isLinear (q : Quad α) (tol : α) : Bool :=
  decide (segSqDist q.a q.b q.c ≤ tol * tol * four)

end Quad

section
variable [Transc α] [FlatConst α]

/-- `approx_parabola_integral` -/
def approxParabolaIntegral (x : α) : α :=
  let d : α := FlatConst.value 67 2
  let quarter : α := half * half
  x / (one - d + Transc.sqrt (Transc.sqrt (FlatConst.d4 + quarter * x * x)))

/-- `approx_parabola_inv_integral` -/
def approxParabolaInvIntegral (x : α) : α :=
  let b : α := FlatConst.value 39 2
  let quarter : α := half * half
  x * (one - b + Transc.sqrt (b * b + quarter * x * x))

structure FlatParams (α : Type) where
  count : α
  integralFrom : α
  integralStep : α
  invIntegralFrom : α
  divInvIntegralDiff : α

namespace FlatParams

/-- the `is_linear` early return of `FlatteningParameters::new` -/
def linear : FlatParams α := ⟨zero, zero, zero, zero, zero⟩

/-- `if !count.is_finite() { count = 0 }` -/
def fixCount (count : α) : α := if Transc.isFinite count then count else zero

/-- the real-valued count before `ceil` (as repaired by 3251fd3d: when the parabola's vertex lies
inside the segment the step around the vertex is bounded, kurbo's cusp branch) -/
def countEstimate (parabolaFrom parabolaTo integralDiff scale tol : α) : α :=
  if decide (parabolaFrom < zero) = decide (parabolaTo < zero) then
    half * Scalar.abs integralDiff * Transc.sqrt (scale / tol)
  else
    half * Scalar.abs integralDiff / approxParabolaIntegral (Transc.sqrt (tol / scale))

/-- `cross` of `FlatteningParameters::new`: `(to−from) × (2·ctrl − from − to)` -/
def flatCross (q : Quad α) : α :=
  let ddx := two * q.c.x - q.a.x - q.b.x
  let ddy := two * q.c.y - q.a.y - q.b.y
  (q.b.x - q.a.x) * ddy - (q.b.y - q.a.y) * ddx

/-- the general branch of `FlatteningParameters::new`, arithmetic as written -/
def generalCore (q : Quad α) (tol : α) : FlatParams α :=
  let ddx := two * q.c.x - q.a.x - q.b.x
  let ddy := two * q.c.y - q.a.y - q.b.y
  let cross := (q.b.x - q.a.x) * ddy - (q.b.y - q.a.y) * ddx
  let invCross := one / cross
  let parabolaFrom := ((q.c.x - q.a.x) * ddx + (q.c.y - q.a.y) * ddy) * invCross
  let parabolaTo := ((q.b.x - q.c.x) * ddx + (q.b.y - q.c.y) * ddy) * invCross
  let scale := Scalar.abs cross / (Transc.sqrt (ddx * ddx + ddy * ddy) * Scalar.abs (parabolaTo - parabolaFrom))
  let integralFrom := approxParabolaIntegral parabolaFrom
  let integralTo := approxParabolaIntegral parabolaTo
  let integralDiff := integralTo - integralFrom
  let invIntegralFrom := approxParabolaInvIntegral integralFrom
  let invIntegralTo := approxParabolaInvIntegral integralTo
  let divInvIntegralDiff := one / (invIntegralTo - invIntegralFrom)
  let count := fixCount (Transc.ceil (countEstimate parabolaFrom parabolaTo integralDiff scale tol))
  let integralStep := integralDiff / count
  ⟨count, integralFrom, integralStep, invIntegralFrom, divInvIntegralDiff⟩

/-- the general branch in NaN-free normal form: with `cross == 0` (control points exactly
collinear) the Rust code computes `1/0`, every parameter becomes NaN and
`if !count.is_finite() { count = 0 }` catches it — the other fields are then never read.
The explicit branch yields the same observable result on floats and makes the field-side
statements honest (`x/0 = 0` is never relied on). -/
def general (q : Quad α) (tol : α) : FlatParams α :=
  if flatCross q == zero then linear else generalCore q tol

/-- `FlatteningParameters::new` -/
def new (q : Quad α) (tol : α) : FlatParams α :=
  if q.isLinear tol then linear else general q tol

/-- `t_at_iteration` -/
def tAt (p : FlatParams α) (iteration : α) : α :=
  let u := approxParabolaInvIntegral (p.integralFrom + p.integralStep * iteration)
  (u - p.invIntegralFrom) * p.divInvIntegralDiff

end FlatParams

namespace Quad

/-- the loop of `for_each_flattened_with_t` with `n` iterations left, then the final segment.
State: `i`, `from`, `t_from`. -/
def flatLoop (q : Quad α) (p : FlatParams α) : Nat → α → P α → α → List (FlatSeg α)
  | 0, _, frm, tFrom => [⟨frm, q.b, tFrom, one⟩]
  | n+1, i, frm, tFrom =>
    let t := p.tAt i
    let to := q.sample t
    ⟨frm, to, tFrom, t⟩ :: flatLoop q p n (i + one) to t

/-- the segments emitted with given parameters and integer count (`for _ in 1..count`) -/
def flatWith (q : Quad α) (p : FlatParams α) (count : Nat) : List (FlatSeg α) :=
  flatLoop q p (count - 1) one q.a zero

/-- `for_each_flattened_with_t`; `none` = panic in `count.to_u32().unwrap()` -/
def forEachFlattenedWithT (q : Quad α) (tol : α) : Option (List (FlatSeg α)) :=
  let p := FlatParams.new q tol
  (toU32 p.count).map (flatWith q p)

/-- `for_each_flattened` (forwards to the `_with_t` form and drops the range) -/
def forEachFlattened (q : Quad α) (tol : α) : Option (List (FlatSeg α)) := forEachFlattenedWithT q tol

end Quad

/-- state of `quadratic_bezier::Flattened` -/
structure QuadIter (α : Type) where
  curve : Quad α
  params : FlatParams α
  i : α
  done : Bool

namespace QuadIter
def new (q : Quad α) (tol : α) : QuadIter α := ⟨q, FlatParams.new q tol, one, false⟩

/-- `i >= count - EPSILON` -/
def atEnd (s : QuadIter α) : Bool := decide (s.params.count - FlatConst.epsilon ≤ s.i)

def next (s : QuadIter α) : Option (P α) × QuadIter α :=
  if s.done then (none, s)
  else if s.atEnd then (some s.curve.b, { s with done := true })
  else (some (s.curve.sample (s.params.tAt s.i)), { s with i := s.i + one })

def collect : Nat → QuadIter α → List (P α)
  | 0, _ => []
  | f+1, s => match s.next with
    | (none, _) => []
    | (some p, s') => p :: collect f s'
end QuadIter

/-- state of `quadratic_bezier::FlattenedT` -/
structure QuadTIter (α : Type) where
  params : FlatParams α
  i : α
  done : Bool

namespace QuadTIter
def new (q : Quad α) (tol : α) : QuadTIter α := ⟨FlatParams.new q tol, one, false⟩
def atEnd (s : QuadTIter α) : Bool := decide (s.params.count - FlatConst.epsilon ≤ s.i)

def next (s : QuadTIter α) : Option α × QuadTIter α :=
  if s.done then (none, s)
  else if s.atEnd then (some one, { s with done := true })
  else (some (s.params.tAt s.i), { s with i := s.i + one })

def collect : Nat → QuadTIter α → List α
  | 0, _ => []
  | f+1, s => match s.next with
    | (none, _) => []
    | (some t, s') => t :: collect f s'
end QuadTIter

/-- fuel for collecting a quadratic iterator: the float count as a natural number, plus slack -/
def quadFuel (p : FlatParams α) : Nat := Transc.toNat p.count + 4

/-! ## Cubic Bézier -/

namespace Cubic

/-- `num_quadratics_impl` -/
def numQuadraticsImpl (c : Cubic α) (tol : α) : α :=
  let x := c.a.x - three * c.c1.x + three * c.c2.x - c.b.x
  let y := c.a.y - three * c.c1.y + three * c.c2.y - c.b.y
  let err := x * x + y * y
  Scalar.max (Transc.ceil (Transc.pow (err / (ofNat 432 * tol * tol)) (one / six))) one

/-- `num_quadratics` -/
def numQuadratics (c : Cubic α) (tol : α) : Nat := (toU32 (c.numQuadraticsImpl tol)).getD 1

/-- the loop of `for_each_quadratic_bezier_with_t` with `n` iterations left, then the last
step "done manually to make sure we finish at t = 1.0 exactly" -/
def quadsLoop (c : Cubic α) (step : α) : Nat → α → List (Quad α × α × α)
  | 0, t0 => [((c.splitRange t0 one).toQuadratic, t0, one)]
  | n+1, t0 =>
    let t1 := t0 + step
    ((c.splitRange t0 t1).toQuadratic, t0, t1) :: quadsLoop c step n t1

/-- `for_each_quadratic_bezier_with_t`: the quadratics with their ranges -/
def forEachQuadraticWithT (c : Cubic α) (tol : α) : List (Quad α × α × α) :=
  let nq := c.numQuadraticsImpl tol
  let step := one / nq
  let n := (toU32 nq).getD 1
  quadsLoop c step (n - 1) zero

/-- `for_each_flattened`: every quadratic flattened in turn (ranges are those of the
quadratics; the callback ignores them). `none` = panic inside a quadratic. -/
def flatQuads (tol : α) : List (Quad α × α × α) → Option (List (FlatSeg α))
  | [] => some []
  | (q, _, _) :: rest =>
    match q.forEachFlattenedWithT tol, flatQuads tol rest with
    | some l, some r => some (l ++ r)
    | _, _ => none

def forEachFlattened (c : Cubic α) (tol : α) : Option (List (FlatSeg α)) :=
  let quadraticsTolerance := tol * FlatConst.value 4 1
  let flatteningTolerance := tol * FlatConst.value 6 1
  flatQuads flatteningTolerance (c.forEachQuadraticWithT quadraticsTolerance)

/-- the inner closure of `for_each_flattened_with_t`: re-ranges the segments of one quadratic.
State: `t_from`. Returns the emitted segments and the new `t_from`. -/
def rerange (rangeStart rangeLen : α) (lastQuad : Bool) : List (FlatSeg α) → α → List (FlatSeg α) × α
  | [], tFrom => ([], tFrom)
  | s :: rest, tFrom =>
    let lastSeg := s.t1 == one
    let t := if lastQuad && lastSeg then one else s.t1 * rangeLen + rangeStart
    let r := rerange rangeStart rangeLen lastQuad rest t
    (⟨s.a, s.b, tFrom, t⟩ :: r.1, r.2)

def flatQuadsT (tol : α) : List (Quad α × α × α) → α → Option (List (FlatSeg α))
  | [], _ => some []
  | (q, r0, r1) :: rest, tFrom =>
    match q.forEachFlattenedWithT tol with
    | none => none
    | some l =>
      let lastQuad := r1 == one
      let rangeLen := r1 - r0
      let e := rerange r0 rangeLen lastQuad l tFrom
      match flatQuadsT tol rest e.2 with
      | none => none
      | some r => some (e.1 ++ r)

/-- `for_each_flattened_with_t` -/
def forEachFlattenedWithT (c : Cubic α) (tol : α) : Option (List (FlatSeg α)) :=
  let quadraticsTolerance := tol * FlatConst.value 4 1
  let flatteningTolerance := tol * FlatConst.value 6 1
  flatQuadsT flatteningTolerance (c.forEachQuadraticWithT quadraticsTolerance) zero

end Cubic

/-- state of `cubic_bezier::Flattened` -/
structure CubicIter (α : Type) where
  curve : Cubic α
  current : QuadTIter α
  remaining : Nat
  tolerance : α
  rangeStep : α
  rangeStart : α

namespace CubicIter

/-- `Flattened::new`; `none` = panic in `num_quadratics.to_i32().unwrap()` -/
def new (c : Cubic α) (tol : α) : Option (CubicIter α) :=
  let quadraticsTolerance := tol * FlatConst.value 4 1
  let flatteningTolerance := tol * FlatConst.value 6 1
  let nq := c.numQuadraticsImpl quadraticsTolerance
  let rangeStep := one / nq
  let quadratic := (c.splitRange zero rangeStep).toQuadratic
  let current := QuadTIter.new quadratic flatteningTolerance
  (toI32 nq).map (fun n => ⟨c, current, n - 1, flatteningTolerance, rangeStep, zero⟩)

/-- `if remaining_sub_curves <= 0 && t_inner == 1 { curve.to } else { curve.sample(t) }`
(repair e20d2048: the last point of the last sub-curve is the stored end point) -/
def lastOr (c : Cubic α) (remaining : Nat) (tInner t : α) : P α :=
  if remaining = 0 ∧ (tInner == one) = true then c.b else c.sample t

/-- the part of `next` that starts the following sub-curve -/
def advance (s : CubicIter α) : Option (P α) × CubicIter α :=
  let rangeStart := s.rangeStart + s.rangeStep
  let t0 := rangeStart
  let t1 := rangeStart + s.rangeStep
  let quadratic := (s.curve.splitRange t0 t1).toQuadratic
  let cur := QuadTIter.new quadratic s.tolerance
  let r := cur.next
  let tInner := r.1.getD one
  let t := t0 + tInner * s.rangeStep
  (some (lastOr s.curve (s.remaining - 1) tInner t),
   { s with rangeStart := rangeStart, remaining := s.remaining - 1, current := r.2 })

def next (s : CubicIter α) : Option (P α) × CubicIter α :=
  match s.current.next with
  | (some tInner, cur) =>
    (some (lastOr s.curve s.remaining tInner (s.rangeStart + tInner * s.rangeStep)), { s with current := cur })
  | (none, cur) =>
    if s.remaining = 0 then (none, { s with current := cur })
    else advance { s with current := cur }

def collect : Nat → CubicIter α → List (P α)
  | 0, _ => []
  | f+1, s => match s.next with
    | (none, _) => []
    | (some p, s') => p :: collect f s'
end CubicIter

/-! ## Arc -/

namespace Arc

/-- `from()` = `sample(0)` -/
def fromPt (a : Arc α) : P α := a.sample zero
/-- `to()` = `sample(1)` -/
def toPt (a : Arc α) : P α := a.sample one

/-- `flattening_step` (as repaired by 99a81005: the largest radius, not the distance from the
centre at the start of the step) -/
def flatteningStep (a : Arc α) (tol : α) : α :=
  let r := Scalar.max (Scalar.abs a.radii.x) (Scalar.abs a.radii.y)
  let ang := two * Transc.acos ((r - tol) / r)
  let result := Scalar.min (ang / Scalar.abs a.sweep) one
  if result < FlatConst.epsilon then one else result

/-- the loop of `for_each_flattened_with_t`. State: `iter`, `t0`, `from`. `self` is `a`.
With no fuel left the loop is cut as if it had hit `break` (the driver reports this). -/
def flatLoop (a : Arc α) (tol : α) : Nat → Arc α → α → P α → List (FlatSeg α)
  | 0, _, t0, frm => [⟨frm, a.toPt, t0, one⟩]
  | f+1, iter, t0, frm =>
    let step := iter.flatteningStep tol
    if one ≤ step then [⟨frm, a.toPt, t0, one⟩]
    else
      let iter' := iter.afterSplit step
      let t1 := t0 + step * (one - t0)
      let to := iter'.fromPt
      ⟨frm, to, t0, t1⟩ :: flatLoop a tol f iter' t1 to

/-- `for_each_flattened_with_t` (and `for_each_flattened`, which is the same loop without `t`) -/
def forEachFlattenedWithT (a : Arc α) (tol : α) (fuel : Nat) : List (FlatSeg α) :=
  flatLoop a tol fuel a zero a.fromPt

end Arc

/-- state of `arc::Flattened` -/
structure ArcIter (α : Type) where
  arc : Arc α
  /-- the original arc's `to()` (repair 6805acc4) -/
  to : P α
  tolerance : α
  done : Bool

namespace ArcIter
def new (a : Arc α) (tol : α) : ArcIter α := ⟨a, a.toPt, tol, false⟩

def step (s : ArcIter α) : Option (P α) × ArcIter α :=
  let t := s.arc.flatteningStep s.tolerance
  if one ≤ t then (some s.to, { s with done := true })
  else
    let arc' := s.arc.afterSplit t
    (some arc'.fromPt, { s with arc := arc' })

def next (s : ArcIter α) : Option (P α) × ArcIter α :=
  if s.done then (none, s) else step s

def collect : Nat → ArcIter α → List (P α)
  | 0, _ => []
  | f+1, s => match s.next with
    | (none, _) => []
    | (some p, s') => p :: collect f s'
end ArcIter

end

end Lyon
