/-
  Per-chord tolerance CERTIFICATE for a flattened quadratic Bézier segment (translation validation
  of the within-tolerance clause of C09 on one input).

  For the chord over `[t0, t1]` of the quadratic `q` (end points `A = sg.a`, `B = sg.b`,
  `v = B − A`, `Δ = t1 − t0`, `dd = P0 − 2·P1 + P2`) the curve point at relative position `s`
  is `lerp(A, B, s) − s(1−s)·Δ²·dd` (theorem `chord_deviation`).  Hence
    * if `v ≠ 0` and `|Δ²·(dd·v)| ≤ |v|²` the foot of the perpendicular from every curve point of the
      range lies ON the chord and the distance is `s(1−s)·Δ²·|dd × v|/|v| ≤ Δ²·|dd × v|/(4|v|)`
      (attained at `s = ½`): the *perpendicular* certificate — what Levien's count aims at;
    * otherwise the *parametric* certificate `Δ²·|dd|/4` still bounds the distance.
  `chordCertSq` is the square of that bound divided by `tol²`; `flatCert` its maximum over the
  emitted segments together with the flag "every chord had the perpendicular certificate".
  Theorem `quad_flat_within_tolerance_of_certificate` (Props/C09b.lean): `flatCert ≤ k²` implies that
  every curve point is within `k·tol` of the polyline.  The driver evaluates these very definitions
  at `Float32`/`Float` on the model's segments; the harness evaluates the same expressions on
  lyon's segments; the tie compares the two bit for bit.

  Mathlib-free.
-/
import LyonVerif.Model.Geom.Flatten

namespace Lyon
open Scalar

variable {α : Type} [Scalar α]

namespace Quad

/-- `P0 − 2·P1 + P2` -/
def secondDiff (q : Quad α) : P α := (q.a - q.c.smul two) + q.b

/-- the perpendicular certificate applies: `0 < |v|²` and `|Δ²·(dd·v)| ≤ |v|²` -/
def chordPerp (q : Quad α) (sg : FlatSeg α) : Bool :=
  let d := sg.t1 - sg.t0
  let v := sg.b - sg.a
  decide (zero < v.sqLen) && decide (Scalar.abs (d * d * q.secondDiff.dot v) ≤ v.sqLen)

/-- `(Δ²·|dd × v| / (4·|v|·tol))²` -/
def chordPerpSq (q : Quad α) (tol : α) (sg : FlatSeg α) : α :=
  let d := sg.t1 - sg.t0
  let v := sg.b - sg.a
  let cr := q.secondDiff.cross v
  (d * d) * (d * d) * (cr * cr) / (ofNat 16 * (tol * tol) * v.sqLen)

/-- `(Δ²·|dd| / (4·tol))²` -/
def chordParamSq (q : Quad α) (tol : α) (sg : FlatSeg α) : α :=
  let d := sg.t1 - sg.t0
  (d * d) * (d * d) * q.secondDiff.sqLen / (ofNat 16 * (tol * tol))

/-- squared certificate of one chord, in units of `tol²` -/
def chordCertSq (q : Quad α) (tol : α) (sg : FlatSeg α) : α :=
  if q.chordPerp sg then q.chordPerpSq tol sg else q.chordParamSq tol sg

/-- `(every chord perpendicular-certified, max of the squared certificates)` -/
def flatCert (q : Quad α) (tol : α) : List (FlatSeg α) → Bool × α
  | [] => (true, zero)
  | sg :: rest =>
    let r := flatCert q tol rest
    (q.chordPerp sg && r.1, Scalar.max (q.chordCertSq tol sg) r.2)

end Quad

namespace Cubic
variable [Transc α] [FlatConst α]

/-- the certificates of the pieces of a cubic, combined: every piece flattened with the flattening
tolerance `tolF`, `(all chords perpendicular-certified, max squared certificate in units of tolF²)`;
`none` = a piece's flattening panics -/
def piecesCert (tolF : α) : List (Quad α × α × α) → Option (Bool × α)
  | [] => some (true, zero)
  | (q, _, _) :: rest =>
    match q.forEachFlattenedWithT tolF, piecesCert tolF rest with
    | some l, some r => some ((q.flatCert tolF l).1 && r.1, Scalar.max (q.flatCert tolF l).2 r.2)
    | _, _ => none

/-- certificate of `for_each_flattened(_with_t)`: the pieces for `0.4·tol`, each flattened with
`0.6·tol`. Theorem `cubic_flat_within_tolerance_of_certificate`: value `≤ k²` ⟹ the cubic is within
`k·0.6·tol + 0.4·tol` of the polyline. -/
def flatCert (c : Cubic α) (tol : α) : Option (Bool × α) :=
  piecesCert (tol * FlatConst.value 6 1) (c.forEachQuadraticWithT (tol * FlatConst.value 4 1))

end Cubic

end Lyon
