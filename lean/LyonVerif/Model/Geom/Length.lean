/-
  Lengths of segments, mirrored expression by expression from `crates/geom/src`:
  * `LineSegment::length` is `Seg.length` (`Model/Geom/Basic.lean`);
  * `QuadraticBezierSegment::length` (`quadratic_bezier.rs`): closed form ported from kurbo
    (Raph Levien's analytical arclength) with the "almost straight" branch (`a ≤ 1e-4·c`: 3-point
    Legendre–Gauss quadrature on differences) and the "sharp turn" branch
    (`b·a^(-1/2) + 2√c ≤ EPSILON·2√c`, or the logarithm's numerator not positive);
    as of /repo 7d678f98 (`sqrt(a+b+c)` is `|to − ctrl|`, `2a+b` is `2 d2·(to − ctrl)`);
  * `CubicBezierSegment::approximate_length` (`cubic_bezier.rs`): sum of `quad.length()` over
    `for_each_quadratic_bezier(tolerance)`;
  * `Arc::approximate_length` (`arc.rs`): sum of `segment.length()` over `for_each_flattened(tolerance)`;
  * `Segment::approximate_length` glue (`segment.rs` `impl_segment!`, `line.rs`):
    line, quadratic → `length()`; cubic, arc → `approximate_length(tolerance)`.

  libm calls made by the Rust code (through `num_traits::Float`): `sqrt`, `powf` (`a.powf(-0.5)`), `ln`.
  Constants `S::value(c)` are `f32` literals widened to `S` (`FlatConst.value`); `S::EPSILON` is
  lyon's own constant (`FlatConst.epsilon`: 1e-4 / 1e-8), not the machine epsilon.

  Degenerate input: `from = ctrl = to` has `a = c = 0`, takes the quadrature branch (`0 ≤ 1e-4·0`) and
  gets length `0` (before /repo 7d678f98 the closed form was taken: `0^(-1/2) = ∞`, `0·∞ = NaN`).
  A NaN/∞ in the closed form (`a^(-1/2)` overflowing, NaN coordinates) makes `num > 0` false and
  selects `v0`, through the same expression tree on the float instances.

  Mathlib-free.
-/
import LyonVerif.Model.Geom.Flatten

namespace Lyon
open Scalar

variable {α : Type} [Scalar α]

/-- `Vector2D::length`: `sqrt(x*x + y*y)` -/
def P.len [Transc α] (v : P α) : α := Transc.sqrt v.sqLen

namespace Quad
section
variable [Transc α] [FlatConst α]

/-- `d2 = from − ctrl·2 + to` (the constant second difference; `Q'' = 2·d2`) -/
def lenD2 (q : Quad α) : P α := q.a - q.c.smul two + q.b
/-- `d1 = ctrl − from` (`Q'(0) = 2·d1`) -/
def lenD1 (q : Quad α) : P α := q.c - q.a
/-- `a = |d2|²` -/
def lenA (q : Quad α) : α := q.lenD2.sqLen
/-- `c = |d1|²` -/
def lenC (q : Quad α) : α := q.lenD1.sqLen
/-- `b = 2·(d2 · d1)`; the squared speed is `|Q'(t)|² = 4·(a t² + b t + c)` -/
def lenB (q : Quad α) : α := two * q.lenD2.dot q.lenD1

/-- `d3 = to − ctrl` (`= d1 + d2`, `Q'(1) = 2·d3`) -/
def lenD3 (q : Quad α) : P α := q.b - q.c

/-- the test `a <= S::value(1e-4) * c` (`<=`: a point, `a = c = 0`, takes the quadrature branch) -/
def almostStraight (q : Quad α) : Bool := decide (q.lenA ≤ FlatConst.value 1 4 * q.lenC)

/-- Legendre–Gauss branch (constants exactly as in the source); the weights are applied to the
differences `d1`, `d3`, `chord = to − from`, so the value depends on differences only -/
def lengthStraight (q : Quad α) : α :=
  let k1 : α := FlatConst.value 430331482911935 15
  let k2 : α := FlatConst.value 626120363218102 16
  let chord := q.b - q.a
  let v0 := (q.lenD1.smul k1 + chord.smul k2).len
  let v1 := (chord.smul (FlatConst.value 4444444444444444 16)).len
  let v2 := (q.lenD3.smul k1 + chord.smul k2).len
  v0 + v1 + v2

/-- the closed form on the coefficients `a b c`, with `sqrAbc = |d3|` (`= √(a+b+c)` without the
cancellation) and `d23 = d2·d3` (`2·d23 = 2a + b`).
The Rust test `ba_c2 <= EPSILON * c2 || !(num > 0)` is transcribed literally: `¬ (0 < num)` is the
order statement `num ≤ 0` on a field and is true for a NaN `num` on the float instances (IEEE `<`
is false on NaN), exactly as `!(num > S::ZERO)` in Rust. -/
def lengthClosed (a b c sqrAbc d23 : α) : α :=
  let a2 := Transc.pow a (-half)
  let c2 := two * Transc.sqrt c
  let baC2 := b * a2 + c2
  let num := two * d23 * a2 + two * sqrAbc
  let v0 := half * half * a2 * a2 * b * (two * sqrAbc - c2) + sqrAbc
  if baC2 ≤ FlatConst.epsilon * c2 ∨ ¬ (zero < num) then v0
  else v0 + half * half * ((four * c * a - b * b) * a2 * a2 * a2) * Transc.ln (num / baC2)

/-- `QuadraticBezierSegment::length` -/
def length (q : Quad α) : α :=
  if q.almostStraight then q.lengthStraight
  else lengthClosed q.lenA q.lenB q.lenC q.lenD3.len (q.lenD2.dot q.lenD3)

end
end Quad

namespace Cubic
section
variable [Transc α] [FlatConst α]

/-- `CubicBezierSegment::approximate_length`: `length = 0; for quad { length += quad.length() }` -/
def approximateLength (c : Cubic α) (tol : α) : α :=
  (c.forEachQuadraticWithT tol).foldl (fun acc e => acc + e.1.length) zero

end
end Cubic

namespace Arc
section
variable [Transc α] [FlatConst α]

/-- `Arc::approximate_length`: `len = 0; for segment of for_each_flattened { len += segment.length() }`
(`LineSegment::length` = `(to − from).length()`) -/
def approximateLength (a : Arc α) (tol : α) (fuel : Nat) : α :=
  (a.forEachFlattenedWithT tol fuel).foldl (fun acc s => acc + (s.b - s.a).len) zero

end
end Arc

/-! ### `Segment::approximate_length` (trait glue) -/
section
variable [Transc α] [FlatConst α]
def Seg.approximateLength (s : Seg α) (_tol : α) : α := s.length
def Quad.approximateLength (q : Quad α) (_tol : α) : α := q.length
end

end Lyon
