/-
  One-line-in / one-line-out driver loop shared by the per-property model executables.
  Input:  `CASE <id> <family>[:<bits>] <args…>` (every other line is ignored)
  Output: `MODEL <id> <canonical result…>`
-/
import LyonVerif.Model.Scalar

namespace Lyon.Drive

/-- A handler computes the canonical result line from the argument tokens. -/
abbrev Handler := Array String → String

/-- A family generic in the scalar type is registered once and dispatched on the `:32` / `:64`
suffix of the family name. -/
structure Family where
  name : String
  h32 : Handler
  h64 : Handler

def Family.plain (name : String) (h : Handler) : Family := ⟨name, h, h⟩

def dispatch (fams : List Family) (fam : String) (args : Array String) : String :=
  let (base, bits) := match fam.splitOn ":" with
    | [b, w] => (b, w)
    | _ => (fam, "")
  match fams.find? (·.name == base) with
  | none => "unknown-family " ++ fam
  | some f => if bits == "64" then f.h64 args else f.h32 args

partial def loop (fams : List Family) (h : IO.FS.Stream) (out : IO.FS.Stream) : IO Unit := do
  let line ← h.getLine
  if line.isEmpty then return ()
  let toks := (line.trimAscii.toString.splitOn " ").filter (· ≠ "")
  match toks with
  | "CASE" :: id :: fam :: args =>
    -- `chk_*` families are decided on CHECK lines (the implementation's output), not on CASE lines
    if !fam.startsWith "chk_" then
      out.putStrLn ("MODEL " ++ id ++ " " ++ dispatch fams fam args.toArray)
  | "CHECK" :: id :: fam :: args =>
    out.putStrLn ("MODEL " ++ id ++ " " ++ dispatch fams fam args.toArray)
  | _ => pure ()
  loop fams h out

def run (fams : List Family) : IO Unit := do
  let i ← IO.getStdin
  let o ← IO.getStdout
  loop fams i o
  o.flush

end Lyon.Drive
