/-
  Model driver for C07: prints, for each `remap` / `queue` / `vertex` case, the same token
  sequence as `harness/src/bin/c07.rs`, computed by the model at `Float32`.
-/
import LyonVerif.Drive.Common
import LyonVerif.Model.Tess.Sources

namespace Lyon.Drive.C07
open Lyon Lyon.Drive Lyon.Sources

variable {α : Type} [Scalar α] [Wire α]

def remap (v : Array String) : String :=
  fx (remapT (rd v 0 : α) (rd v 1) (rd v 2))

/-- read `n` flattening pieces (6 floats each) starting at token `i` -/
def rdPieces (v : Array String) : Nat → Nat → List (Piece α)
  | 0, _ => []
  | n+1, i => ⟨rdP v i, rdP v (i+2), rd v (i+4), rd v (i+5)⟩ :: rdPieces v n (i+6)

/-- run `n` builder operations starting at token `i` -/
def runOps (v : Array String) : Nat → Nat → Builder α → Builder α
  | 0, _, b => b
  | n+1, i, b =>
    match v.getD i "" with
    | "B" => runOps v n (i+4) (b.begin (rdP v (i+1)) (rdNat v (i+3)))
    | "L" => runOps v n (i+6) (b.lineSegment (rdP v (i+1)) (rdNat v (i+3)) (rd v (i+4)) (rd v (i+5)))
    | "E" => runOps v n (i+4) (b.endSub (rdP v (i+1)) (rdNat v (i+3)))
    | "Q" =>
      let n1 := rdNat v (i+6)
      let f1 : List (Piece α) := rdPieces v n1 (i+7)
      let j := i + 7 + 6 * n1
      let n2 := rdNat v j
      let f2 : List (Piece α) := rdPieces v n2 (j+1)
      runOps v n (j + 1 + 6 * n2) (b.curveSegment (rdP v (i+3)) (rdNat v (i+5)) f1 f2)
    | "C" =>
      let n1 := rdNat v (i+8)
      let f1 : List (Piece α) := rdPieces v n1 (i+9)
      let j := i + 9 + 6 * n1
      let n2 := rdNat v j
      let f2 : List (Piece α) := rdPieces v n2 (j+1)
      runOps v n (j + 1 + 6 * n2) (b.curveSegment (rdP v (i+5)) (rdNat v (i+7)) f1 f2)
    | _ => b

def fRec (r : EdgeRec α) : String :=
  unwords ([if r.isEdge then "e" else "v", fp r.pos] ++ (if r.isEdge then [fp r.to] else []) ++
    [fx r.t0, fx r.t1, toString r.winding, toString r.fromId, toString r.toId])

def queue (v : Array String) : String :=
  let b : Builder α := runOps v (rdNat v 1) 2 Builder.init
  let recs := b.recs.reverse
  unwords (toString recs.length :: recs.map fRec)

/-- attribute store: `(id, values)` pairs -/
def rdStore (v : Array String) (nattr : Nat) : Nat → Nat → List (Nat × Array α)
  | 0, _ => []
  | n+1, i => (rdNat v i, (Array.range nattr).map (fun k => rd v (i+1+k))) :: rdStore v nattr n (i+1+nattr)

def lookup (st : List (Nat × Array α)) (id i : Nat) : α :=
  match st.find? (·.1 == id) with
  | some (_, a) => a.getD i Scalar.zero
  | none => Scalar.zero

def rdRecs (v : Array String) : Nat → Nat → List (EdgeRec α)
  | 0, _ => []
  | n+1, i =>
    ⟨nanPoint, nanPoint, rd v i, rd v (i+1), 0, true, rdNat v (i+2), rdNat v (i+3)⟩ :: rdRecs v n (i+4)

def fSource : Source α → String
  | .endpoint id => "E " ++ toString id
  | .edge f t u => "G " ++ toString f ++ " " ++ toString t ++ " " ++ fx u

def fVertex (st : List (Nat × Array α)) (nattr : Nat) (rs : List (EdgeRec α)) : String :=
  let ss := sources rs
  unwords (["v", toString ss.length] ++ ss.map fSource ++
    ["ep", match asEndpointId rs with | none => "none" | some id => toString id, "a"] ++
    (List.range nattr).map (fun i => fx (interpAttr (lookup st) rs i)))

def runVerts (v : Array String) (st : List (Nat × Array α)) (nattr : Nat) : Nat → Nat → List String
  | 0, _ => []
  | n+1, i =>
    let k := rdNat v i
    fVertex st nattr (rdRecs v k (i+1)) :: runVerts v st nattr n (i + 1 + 4 * k)

def vertex (v : Array String) : String :=
  let nattr := rdNat v 0
  let nids := rdNat v 1
  let st : List (Nat × Array α) := rdStore v nattr nids 2
  let i := 2 + nids * (1 + nattr)
  unwords (runVerts v st nattr (rdNat v i) (i+1))

def families : List Family := [
  ⟨"remap", remap (α := Float32), remap (α := Float)⟩,
  ⟨"queue", queue (α := Float32), queue (α := Float)⟩,
  ⟨"vertex", vertex (α := Float32), vertex (α := Float)⟩ ]

end Lyon.Drive.C07

def main : IO Unit := Lyon.Drive.run Lyon.Drive.C07.families
