/-
  Model driver for C03.
  * `shape:32`  `circle|rect cx cy r tol mx my` → `v n (x y)* t m (i)*` from the model of basic_shapes.rs
  * `helpers:32` `rect|circle|ellipse|rrect|polygon|fillcircle positive …` → the builder calls of the shape
                helper (`B x y | L x y | Q cx cy x y | C c1 c2 x y | E close`) from Model/Path/Shapes.lean
  * `chk_curve` the slab checker on the real fill output against a certified flattening of the exact boundary
-/
import LyonVerif.Drive.Common
import LyonVerif.Drive.SlabIO
import LyonVerif.Model.Tess.BasicShapes
import LyonVerif.Model.Path.Shapes

namespace Lyon.Drive.C03
open Lyon Lyon.Drive Lyon.Shapes

variable {α : Type} [Scalar α] [Transc α] [Wire α]

def fMesh (m : Mesh α) : String :=
  unwords (["v", toString m.verts.length] ++ m.verts.map fp ++ ["t", toString m.tris.length]
    ++ m.tris.map (fun (a, b, c) => toString a ++ " " ++ toString b ++ " " ++ toString c))

def shape (v : Array String) : String :=
  let c : P α := rdP v 1
  let r : α := rd v 3
  let tol : α := rd v 4
  let mx : P α := rdP v 5
  if v.getD 0 "" == "circle" then
    match fillCircle c r tol with
    | some m => fMesh m
    | none => "v 0 t 0"
  else fMesh (fillRectangle c mx)

def fCall : Path.Call (P α) Unit → String
  | .begin p _ => "B " ++ fp p
  | .line p _ => "L " ++ fp p
  | .quad c p _ => "Q " ++ fp c ++ " " ++ fp p
  | .cubic c1 c2 p _ => "C " ++ fp c1 ++ " " ++ fp c2 ++ " " ++ fp p
  | .end_ cl => "E " ++ (if cl then "1" else "0")

def rdPts (v : Array String) : Nat → Nat → List (P α)
  | 0, _ => []
  | n+1, i => rdP v i :: rdPts v n (i+2)

def helpers [ArcConv.Eps α] (v : Array String) : String :=
  let positive := rdNat v 1 == 1
  let calls : List (Path.Call (P α) Unit) :=
    match v.getD 0 "" with
    | "rect" => PathShapes.addRectangle (rdP v 2) (rdP v 4) positive
    | "circle" => PathShapes.addCircle (rdP v 2) (rd v 4) positive
    | "fillcircle" => PathShapes.fillAddCircle (rdP v 2) (rd v 4) positive
    | "ellipse" => PathShapes.addEllipse (rdP v 2) (rdP v 4) (rd v 6) positive
    | "rrect" => PathShapes.addRoundedRectangle (rdP v 2) (rdP v 4) ⟨rd v 6, rd v 7, rd v 8, rd v 9⟩ positive
    | "polygon" => PathShapes.addPolygon (rdPts v (rdNat v 3) 4) (rdNat v 2 == 1)
    | _ => []
  unwords (calls.map fCall)

def families : List Family := [
  ⟨"helpers", helpers (α := Float32), helpers (α := Float)⟩,
  ⟨"shape", shape (α := Float32), shape (α := Float)⟩,
  Family.plain "chk_curve" (fun v => SlabIO.handle "curve" false v 0) ]

end Lyon.Drive.C03

def main : IO Unit := Lyon.Drive.run Lyon.Drive.C03.families
