/-
  Model driver for C03.
  * `shape:32`  `circle|rect cx cy r tol mx my` → `v n (x y)* t m (i)*` from the model of basic_shapes.rs
  * `chk_curve` the slab checker on the real fill output against a certified flattening of the exact boundary
-/
import LyonVerif.Drive.Common
import LyonVerif.Drive.SlabIO
import LyonVerif.Model.Tess.BasicShapes

namespace Lyon.Drive.C03
open Lyon Lyon.Drive Lyon.Shapes

variable {α : Type} [Scalar α] [Transc α] [Wire α]

def fMesh (m : Mesh α) : String :=
  unwords (["v", toString m.verts.length] ++ m.verts.map fp ++ ["t", toString m.tris.length]
    ++ m.tris.map (fun (a, b, c) => toString a ++ " " ++ toString b ++ " " ++ toString c))

def shape (v : Array String) : String :=
  let c : P α := rdP v 1
  let r : α := rd v 3
  let tol : α := rd v 4
  let mx : P α := rdP v 5
  if v.getD 0 "" == "circle" then
    match fillCircle c r tol with
    | some m => fMesh m
    | none => "v 0 t 0"
  else fMesh (fillRectangle c mx)

def families : List Family := [
  ⟨"shape", shape (α := Float32), shape (α := Float)⟩,
  Family.plain "chk_curve" (fun v => SlabIO.handle "curve" false v 0) ]

end Lyon.Drive.C03

def main : IO Unit := Lyon.Drive.run Lyon.Drive.C03.families
