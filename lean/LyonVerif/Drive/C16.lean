/-
  Model driver for C16: replays the programs of `harness/src/bin/c16.rs` through the model of
  the flatten / transform adapters (`Model/Path/Adapters.lean`) at `Float32`.  The curve
  flattener is a parameter of the model: the harness hands over, as advice, what lyon_geom's
  flatteners return for every curve a route flattens (lyon_geom's flattening itself is property
  C09, modelled in `Model/Geom/Flatten.lean` and tied there); the model looks the curve up by
  the bit patterns of its control points — so a wrong `from`, tolerance or space still shows.

  CASE args: `n tol m11 m12 m21 m22 m31 m32 <prog> <advice>`,
  prog = `B x y a*n | L x y a*n | Q cx cy x y a*n | C c1x c1y c2x c2y x y a*n | E 0/1`,
  advice = `| FQ/FC <ctrl points> k (fx fy tx ty t)*k` and `| IQ/IC <ctrl points> k (x y)*k`.
  Family `e2e` uses the C09 model of the flattener instead of the advice (end-to-end tie):
  `flatBuilderC` / `flatIterC` / `flatAttrIterC` of `Model/Path/AdaptersConcrete.lean`.
  Output: per family the routes listed in the harness' header, calls as `B/L/Q/C/E`, events as
  `b/l/q/c/e`.
-/
import LyonVerif.Drive.Common
import LyonVerif.Model.Geom.Basic
import LyonVerif.Model.Geom.Flatten
import LyonVerif.Model.Path.Adapters
import LyonVerif.Model.Path.AdaptersConcrete

namespace Lyon.Drive.C16
open Lyon Lyon.Drive Lyon.Path Lyon.Adapt

abbrev F := Float32
abbrev Pn := P F
abbrev ACall := Call Pn (List F)

instance : Inhabited F := ⟨Scalar.zero⟩

/-- advice tables: control-point bit patterns ↦ what lyon_geom returned -/
structure Advice where
  cb : List (List String × List (FSeg Pn F))
  it : List (List String × List Pn)

def h (s : String) : F := Wire.ofHex s
def pt (x y : String) : Pn := ⟨h x, h y⟩

def key (ps : List Pn) : List String := ps.flatMap fun p => [fx p.x, fx p.y]

def lookup {β : Type} (t : List (List String × List β)) (k : List String) : List β :=
  match t.find? (fun e => e.1 == k) with
  | some e => e.2
  | none => []

/-- lyon_geom's callback flatteners, as reported by the harness for exactly this curve -/
def cbFlattener (adv : Advice) : Flattener Pn F where
  quad a c b := lookup adv.cb (key [a, c, b])
  cubic a c1 c2 b := lookup adv.cb (key [a, c1, c2, b])

/-- lyon_geom's `Flattened` iterators, likewise -/
def itFlattener (adv : Advice) : IterFlattener Pn where
  quad a c b := lookup adv.it (key [a, c, b])
  cubic a c1 c2 b := lookup adv.it (key [a, c1, c2, b])

structure Inp where
  n : Nat
  tol : F
  m : Xf F
  prog : List ACall
  adv : Advice

def takeAttrs (n : Nat) (l : List String) : List F × List String := ((l.take n).map h, l.drop n)

partial def parseProg (n : Nat) : List String → List ACall
  | "B" :: x :: y :: r => let (a, r') := takeAttrs n r; .begin (pt x y) a :: parseProg n r'
  | "L" :: x :: y :: r => let (a, r') := takeAttrs n r; .line (pt x y) a :: parseProg n r'
  | "Q" :: cx :: cy :: x :: y :: r =>
    let (a, r') := takeAttrs n r; .quad (pt cx cy) (pt x y) a :: parseProg n r'
  | "C" :: ax :: ay :: bx :: by_ :: x :: y :: r =>
    let (a, r') := takeAttrs n r; .cubic (pt ax ay) (pt bx by_) (pt x y) a :: parseProg n r'
  | "E" :: c :: r => .end_ (c == "1") :: parseProg n r
  | _ => []

partial def parseSegs : Nat → List String → List (FSeg Pn F) × List String
  | 0, r => ([], r)
  | k+1, ax :: ay :: bx :: by_ :: t :: r =>
    let (l, r') := parseSegs k r
    (⟨pt ax ay, pt bx by_, h t⟩ :: l, r')
  | _, _ => ([], [])

partial def parsePts : Nat → List String → List Pn × List String
  | 0, r => ([], r)
  | k+1, x :: y :: r => let (l, r') := parsePts k r; (pt x y :: l, r')
  | _, _ => ([], [])

/-- canonical key of the control points as they appear in the advice (re-printed, so that it
is spelled exactly like `key`) -/
def rekey (toks : List String) : List String := toks.map fun t => fx (h t)

partial def parseAdvice (adv : Advice) : List String → Advice
  | "|" :: "FQ" :: r =>
    let (l, r') := parseSegs ((r.drop 6).headD "0").toNat! (r.drop 7)
    parseAdvice { adv with cb := adv.cb ++ [(rekey (r.take 6), l)] } r'
  | "|" :: "FC" :: r =>
    let (l, r') := parseSegs ((r.drop 8).headD "0").toNat! (r.drop 9)
    parseAdvice { adv with cb := adv.cb ++ [(rekey (r.take 8), l)] } r'
  | "|" :: "IQ" :: r =>
    let (l, r') := parsePts ((r.drop 6).headD "0").toNat! (r.drop 7)
    parseAdvice { adv with it := adv.it ++ [(rekey (r.take 6), l)] } r'
  | "|" :: "IC" :: r =>
    let (l, r') := parsePts ((r.drop 8).headD "0").toNat! (r.drop 9)
    parseAdvice { adv with it := adv.it ++ [(rekey (r.take 8), l)] } r'
  | _ => adv

def parse (v : Array String) : Inp :=
  let n := rdNat v 0
  let toks := v.toList.drop 8
  let progToks := toks.takeWhile (· != "|")
  let advToks := toks.dropWhile (· != "|")
  { n := n, tol := rd v 1,
    m := ⟨rd v 2, rd v 3, rd v 4, rd v 5, rd v 6, rd v 7⟩,
    prog := parseProg n progToks,
    adv := parseAdvice ⟨[], []⟩ advToks }

/-! ### printing -/

def fattrs (a : List F) : List String := a.map fx

def fcall : ACall → List String
  | .begin p a => "B" :: fp p :: fattrs a
  | .line p a => "L" :: fp p :: fattrs a
  | .quad c p a => "Q" :: fp c :: fp p :: fattrs a
  | .cubic c1 c2 p a => "C" :: fp c1 :: fp c2 :: fp p :: fattrs a
  | .end_ cl => ["E", fb cl]

def fcalls (l : List ACall) : List String := l.flatMap fcall

def fev : Event Pn → List String
  | .begin p => ["b", fp p]
  | .line a b => ["l", fp a, fp b]
  | .quad a c b => ["q", fp a, fp c, fp b]
  | .cubic a c d b => ["c", fp a, fp c, fp d, fp b]
  | .end_ l f cl => ["e", fp l, fp f, fb cl]

def fevs (l : List (Event Pn)) : List String := l.flatMap fev

def fap (p : AP Pn F) : List String := fp p.1 :: fattrs p.2

def faev : Event (AP Pn F) → List String
  | .begin p => "b" :: fap p
  | .line a b => "l" :: (fap a ++ fap b)
  | .quad a c b => "q" :: (fap a ++ [fp c.1] ++ fap b)
  | .cubic a c d b => "c" :: (fap a ++ [fp c.1, fp d.1] ++ fap b)
  | .end_ l f cl => "e" :: (fap l ++ fap f ++ [fb cl])

def faevs (l : List (Event (AP Pn F))) : List String := l.flatMap faev

/-! ### routes -/

def origin : Pn := ⟨Scalar.zero, Scalar.zero⟩

def bf (i : Inp) : String :=
  unwords (fcalls (flatBuilder (cbFlattener i.adv) origin i.n i.prog))

def bt (i : Inp) : String :=
  unwords (fcalls (xfBuilder i.m.apply i.prog))

def bn (i : Inp) : String :=
  let F := cbFlattener i.adv
  unwords ("ft" :: fcalls (xfBuilder i.m.apply (flatBuilder F origin i.n i.prog))
    ++ "tf" :: fcalls (flatBuilder F origin i.n (xfBuilder i.m.apply i.prog)))

def na (i : Inp) : String :=
  let F := cbFlattener i.adv
  let p0 : List ACall := noAttrBuilder i.prog
  unwords ("f" :: fcalls (flatBuilder F origin 0 p0)
    ++ "t" :: fcalls (xfBuilder i.m.apply p0)
    ++ "ft" :: fcalls (xfBuilder i.m.apply (flatBuilder F origin 0 p0)))

def pb (i : Inp) : String :=
  let F := cbFlattener i.adv
  let p0 : List ACall := noAttrBuilder i.prog
  unwords ("f" :: fevs (specEvents (flatBuilder F origin 0 p0))
    ++ "fa" :: faevs (attrEvents (flatBuilder F origin i.n i.prog))
    ++ "ta" :: faevs (attrEvents (xfBuilder i.m.apply i.prog)))

def it (i : Inp) : String :=
  unwords ("f" :: fevs (flatIter (itFlattener i.adv) (specEvents i.prog))
    ++ "a" :: faevs (flatAttrIter (cbFlattener i.adv) (attrEvents i.prog)))

/-- the stored route: `Path::builder_with_attributes(n)` storage (C14 model), `apply_transform`
on it, read back with `iter_with_attributes` -/
def storedXf (i : Inp) : List String :=
  let prog : List (Call (Pt F) (List F)) := i.prog.map (mapCall toPt)
  match buildWithAttributes i.n prog with
  | none => ["attr-count-panic"]
  | some path =>
    match (applyTransform (onPt i.m.apply) path).bind PathData.iterWithAttributes with
    | none => ["oob"]
    | some evs => faevs (evs.map (mapEvent fun q => (ofPt q.1, q.2)))

def ix (i : Inp) : String :=
  unwords ("t" :: fevs (xfIter i.m.apply (specEvents i.prog)) ++ "s" :: storedXf i)

def in_ (i : Inp) : String :=
  let G := itFlattener i.adv
  unwords ("tf" :: fevs (flatIter G (xfIter i.m.apply (specEvents i.prog)))
    ++ "ft" :: fevs (xfIter i.m.apply (flatIter G (specEvents i.prog))))

/-! ### end to end: the same routes with the C09 MODEL of lyon_geom's flatteners
(`Model/Geom/Flatten.lean`) instead of the advice (family `e2e`; the advice in the CASE line is
ignored) -/

def fuelMax : Nat := 200000

/-- the concrete adapters of `Model/Path/AdaptersConcrete.lean` (`cbModel`, `itModel`: the C09
model of lyon_geom's callback flatteners and `Flattened` iterators) — the very definitions the
theorems of `Props/C16b.lean` are about.  `none` = lyon_geom panics on a curve
(`count.to_u32().unwrap()`, `to_i32().unwrap()`: the harness then prints `panic` as well) or a
curve iterator is still yielding after `fuelMax` pulls. -/
def e2e (i : Inp) : String :=
  match flatBuilderC i.tol origin i.n i.prog, flatAttrIterC i.tol (attrEvents i.prog),
      flatIterC fuelMax i.tol (specEvents i.prog) with
  | some b, some a, some f => unwords ("b" :: fcalls b ++ "f" :: fevs f ++ "a" :: faevs a)
  | some _, some _, none => "panic-or-fuel-exhausted"
  | _, _, _ => "panic"

/-- family `e2ep`: builder side and `for_each_flattened` only, `panic` being a compared outcome -/
def e2ep (i : Inp) : String :=
  match flatBuilderC i.tol origin i.n i.prog, flatAttrIterC i.tol (attrEvents i.prog) with
  | some b, some a => unwords ("b" :: fcalls b ++ "a" :: faevs a)
  | _, _ => "panic"

/-- family `sim`: `m` an exact similarity of scale `s = |m11| + |m12|`; flatten at `tol` then
transform (`ft`) and transform then flatten at `s·tol` (`tf`), both with the concrete flattener
model (`flatten_transform_similarity_concrete`: the two are equal in exact arithmetic) -/
def sim (i : Inp) : String :=
  let s : F := Scalar.abs i.m.m11 + Scalar.abs i.m.m12
  match flatBuilderC i.tol origin i.n i.prog,
      flatBuilderC (s * i.tol) origin i.n (xfBuilder i.m.apply i.prog) with
  | some ft, some tf => unwords ("ft" :: fcalls (xfBuilder i.m.apply ft) ++ "tf" :: fcalls tf)
  | _, _ => "panic"

def fam (name : String) (f : Inp → String) : Family := Family.plain name (fun v => f (parse v))

def families : List Family := [
  fam "wit" bf, fam "bf" bf, fam "bt" bt, fam "bn" bn, fam "na" na, fam "pb" pb,
  fam "it" it, fam "ix" ix, fam "in" in_, fam "e2e" e2e, fam "e2ep" e2ep,
  fam "sim" sim ]

end Lyon.Drive.C16

def main : IO Unit := Lyon.Drive.run Lyon.Drive.C16.families
