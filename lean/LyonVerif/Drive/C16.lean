/-
  Model driver for C16: replays the programs of `harness/src/bin/c16.rs` through the model of
  the flatten / transform adapters (`Model/Path/Adapters.lean`) at `Float32`.  The curve
  flattener is a parameter of the model: the harness hands over, as advice, what lyon_geom's
  flatteners return for every curve a route flattens (lyon_geom's flattening itself is property
  C09, modelled in `Model/Geom/Flatten.lean` and tied there); the model looks the curve up by
  the bit patterns of its control points — so a wrong `from`, tolerance or space still shows.

  CASE args: `n tol m11 m12 m21 m22 m31 m32 <prog> <advice>`,
  prog = `B x y a*n | L x y a*n | Q cx cy x y a*n | C c1x c1y c2x c2y x y a*n | E 0/1` and the
  PROVIDED methods of `PathBuilder` (`Model/Path/AdaptersHelpers.lean`: `Cmd`, parsed by
  `parseCmds`): `Z` close, `pb/pl/pq/pc/pe` path_event, `eb/el/eq/ec/ee` event, `PG` add_polygon,
  `PT` add_point, `LS` add_line_segment, `RC` add_rectangle, `RR` add_rounded_rectangle, `CI`
  add_circle, `EL` add_ellipse, `X` (concatenation mark, no call).  The routes below run on
  `expandProg cmds`: the primitive calls the default bodies make on the adapter that receives the
  helper call (no adapter overrides a provided method),
  advice = `| FQ/FC <ctrl points> k (fx fy tx ty t)*k` and `| IQ/IC <ctrl points> k (x y)*k`.
  Family `e2e` uses the C09 model of the flattener instead of the advice (end-to-end tie):
  `flatBuilderC` / `flatIterC` / `flatAttrIterC` of `Model/Path/AdaptersConcrete.lean`.
  Output: per family the routes listed in the harness' header, calls as `B/L/Q/C/E`, events as
  `b/l/q/c/e`.
-/
import LyonVerif.Drive.Common
import LyonVerif.Model.Geom.Basic
import LyonVerif.Model.Geom.Flatten
import LyonVerif.Model.Path.Adapters
import LyonVerif.Model.Path.AdaptersConcrete
import LyonVerif.Model.Path.AdaptersHelpers

namespace Lyon.Drive.C16
open Lyon Lyon.Drive Lyon.Path Lyon.Adapt

abbrev F := Float32
abbrev Pn := P F
abbrev ACall := Call Pn (List F)

instance : Inhabited F := ⟨Scalar.zero⟩

/-- advice tables: control-point bit patterns ↦ what lyon_geom returned -/
structure Advice where
  cb : List (List String × List (FSeg Pn F))
  it : List (List String × List Pn)

def h (s : String) : F := Wire.ofHex s
def pt (x y : String) : Pn := ⟨h x, h y⟩

def key (ps : List Pn) : List String := ps.flatMap fun p => [fx p.x, fx p.y]

def lookup {β : Type} (t : List (List String × List β)) (k : List String) : List β :=
  match t.find? (fun e => e.1 == k) with
  | some e => e.2
  | none => []

/-- lyon_geom's callback flatteners, as reported by the harness for exactly this curve -/
def cbFlattener (adv : Advice) : Flattener Pn F where
  quad a c b := lookup adv.cb (key [a, c, b])
  cubic a c1 c2 b := lookup adv.cb (key [a, c1, c2, b])

/-- lyon_geom's `Flattened` iterators, likewise -/
def itFlattener (adv : Advice) : IterFlattener Pn where
  quad a c b := lookup adv.it (key [a, c, b])
  cubic a c1 c2 b := lookup adv.it (key [a, c1, c2, b])

structure Inp where
  n : Nat
  tol : F
  m : Xf F
  /-- the program as sent: primitives and provided helper methods -/
  cmds : List (Cmd F)
  /-- the primitive calls an adapter receives for it: `expandProg cmds` -/
  prog : List ACall
  adv : Advice

def takeAttrs (n : Nat) (l : List String) : List F × List String := ((l.take n).map h, l.drop n)

partial def parseProg (n : Nat) : List String → List ACall
  | "B" :: x :: y :: r => let (a, r') := takeAttrs n r; .begin (pt x y) a :: parseProg n r'
  | "L" :: x :: y :: r => let (a, r') := takeAttrs n r; .line (pt x y) a :: parseProg n r'
  | "Q" :: cx :: cy :: x :: y :: r =>
    let (a, r') := takeAttrs n r; .quad (pt cx cy) (pt x y) a :: parseProg n r'
  | "C" :: ax :: ay :: bx :: by_ :: x :: y :: r =>
    let (a, r') := takeAttrs n r; .cubic (pt ax ay) (pt bx by_) (pt x y) a :: parseProg n r'
  | "E" :: c :: r => .end_ (c == "1") :: parseProg n r
  | _ => []

/-- `k` points -/
partial def takePts : Nat → List String → List Pn × List String
  | 0, r => ([], r)
  | k+1, x :: y :: r => let (l, r') := takePts k r; (pt x y :: l, r')
  | _, _ => ([], [])

def isOne (s : String) : Bool := s == "1"

/-- a program with helper calls (`put_cmds` of the harness) -/
partial def parseCmds (n : Nat) : List String → List (Cmd F)
  | "B" :: x :: y :: r => let (a, r') := takeAttrs n r; .prim (.begin (pt x y) a) :: parseCmds n r'
  | "L" :: x :: y :: r => let (a, r') := takeAttrs n r; .prim (.line (pt x y) a) :: parseCmds n r'
  | "Q" :: cx :: cy :: x :: y :: r =>
    let (a, r') := takeAttrs n r; .prim (.quad (pt cx cy) (pt x y) a) :: parseCmds n r'
  | "C" :: ax :: ay :: bx :: by_ :: x :: y :: r =>
    let (a, r') := takeAttrs n r
    .prim (.cubic (pt ax ay) (pt bx by_) (pt x y) a) :: parseCmds n r'
  | "E" :: c :: r => .prim (.end_ (isOne c)) :: parseCmds n r
  | "Z" :: r => .close :: parseCmds n r
  | "X" :: r => .cut :: parseCmds n r
  -- path_event(event, attributes)
  | "pb" :: x :: y :: r => let (a, r') := takeAttrs n r; .pathEvent (.begin (pt x y)) a :: parseCmds n r'
  | "pl" :: fx_ :: fy :: x :: y :: r =>
    let (a, r') := takeAttrs n r; .pathEvent (.line (pt fx_ fy) (pt x y)) a :: parseCmds n r'
  | "pq" :: fx_ :: fy :: cx :: cy :: x :: y :: r =>
    let (a, r') := takeAttrs n r
    .pathEvent (.quad (pt fx_ fy) (pt cx cy) (pt x y)) a :: parseCmds n r'
  | "pc" :: fx_ :: fy :: ax :: ay :: bx :: by_ :: x :: y :: r =>
    let (a, r') := takeAttrs n r
    .pathEvent (.cubic (pt fx_ fy) (pt ax ay) (pt bx by_) (pt x y)) a :: parseCmds n r'
  | "pe" :: lx :: ly :: fx_ :: fy :: c :: r =>
    let (a, r') := takeAttrs n r
    .pathEvent (.end_ (pt lx ly) (pt fx_ fy) (isOne c)) a :: parseCmds n r'
  -- event(Event<(Point, Attributes), Point>)
  | "eb" :: x :: y :: r => let (a, r') := takeAttrs n r; .event (.begin (pt x y, a)) :: parseCmds n r'
  | "el" :: fx_ :: fy :: r =>
    let (fa, r1) := takeAttrs n r
    match r1 with
    | x :: y :: r2 =>
      let (a, r') := takeAttrs n r2
      .event (.line (pt fx_ fy, fa) (pt x y, a)) :: parseCmds n r'
    | _ => []
  | "eq" :: fx_ :: fy :: r =>
    let (fa, r1) := takeAttrs n r
    match r1 with
    | cx :: cy :: x :: y :: r2 =>
      let (a, r') := takeAttrs n r2
      .event (.quad (pt fx_ fy, fa) (pt cx cy, []) (pt x y, a)) :: parseCmds n r'
    | _ => []
  | "ec" :: fx_ :: fy :: r =>
    let (fa, r1) := takeAttrs n r
    match r1 with
    | ax :: ay :: bx :: by_ :: x :: y :: r2 =>
      let (a, r') := takeAttrs n r2
      .event (.cubic (pt fx_ fy, fa) (pt ax ay, []) (pt bx by_, []) (pt x y, a)) :: parseCmds n r'
    | _ => []
  | "ee" :: lx :: ly :: r =>
    let (la, r1) := takeAttrs n r
    match r1 with
    | fx_ :: fy :: r2 =>
      let (fa, r3) := takeAttrs n r2
      match r3 with
      | c :: r' => .event (.end_ (pt lx ly, la) (pt fx_ fy, fa) (isOne c)) :: parseCmds n r'
      | _ => []
    | _ => []
  -- add_* helpers
  | "PG" :: k :: c :: r =>
    let (pts, r1) := takePts k.toNat! r
    let (a, r') := takeAttrs n r1
    .polygon pts (isOne c) a :: parseCmds n r'
  | "PT" :: x :: y :: r => let (a, r') := takeAttrs n r; .point (pt x y) a :: parseCmds n r'
  | "LS" :: x :: y :: u :: v :: r =>
    let (a, r') := takeAttrs n r; .segment (pt x y) (pt u v) a :: parseCmds n r'
  | "RC" :: x :: y :: u :: v :: w :: r =>
    let (a, r') := takeAttrs n r; .rectangle (pt x y) (pt u v) (isOne w) a :: parseCmds n r'
  | "RR" :: x :: y :: u :: v :: tl :: tr :: bl :: br :: w :: r =>
    let (a, r') := takeAttrs n r
    .roundedRectangle (pt x y) (pt u v) ⟨h tl, h tr, h bl, h br⟩ (isOne w) a :: parseCmds n r'
  | "CI" :: x :: y :: rad :: w :: r =>
    let (a, r') := takeAttrs n r; .circle (pt x y) (h rad) (isOne w) a :: parseCmds n r'
  | "EL" :: x :: y :: rx :: ry :: rot :: w :: r =>
    let (a, r') := takeAttrs n r
    .ellipse (pt x y) (pt rx ry) (h rot) (isOne w) a :: parseCmds n r'
  | _ => []

partial def parseSegs : Nat → List String → List (FSeg Pn F) × List String
  | 0, r => ([], r)
  | k+1, ax :: ay :: bx :: by_ :: t :: r =>
    let (l, r') := parseSegs k r
    (⟨pt ax ay, pt bx by_, h t⟩ :: l, r')
  | _, _ => ([], [])

partial def parsePts : Nat → List String → List Pn × List String
  | 0, r => ([], r)
  | k+1, x :: y :: r => let (l, r') := parsePts k r; (pt x y :: l, r')
  | _, _ => ([], [])

/-- canonical key of the control points as they appear in the advice (re-printed, so that it
is spelled exactly like `key`) -/
def rekey (toks : List String) : List String := toks.map fun t => fx (h t)

partial def parseAdvice (adv : Advice) : List String → Advice
  | "|" :: "FQ" :: r =>
    let (l, r') := parseSegs ((r.drop 6).headD "0").toNat! (r.drop 7)
    parseAdvice { adv with cb := adv.cb ++ [(rekey (r.take 6), l)] } r'
  | "|" :: "FC" :: r =>
    let (l, r') := parseSegs ((r.drop 8).headD "0").toNat! (r.drop 9)
    parseAdvice { adv with cb := adv.cb ++ [(rekey (r.take 8), l)] } r'
  | "|" :: "IQ" :: r =>
    let (l, r') := parsePts ((r.drop 6).headD "0").toNat! (r.drop 7)
    parseAdvice { adv with it := adv.it ++ [(rekey (r.take 6), l)] } r'
  | "|" :: "IC" :: r =>
    let (l, r') := parsePts ((r.drop 8).headD "0").toNat! (r.drop 9)
    parseAdvice { adv with it := adv.it ++ [(rekey (r.take 8), l)] } r'
  | _ => adv

def parse (v : Array String) : Inp :=
  let n := rdNat v 0
  let toks := v.toList.drop 8
  let progToks := toks.takeWhile (· != "|")
  let advToks := toks.dropWhile (· != "|")
  { n := n, tol := rd v 1,
    m := ⟨rd v 2, rd v 3, rd v 4, rd v 5, rd v 6, rd v 7⟩,
    cmds := parseCmds n progToks,
    prog := expandProg (parseCmds n progToks),
    adv := parseAdvice ⟨[], []⟩ advToks }

/-! ### printing -/

def fattrs (a : List F) : List String := a.map fx

def fcall : ACall → List String
  | .begin p a => "B" :: fp p :: fattrs a
  | .line p a => "L" :: fp p :: fattrs a
  | .quad c p a => "Q" :: fp c :: fp p :: fattrs a
  | .cubic c1 c2 p a => "C" :: fp c1 :: fp c2 :: fp p :: fattrs a
  | .end_ cl => ["E", fb cl]

def fcalls (l : List ACall) : List String := l.flatMap fcall

def fev : Event Pn → List String
  | .begin p => ["b", fp p]
  | .line a b => ["l", fp a, fp b]
  | .quad a c b => ["q", fp a, fp c, fp b]
  | .cubic a c d b => ["c", fp a, fp c, fp d, fp b]
  | .end_ l f cl => ["e", fp l, fp f, fb cl]

def fevs (l : List (Event Pn)) : List String := l.flatMap fev

def fap (p : AP Pn F) : List String := fp p.1 :: fattrs p.2

def faev : Event (AP Pn F) → List String
  | .begin p => "b" :: fap p
  | .line a b => "l" :: (fap a ++ fap b)
  | .quad a c b => "q" :: (fap a ++ [fp c.1] ++ fap b)
  | .cubic a c d b => "c" :: (fap a ++ [fp c.1, fp d.1] ++ fap b)
  | .end_ l f cl => "e" :: (fap l ++ fap f ++ [fb cl])

def faevs (l : List (Event (AP Pn F))) : List String := l.flatMap faev

/-! ### routes -/

def origin : Pn := ⟨Scalar.zero, Scalar.zero⟩

def bf (i : Inp) : String :=
  unwords (fcalls (flatBuilder (cbFlattener i.adv) origin i.n i.prog))

def bt (i : Inp) : String :=
  unwords (fcalls (xfBuilder i.m.apply i.prog))

def bn (i : Inp) : String :=
  let F := cbFlattener i.adv
  unwords ("ft" :: fcalls (xfBuilder i.m.apply (flatBuilder F origin i.n i.prog))
    ++ "tf" :: fcalls (flatBuilder F origin i.n (xfBuilder i.m.apply i.prog)))

def na (i : Inp) : String :=
  let F := cbFlattener i.adv
  let p0 : List ACall := noAttrBuilder i.prog
  let p1 : List ACall := expandProg (i.cmds.map noAttrCmd)
  unwords ("f" :: fcalls (flatBuilder F origin 0 p0)
    ++ "t" :: fcalls (xfBuilder i.m.apply p0)
    ++ "ft" :: fcalls (xfBuilder i.m.apply (flatBuilder F origin 0 p0))
    -- through NoAttributes' inherent methods: each forwards to the wrapped adapter's provided
    -- method with NO_ATTRIBUTES (`noAttrCmd`)
    ++ "fi" :: fcalls (flatBuilder F origin 0 p1)
    ++ "ti" :: fcalls (xfBuilder i.m.apply p1)
    ++ "fti" :: fcalls (xfBuilder i.m.apply (flatBuilder F origin 0 p1)))

def pb (i : Inp) : String :=
  let F := cbFlattener i.adv
  let p0 : List ACall := expandProg (i.cmds.map noAttrCmd)
  unwords ("f" :: fevs (specEvents (flatBuilder F origin 0 p0))
    ++ "fa" :: faevs (attrEvents (flatBuilder F origin i.n i.prog))
    ++ "ta" :: faevs (attrEvents (xfBuilder i.m.apply i.prog))
    ++ "t" :: fevs (specEvents (xfBuilder i.m.apply p0)))

def it (i : Inp) : String :=
  unwords ("f" :: fevs (flatIter (itFlattener i.adv) (specEvents i.prog))
    ++ "a" :: faevs (flatAttrIter (cbFlattener i.adv) (attrEvents i.prog)))

/-- the stored route: `Path::builder_with_attributes(n)` storage (C14 model) — put together
piece by piece with `extend_from_paths` where the program has `cut` marks (`storePieces` over
`piecesOf`, exactly as `build_path` of the harness does; without marks this is
`buildWithAttributes`) —, `apply_transform` on it, read back with `iter_with_attributes` -/
def storedXf (i : Inp) : List String :=
  let conv (cs : List (Cmd F)) : List (Call (Pt F) (List F)) := (expandProg cs).map (mapCall toPt)
  match storePieces i.n (BuilderWithAttributes.new i.n) []
      ((piecesOf i.cmds).map fun p => (conv p.1, p.2)) with
  | none => ["attr-count-panic"]
  | some path =>
    match (applyTransform (onPt i.m.apply) path).bind PathData.iterWithAttributes with
    | none => ["oob"]
    | some evs => faevs (evs.map (mapEvent fun q => (ofPt q.1, q.2)))

def ix (i : Inp) : String :=
  unwords ("t" :: fevs (xfIter i.m.apply (specEvents i.prog)) ++ "s" :: storedXf i)

def in_ (i : Inp) : String :=
  let G := itFlattener i.adv
  unwords ("tf" :: fevs (flatIter G (xfIter i.m.apply (specEvents i.prog)))
    ++ "ft" :: fevs (xfIter i.m.apply (flatIter G (specEvents i.prog))))

/-! ### end to end: the same routes with the C09 MODEL of lyon_geom's flatteners
(`Model/Geom/Flatten.lean`) instead of the advice (family `e2e`; the advice in the CASE line is
ignored) -/

def fuelMax : Nat := 200000

/-- the concrete adapters of `Model/Path/AdaptersConcrete.lean` (`cbModel`, `itModel`: the C09
model of lyon_geom's callback flatteners and `Flattened` iterators) — the very definitions the
theorems of `Props/C16b.lean` are about.  `none` = lyon_geom panics on a curve
(`count.to_u32().unwrap()`, `to_i32().unwrap()`: the harness then prints `panic` as well) or a
curve iterator is still yielding after `fuelMax` pulls. -/
def e2e (i : Inp) : String :=
  match flatBuilderC i.tol origin i.n i.prog, flatAttrIterC i.tol (attrEvents i.prog),
      flatIterC fuelMax i.tol (specEvents i.prog) with
  | some b, some a, some f => unwords ("b" :: fcalls b ++ "f" :: fevs f ++ "a" :: faevs a)
  | some _, some _, none => "panic-or-fuel-exhausted"
  | _, _, _ => "panic"

/-- family `e2ep`: builder side and `for_each_flattened` only, `panic` being a compared outcome -/
def e2ep (i : Inp) : String :=
  match flatBuilderC i.tol origin i.n i.prog, flatAttrIterC i.tol (attrEvents i.prog) with
  | some b, some a => unwords ("b" :: fcalls b ++ "a" :: faevs a)
  | _, _ => "panic"

/-- family `sim`: `m` an exact similarity of scale `s = |m11| + |m12|`; flatten at `tol` then
transform (`ft`) and transform then flatten at `s·tol` (`tf`), both with the concrete flattener
model (`flatten_transform_similarity_concrete`: the two are equal in exact arithmetic) -/
def sim (i : Inp) : String :=
  let s : F := Scalar.abs i.m.m11 + Scalar.abs i.m.m12
  match flatBuilderC i.tol origin i.n i.prog,
      flatBuilderC (s * i.tol) origin i.n (xfBuilder i.m.apply i.prog) with
  | some ft, some tf => unwords ("ft" :: fcalls (xfBuilder i.m.apply ft) ++ "tf" :: fcalls tf)
  | _, _ => "panic"

/-- family `mir`: a program and its mirror image (`m` = `(x, y) ↦ (x, −y)`) through the
builder-side `Flattened` at the same tolerance, with the concrete flattener model, and the two
call counts (`flatten_transform_reflection_concrete`: equal away from the flattener's sign test
at 0; observation `C16-obs-flatten-mirror-asymmetry` there) -/
def mir (i : Inp) : String :=
  match flatBuilderC i.tol origin i.n i.prog,
      flatBuilderC i.tol origin i.n (xfBuilder i.m.apply i.prog) with
  | some fo, some fm =>
    unwords ("o" :: fcalls fo ++ "m" :: fcalls fm ++ ["n", toString fo.length, toString fm.length])
  | _, _ => "panic"

/-! ### family `ip`: the iterator-side adapters on ARBITRARY event lists (partial streams)

CASE: `n tol m.. S|G <events with attributes> <advice>`; events as the harness prints them
(`b p a*n | l p a*n p a*n | q p a*n ctrl p a*n | c p a*n ctrl1 ctrl2 p a*n | e p a*n p a*n 0/1`).
No well-formedness is assumed: the list may start inside a sub-path, consist of edges only, … -/

def takeAP (n : Nat) : List String → Option (AP Pn F × List String)
  | x :: y :: r => let (a, r') := takeAttrs n r; some ((pt x y, a), r')
  | _ => none

partial def parseAEvs (n : Nat) : List String → List (Event (AP Pn F))
  | "b" :: r =>
    match takeAP n r with
    | some (a, r1) => .begin a :: parseAEvs n r1
    | none => []
  | "l" :: r =>
    match takeAP n r with
    | some (a, r1) =>
      match takeAP n r1 with
      | some (b, r2) => .line a b :: parseAEvs n r2
      | none => []
    | none => []
  | "q" :: r =>
    match takeAP n r with
    | some (a, cx :: cy :: r1) =>
      match takeAP n r1 with
      | some (b, r2) => .quad a (pt cx cy, []) b :: parseAEvs n r2
      | none => []
    | _ => []
  | "c" :: r =>
    match takeAP n r with
    | some (a, cx :: cy :: dx :: dy :: r1) =>
      match takeAP n r1 with
      | some (b, r2) => .cubic a (pt cx cy, []) (pt dx dy, []) b :: parseAEvs n r2
      | none => []
    | _ => []
  | "e" :: r =>
    match takeAP n r with
    | some (l, r1) =>
      match takeAP n r1 with
      | some (f, c :: r2) => .end_ l f (c == "1") :: parseAEvs n r2
      | _ => []
    | none => []
  | _ => []

def ip (v : Array String) : String :=
  let n := rdNat v 0
  let m : Xf F := ⟨rd v 2, rd v 3, rd v 4, rd v 5, rd v 6, rd v 7⟩
  let withA := v.getD 8 "" == "S"
  let toks := v.toList.drop 9
  let aevs := parseAEvs n (toks.takeWhile (· != "|"))
  let adv := parseAdvice ⟨[], []⟩ (toks.dropWhile (· != "|"))
  let evs : List (Event Pn) := aevs.map (mapEvent (·.1))
  let G := itFlattener adv
  unwords ("t" :: fevs (xfIter m.apply evs)
    ++ "f" :: fevs (flatIter G evs)
    ++ "tf" :: fevs (flatIter G (xfIter m.apply evs))
    ++ "ft" :: fevs (xfIter m.apply (flatIter G evs))
    ++ (if withA then "a" :: faevs (flatAttrIter (cbFlattener adv) aevs) else []))

def fam (name : String) (f : Inp → String) : Family := Family.plain name (fun v => f (parse v))

def families : List Family := [
  fam "wit" bf, fam "bf" bf, fam "bt" bt, fam "bn" bn, fam "na" na, fam "pb" pb,
  fam "it" it, fam "ix" ix, fam "in" in_, fam "e2e" e2e, fam "e2ep" e2ep,
  fam "sim" sim, Family.plain "ip" ip, fam "mir" mir ]

end Lyon.Drive.C16

def main : IO Unit := Lyon.Drive.run Lyon.Drive.C16.families
