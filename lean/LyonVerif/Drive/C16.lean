/-
  Model driver for C16: replays the programs of `harness/src/bin/c16.rs` through the model of
  the flatten / transform adapters (`Model/Path/Adapters.lean`) at `Float32`, with the curve
  flattener instantiated by the C09 model (`Model/Geom/Flatten.lean`) — the tie is end to end.

  CASE args: `n tol m11 m12 m21 m22 m31 m32 <prog>`,
  prog = `B x y a*n | L x y a*n | Q cx cy x y a*n | C c1x c1y c2x c2y x y a*n | E 0/1`.
  Output: per family the routes listed in the harness' header, calls as `B/L/Q/C/E`, events as
  `b/l/q/c/e`.
-/
import LyonVerif.Drive.Common
import LyonVerif.Model.Geom.Flatten
import LyonVerif.Model.Path.Adapters

namespace Lyon.Drive.C16
open Lyon Lyon.Drive Lyon.Path Lyon.Adapt

abbrev F := Float32
abbrev Pn := P F
abbrev ACall := Call Pn (List F)

instance : Inhabited F := ⟨Scalar.zero⟩

def fuelMax : Nat := 200000

/-- lyon_geom's callback flatteners at tolerance `tol` (a panic of `to_u32().unwrap()` would
show as an empty block) -/
def cbFlattener (tol : F) : Flattener Pn F where
  quad a c b :=
    ((Quad.forEachFlattenedWithT ⟨a, c, b⟩ tol).getD []).map fun s => ⟨s.a, s.b, s.t1⟩
  cubic a c1 c2 b :=
    ((Cubic.forEachFlattenedWithT ⟨a, c1, c2, b⟩ tol).getD []).map fun s => ⟨s.a, s.b, s.t1⟩

/-- lyon_geom's `Flattened` iterators at tolerance `tol` -/
def itFlattener (tol : F) : IterFlattener Pn where
  quad a c b := (QuadIter.new ⟨a, c, b⟩ tol).collect fuelMax
  cubic a c1 c2 b :=
    match CubicIter.new ⟨a, c1, c2, b⟩ tol with
    | some it => it.collect fuelMax
    | none => []

structure Inp where
  n : Nat
  tol : F
  m : Xf F
  prog : List ACall

def h (s : String) : F := Wire.ofHex s
def pt (x y : String) : Pn := ⟨h x, h y⟩

def takeAttrs (n : Nat) (l : List String) : List F × List String := ((l.take n).map h, l.drop n)

partial def parseProg (n : Nat) : List String → List ACall
  | "B" :: x :: y :: r => let (a, r') := takeAttrs n r; .begin (pt x y) a :: parseProg n r'
  | "L" :: x :: y :: r => let (a, r') := takeAttrs n r; .line (pt x y) a :: parseProg n r'
  | "Q" :: cx :: cy :: x :: y :: r =>
    let (a, r') := takeAttrs n r; .quad (pt cx cy) (pt x y) a :: parseProg n r'
  | "C" :: ax :: ay :: bx :: by_ :: x :: y :: r =>
    let (a, r') := takeAttrs n r; .cubic (pt ax ay) (pt bx by_) (pt x y) a :: parseProg n r'
  | "E" :: c :: r => .end_ (c == "1") :: parseProg n r
  | _ => []

def parse (v : Array String) : Inp :=
  let n := rdNat v 0
  { n := n, tol := rd v 1,
    m := ⟨rd v 2, rd v 3, rd v 4, rd v 5, rd v 6, rd v 7⟩,
    prog := parseProg n (v.toList.drop 8) }

/-! ### printing -/

def fattrs (a : List F) : List String := a.map fx

def fcall : ACall → List String
  | .begin p a => "B" :: fp p :: fattrs a
  | .line p a => "L" :: fp p :: fattrs a
  | .quad c p a => "Q" :: fp c :: fp p :: fattrs a
  | .cubic c1 c2 p a => "C" :: fp c1 :: fp c2 :: fp p :: fattrs a
  | .end_ cl => ["E", fb cl]

def fcalls (l : List ACall) : List String := l.flatMap fcall

def fev : Event Pn → List String
  | .begin p => ["b", fp p]
  | .line a b => ["l", fp a, fp b]
  | .quad a c b => ["q", fp a, fp c, fp b]
  | .cubic a c d b => ["c", fp a, fp c, fp d, fp b]
  | .end_ l f cl => ["e", fp l, fp f, fb cl]

def fevs (l : List (Event Pn)) : List String := l.flatMap fev

def fap (p : AP Pn F) : List String := fp p.1 :: fattrs p.2

def faev : Event (AP Pn F) → List String
  | .begin p => "b" :: fap p
  | .line a b => "l" :: (fap a ++ fap b)
  | .quad a c b => "q" :: (fap a ++ [fp c.1] ++ fap b)
  | .cubic a c d b => "c" :: (fap a ++ [fp c.1, fp d.1] ++ fap b)
  | .end_ l f cl => "e" :: (fap l ++ fap f ++ [fb cl])

def faevs (l : List (Event (AP Pn F))) : List String := l.flatMap faev

/-! ### routes -/

def origin : Pn := ⟨Scalar.zero, Scalar.zero⟩

def bf (i : Inp) : String :=
  unwords (fcalls (flatBuilder (cbFlattener i.tol) origin i.n i.prog))

def bt (i : Inp) : String :=
  unwords (fcalls (xfBuilder i.m.apply i.prog))

def bn (i : Inp) : String :=
  let F := cbFlattener i.tol
  unwords ("ft" :: fcalls (xfBuilder i.m.apply (flatBuilder F origin i.n i.prog))
    ++ "tf" :: fcalls (flatBuilder F origin i.n (xfBuilder i.m.apply i.prog)))

def na (i : Inp) : String :=
  let F := cbFlattener i.tol
  let p0 : List ACall := noAttrBuilder i.prog
  unwords ("f" :: fcalls (flatBuilder F origin 0 p0)
    ++ "t" :: fcalls (xfBuilder i.m.apply p0)
    ++ "ft" :: fcalls (xfBuilder i.m.apply (flatBuilder F origin 0 p0)))

def pb (i : Inp) : String :=
  let F := cbFlattener i.tol
  let p0 : List ACall := noAttrBuilder i.prog
  unwords ("f" :: fevs (specEvents (flatBuilder F origin 0 p0))
    ++ "fa" :: faevs (attrEvents (flatBuilder F origin i.n i.prog))
    ++ "ta" :: faevs (attrEvents (xfBuilder i.m.apply i.prog)))

def it (i : Inp) : String :=
  unwords ("f" :: fevs (flatIter (itFlattener i.tol) (specEvents i.prog))
    ++ "a" :: faevs (flatAttrIter (cbFlattener i.tol) (attrEvents i.prog)))

/-- the stored route: `Path::builder_with_attributes(n)` storage (C14 model), `apply_transform`
on it, read back with `iter_with_attributes` -/
def storedXf (i : Inp) : List String :=
  let prog : List (Call (Pt F) (List F)) := i.prog.map (mapCall toPt)
  match buildWithAttributes i.n prog with
  | none => ["attr-count-panic"]
  | some path =>
    match (applyTransform (onPt i.m.apply) path).iterWithAttributes with
    | none => ["oob"]
    | some evs => faevs (evs.map (mapEvent fun q => (ofPt q.1, q.2)))

def ix (i : Inp) : String :=
  unwords ("t" :: fevs (xfIter i.m.apply (specEvents i.prog)) ++ "s" :: storedXf i)

def in_ (i : Inp) : String :=
  let G := itFlattener i.tol
  unwords ("tf" :: fevs (flatIter G (xfIter i.m.apply (specEvents i.prog)))
    ++ "ft" :: fevs (xfIter i.m.apply (flatIter G (specEvents i.prog))))

def fam (name : String) (f : Inp → String) : Family := Family.plain name (fun v => f (parse v))

def families : List Family := [
  fam "wit" bf, fam "bf" bf, fam "bt" bt, fam "bn" bn, fam "na" na, fam "pb" pb,
  fam "it" it, fam "ix" ix, fam "in" in_ ]

end Lyon.Drive.C16

def main : IO Unit := Lyon.Drive.run Lyon.Drive.C16.families
