/-
  Model driver for C02.
  * `mono:32`  `<basic 0/1> <n> (x y left)*` → `<ntris> (a b c)*` from the monotone-stage model
  * `chk_tiling` the slab checker in tiling mode on the real fill output
-/
import LyonVerif.Drive.Common
import LyonVerif.Drive.SlabIO
import LyonVerif.Model.Tess.Monotone

namespace Lyon.Drive.C02
open Lyon Lyon.Drive Lyon.Mono

variable {α : Type} [Scalar α] [Wire α]

def rdSeq (v : Array String) : Nat → Nat → List (P α × Bool)
  | 0, _ => []
  | n+1, i => (rdP v i, rdNat v (i+2) == 1) :: rdSeq v n (i+3)

def fTris (t : List Tri) : String :=
  unwords (toString t.length :: t.map (fun (a, b, c) => toString a ++ " " ++ toString b ++ " " ++ toString c))

def mono (v : Array String) : String :=
  let basic := rdNat v 0 == 1
  let n := rdNat v 1
  let seq : List (P α × Bool) := rdSeq v n 2
  fTris (if basic then Basic.run seq else Adv.run seq)

def families : List Family := [
  ⟨"mono", mono (α := Float32), mono (α := Float)⟩,
  Family.plain "chk_tiling" (fun v => SlabIO.handle "fill" false v 0) ]

end Lyon.Drive.C02

def main : IO Unit := Lyon.Drive.run Lyon.Drive.C02.families
