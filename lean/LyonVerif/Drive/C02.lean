/-
  Model driver for C02.
  * `mono:32`  `<basic 0/1> <n> (x y left)*` → `<ntris> (a b c)*` from the monotone-stage model
  * `chk_tiling` the slab checker in tiling mode on the real fill output
  * `chk_tilingbuf` the same checker on the triangles of a fill as resolved through caller-owned
    buffers with prior contents (any index type)
  * `bufidx` `<ty> <n0> <ni0> <offset> <invert> <core ok> <len> (v | t a b c)*` → result, final
    vertex / index counts, prior contents kept, every new stored index: the fill skeleton over the
    `BuffersBuilder` model (Model/Tess/GeomBuilder.lean, Skeleton.lean) the theorems of
    Props/C04.lean and Props/C02d.lean are about
-/
import LyonVerif.Drive.Common
import LyonVerif.Drive.SlabIO
import LyonVerif.Model.Tess.Monotone
import LyonVerif.Model.Tess.Skeleton

namespace Lyon.Drive.C02
open Lyon Lyon.Drive Lyon.Mono

variable {α : Type} [Scalar α] [Wire α]

def rdSeq (v : Array String) : Nat → Nat → List (P α × Bool)
  | 0, _ => []
  | n+1, i => (rdP v i, rdNat v (i+2) == 1) :: rdSeq v n (i+3)

def fTris (t : List Tri) : String :=
  unwords (toString t.length :: t.map (fun (a, b, c) => toString a ++ " " ++ toString b ++ " " ++ toString c))

def mono (v : Array String) : String :=
  let basic := rdNat v 0 == 1
  let n := rdNat v 1
  let seq : List (P α × Bool) := rdSeq v n 2
  fTris (if basic then Basic.run seq else Adv.run seq)

/-! ### `bufidx` -/

open Lyon.Tess in
def idxCfgOf (ty : String) : IdxCfg :=
  match ty with
  | "u16" => IndexTy.u16.cfg
  | "u32" => IndexTy.u32.cfg
  | "i32" => IndexTy.i32.cfg
  | _ => IndexTy.usize.cfg

open Lyon.Tess in
def rdScript (v : Array String) : Nat → Nat → List CReq
  | 0, _ => []
  | n+1, i =>
    if v.getD i "" == "t" then .t (rdNat v (i+1)) (rdNat v (i+2)) (rdNat v (i+3)) :: rdScript v n (i+4)
    else .v 0 :: rdScript v n (i+1)

open Lyon.Tess in
def resName : Option TErr → String
  | none => "ok"
  | some (.geometryBuilder .tooManyVertices) => "gb:TooManyVertices"
  | some (.geometryBuilder .invalidVertex) => "gb:InvalidVertex"
  | some _ => "err"

open Lyon.Tess in
/-- prior vertices carry payload 1, the fill's vertices payload 0 -/
def bufidx (v : Array String) : String :=
  if v.getD 5 "" == "recording-panicked" then "recording-panicked" else
  let cfg := idxCfgOf (v.getD 0 "")
  let n0 := rdNat v 1
  let ni0 := rdNat v 2
  let off := rdNat v 3
  let inv := rdNat v 4 == 1
  let coreOk := rdNat v 5 == 1
  let core := rdScript v (rdNat v 6) 7
  let B : Buffers := ⟨List.replicate n0 1, List.replicate ni0 0⟩
  let b := (BB.new B cfg).withVertexOffset off
  let S := if inv then bbSink.invert else bbSink
  let o := tessellateImpl S true core (if coreOk then none else some (.internal 0)) b
  let kept := o.st.buf.vertices.take n0 == B.vertices && o.st.buf.indices.take ni0 == B.indices
  unwords ([resName o.result, toString o.st.buf.vertices.length, toString o.st.buf.indices.length,
    if kept then "1" else "0"] ++ (o.st.buf.indices.drop ni0).map toString)

def families : List Family := [
  ⟨"mono", mono (α := Float32), mono (α := Float)⟩,
  Family.plain "chk_tiling" (fun v => SlabIO.handle "fill" false v 0),
  Family.plain "chk_tilingbuf" (fun v => SlabIO.handle "fill" false v 0),
  Family.plain "bufidx" bufidx ]

end Lyon.Drive.C02

def main : IO Unit := Lyon.Drive.run Lyon.Drive.C02.families
