/-
  Model driver for C09: prints, for each `quad`/`cubic`/`arc` case, the same token sequence as
  `harness/src/bin/c09.rs`, computed by the flattening model at `Float32` / `Float`.
-/
import LyonVerif.Drive.Common
import LyonVerif.Model.Geom.Flatten
import LyonVerif.Model.Geom.FlattenCert
import LyonVerif.Drive.FlatChkIO

namespace Lyon.Drive.C09
open Lyon Lyon.Drive

variable {α : Type} [Scalar α] [Transc α] [Wire α] [FlatConst α]

def fuelMax : Nat := 200000

def fSegs (l : List (FlatSeg α)) : String :=
  unwords (toString l.length :: l.map (fun s => fp s.a ++ " " ++ fp s.b))
def fSegsT (l : List (FlatSeg α)) : String :=
  unwords (toString l.length :: l.map (fun s => fp s.a ++ " " ++ fp s.b ++ " " ++ fx s.t0 ++ " " ++ fx s.t1))
def fPts (l : List (P α)) : String :=
  if l.length ≥ fuelMax then "fuel" else unwords (toString l.length :: l.map fp)
def fTs (l : List α) : String :=
  if l.length ≥ fuelMax then "fuel" else unwords (toString l.length :: l.map fx)
def fQuad (q : Quad α) : String := fp q.a ++ " " ++ fp q.c ++ " " ++ fp q.b

def fCert (r : Bool × α) : String :=
  unwords [fb r.1, fx r.2, fb (decide (r.2 ≤ Scalar.one)), fb (decide (r.2 ≤ Scalar.ofSci 121 2))]

def quad (v : Array String) : String :=
  let q : Quad α := ⟨rdP v 0, rdP v 2, rdP v 4⟩
  let tol : α := rd v 6
  match q.forEachFlattenedWithT tol with
  | none => "panic"
  | some l =>
    unwords [
      "lin", fb (q.isLinear tol), fb (q.isAPoint tol),
      "cbt", fSegsT l,
      "cb", fSegs l,
      "tr", fSegsT l,
      "it", fPts ((QuadIter.new q tol).collect fuelMax),
      "itt", fTs ((QuadTIter.new q tol).collect fuelMax),
      -- per-input tolerance certificate (theorem quad_flat_within_tolerance_of_certificate)
      "cert", fCert (q.flatCert tol l) ]

def cubic (v : Array String) : String :=
  let c : Cubic α := ⟨rdP v 0, rdP v 2, rdP v 4, rdP v 6⟩
  let tol : α := rd v 8
  let quads := c.forEachQuadraticWithT tol
  match c.forEachFlattenedWithT tol, c.forEachFlattened tol, CubicIter.new c tol with
  | some lt, some l, some it =>
    unwords [
      "nq", toString (c.numQuadratics tol),
      "quads", toString quads.length,
      unwords (quads.map (fun (q, t0, t1) => fQuad q ++ " " ++ fx t0 ++ " " ++ fx t1)),
      "cbt", fSegsT lt,
      "cb", fSegs l,
      "tr", fSegsT lt,
      "it", fPts (it.collect fuelMax),
      -- per-input tolerance certificate (theorem cubic_flat_within_tolerance_of_certificate)
      "qcert", fCert ((c.flatCert tol).getD (false, Scalar.zero)) ]
  | _, _, _ => "panic"

def arcFuel : Nat := 100000

def arc (v : Array String) : String :=
  let a : Arc α := ⟨rdP v 0, rdP v 2, rd v 4, rd v 5, rd v 6⟩
  let tol : α := rd v 7
  let l := a.forEachFlattenedWithT tol arcFuel
  if l.length > arcFuel then "fuel" else
  unwords [
    "cbt", fSegsT l,
    "cb", fSegs l,
    "tr", fSegsT l,
    "it", fPts ((ArcIter.new a tol).collect fuelMax) ]

/-- lyon_path adapters (f32): the iterator adapter drives `quadratic_bezier::Flattened` /
`cubic_bezier::Flattened`; the builder adapter drives `for_each_flattened_with_t` through
`private::flatten_*` and passes `line.to` on. -/
def pquad (v : Array String) : String :=
  let q : Quad α := ⟨rdP v 0, rdP v 2, rdP v 4⟩
  let tol : α := rd v 6
  match q.forEachFlattenedWithT tol with
  | none => "panic"
  | some l =>
    unwords [ "pbuild", fPts (FlatSeg.points l), "piter", fPts ((QuadIter.new q tol).collect fuelMax) ]

def pcubic (v : Array String) : String :=
  let c : Cubic α := ⟨rdP v 0, rdP v 2, rdP v 4, rdP v 6⟩
  let tol : α := rd v 8
  match c.forEachFlattenedWithT tol, CubicIter.new c tol with
  | some l, some it =>
    unwords [ "pbuild", fPts (FlatSeg.points l), "piter", fPts (it.collect fuelMax) ]
  | _, _ => "panic"

def families : List Family := [
  ⟨"pquad", pquad (α := Float32), pquad (α := Float)⟩,
  ⟨"pcubic", pcubic (α := Float32), pcubic (α := Float)⟩,
  ⟨"quad", quad (α := Float32), quad (α := Float)⟩,
  ⟨"cubic", cubic (α := Float32), cubic (α := Float)⟩,
  ⟨"arc", arc (α := Float32), arc (α := Float)⟩,
  -- verified exact checker on lyon's own output (CHECK lines; Props/C09c.lean)
  Family.plain "chk_flat" FlatChkIO.handle,
  Family.plain "chk_arc" FlatChkIO.Arc.handle ]

end Lyon.Drive.C09

def main : IO Unit := Lyon.Drive.run Lyon.Drive.C09.families
