/-
  Model driver for C05: prints, for each component family of `harness/src/bin/c05.rs`, the same
  token sequence computed by `Model/Tess/StrokeParts.lean` at `Float32`.
  (`stroke` is an oracle-only family: no model output is compared.)
-/
import LyonVerif.Drive.Common
import LyonVerif.Model.Tess.StrokeParts
import LyonVerif.Model.Tess.StrokeFull
import LyonVerif.Model.Tess.StrokeAttrs
import LyonVerif.Model.Tess.StrokeBuilderProg

namespace Lyon.Drive.C05
open Lyon Lyon.Drive Lyon.Stroke

variable {α : Type} [Scalar α] [Transc α] [Wire α]

def fSide : Side → String
  | .positive => "P"
  | .negative => "N"

def fSrc : Src α → String
  | .endpoint id => "E " ++ toString id
  | .edge f t u => "G " ++ toString f ++ " " ++ toString t ++ " " ++ fx u

def fVtx (v : Vtx α) : String :=
  unwords [fp v.position, fp v.normal, fp v.positionOnPath, fx v.lineWidth, fx v.advancement,
           fSide v.side, fSrc v.src]

def fTri (t : Lyon.Stroke.Tri) : String := toString t.1 ++ " " ++ toString t.2.1 ++ " " ++ toString t.2.2

def fOut (o : Out α) : String :=
  unwords (["V", toString o.verts.length] ++ o.verts.map (fun d => fVtx d.read)
    ++ ["T", toString o.tris.length] ++ o.tris.map fTri ++ ["N", toString o.nextId])

def rdSide (v : Array String) (i : Nat) : Side := if v.getD i "" == "P" then .positive else .negative
def rdBool (v : Array String) (i : Nat) : Bool := v.getD i "0" == "1"

/-- `pop.x pop.y hw n.x n.y adv side (E id | G from to t)`; returns the index after the record -/
def rdVData (v : Array String) (i : Nat) : VData α × Nat :=
  let src : Src α × Nat :=
    if v.getD (i+7) "" == "E" then (.endpoint (rdNat v (i+8)), i+9)
    else (.edge (rdNat v (i+8)) (rdNat v (i+9)) (rd v (i+10)), i+11)
  ({ positionOnPath := rdP v i, halfWidth := rd v (i+2), normal := rdP v (i+3), advancement := rd v (i+5),
     side := rdSide v (i+6), src := src.1 }, src.2)

def cn (v : Array String) : String :=
  let n : P α := computeNormal (rdP v 0) (rdP v 2)
  unwords ["n", fp n, "ex", fb (miterLimitIsExceeded n (rd v 4 : α))]

def cfs (v : Array String) : String := fx (circleFlatteningStep (rd v 0 : α) (rd v 1))

def rdList (v : Array String) (i n : Nat) : List α := (List.range n).map (fun k => rd v (i + k))

def vtx (v : Array String) : String :=
  let (d, i) : VData α × Nat := rdVData v 0
  let n := rdNat v i
  let a : List α := rdList v (i+1) n
  let b : List α := rdList v (i+1+n) n
  let store : Nat → List α := fun id => if id == 0 then a else b
  let (r1, r2) := interpolatedTwice store d.src
  let one (r : List α) := unwords ([fVtx d.read, "A", toString r.length] ++ r.map fx)
  unwords [one r1, one r2]

/-! PointBuffer -/

def optTag : Option Nat → String
  | some t => toString t
  | none => "oob"

def pbufRow (b : PointBuffer Nat) : String :=
  let n := b.count
  let idx := List.range n
  let lastPart := if n > 0 then [optTag b.last, optTag b.last] else []
  let two := if n ≥ 2 then (match b.lastTwo with
    | some (x, y) => [toString x, toString y]
    | none => ["oob", "oob"]) else []
  unwords (["R", toString n] ++ idx.map (fun i => optTag (b.get i)) ++ lastPart
    ++ (idx.map (fun i => [optTag (b.getReverse i), optTag (b.get i)])).flatten ++ two)

def pbufGo (v : Array String) : Nat → Nat → PointBuffer Nat → List String → String
  | 0, _, _, acc => unwords acc.reverse
  | n+1, i, b, acc =>
    let op := rdNat v i
    let tag := rdNat v (i+1)
    let r := if op == 0 then b.push tag else if op == 1 then b.replaceLast tag else some b.clear
    match r with
    | none => "panic"
    | some b' => pbufGo v n (i+2) b' (pbufRow b' :: acc)

def pbuf (v : Array String) : String := pbufGo v (rdNat v 0) 1 (PointBuffer.new 0) []

/-! the window automaton -/

def winRow (w : Window α) : String :=
  unwords (["S", fb w.mayNeedEmptyCap, toString w.buf.count] ++
    (List.range w.buf.count).map (fun i => match w.buf.get i with
      | some p => fp p
      | none => "oob oob"))

def winGo (v : Array String) (thr : α) : Nat → Nat → Bool → Window α → List String → String
  | 0, _, _, _, acc => unwords acc.reverse
  | n+1, i, first, w, acc =>
    let p : P α := rdP v i
    let r := if first then w.begin thr p else w.step thr p
    match r with
    | none => "panic"
    | some w' => winGo v thr n (i+3) false w' (winRow w' :: acc)

def win (v : Array String) : String :=
  let thr : α := squareMergeThreshold (rd v 0) (rd v 1)
  unwords ["thr", fx thr, winGo v thr (rdNat v 3) 4 true Window.new []]

/-! id logic -/

def rdJoinIds (v : Array String) (i : Nat) : JoinIds :=
  ⟨rdNat v i, rdNat v (i+1), rdNat v (i+2), rdNat v (i+3), rdBool v (i+4), rdBool v (i+5)⟩

def edge (v : Array String) : String :=
  let t := addEdgeTriangles (rdJoinIds v 0) (rdJoinIds v 6)
  unwords (toString t.length :: t.map fTri)

def rdSingle (v : Array String) (i : Nat) : Option (P α) :=
  if rdNat v i == 1 then some (rdP v (i+1)) else none

def join (v : Array String) : String :=
  let tol : α := rd v 4
  let pos : SideGeom α := ⟨rdP v 5, rdP v 7, rdSingle v 13, rdNat v 21, rdNat v 22⟩
  let neg : SideGeom α := ⟨rdP v 9, rdP v 11, rdSingle v 16, rdNat v 23, rdNat v 24⟩
  let j : Join α := { position := rdP v 0, halfWidth := rd v 2, round := rdNat v 3 == 2, pos := pos, neg := neg,
                      foldPos := rdBool v 19, foldNeg := rdBool v 20 }
  let base := rdBool v 25
  let o0 : Out α := Out.empty (rdNat v 26)
  let (d, _) : VData α × Nat := rdVData v 27
  let (j1, o1) := if base then addJoinBaseVertices j d o0 else (j, o0)
  let o2 := tessellateJoin j1 tol d o1
  let i := j1.ids
  unwords [fOut o2, "I", toString i.posPrev, toString i.posNext, toString i.negPrev, toString i.negNext]

/-- recursion depths beyond this are not run by the model (the harness does not generate them) -/
def maxDepth : Nat := 20

def arc (v : Array String) : String :=
  let (d, _) : VData α × Nat := rdVData v 6
  let n := rdNat v 4
  if n > maxDepth then "too-deep" else
  fOut (tessellateArc (rd v 0) (rd v 1) (rdNat v 2) (rdNat v 3) n d (Out.empty (rdNat v 5)))

def cap (v : Array String) : String :=
  let (d, _) : VData α × Nat := rdVData v 12
  fOut (tessellateRoundCap (rdP v 0) (rd v 2) (rdP v 3) (rdNat v 5) (rdNat v 6) (rdP v 7) (rd v 9)
    (rdBool v 10) d (Out.empty (rdNat v 11)))

def ecap (v : Array String) : String :=
  let (d, i) : VData α × Nat := rdVData v 4
  let tol : α := rd v i
  let o : Out α := Out.empty (rdNat v 3)
  fOut (if rdBool v 2 then tessellateEmptyRoundCap (rdP v 0) tol d o else tessellateEmptySquareCap (rdP v 0) d o)

/-! polyline skeleton (bevel joins, butt caps, fixed width):
`tol width nsub (n closed (x y)*)*` → `V n (src side)* T m (a b c)*` -/

def rdPts (v : Array String) : Nat → Nat → List (P α)
  | 0, _ => []
  | n+1, i => rdP v i :: rdPts v n (i+2)

def rdSubs (v : Array String) : Nat → Nat → List (List (P α) × Bool)
  | 0, _ => []
  | k+1, i =>
    let n := rdNat v i
    (rdPts v n (i+2), rdBool v (i+1)) :: rdSubs v k (i + 2 + 2 * n)

def poly (v : Array String) : String :=
  let m := Poly.path (rd v 0 : α) (rd v 1) (rdSubs v (rdNat v 2) 3)
  unwords (["V", toString m.verts.length] ++ m.verts.map (fun (s, sd) => toString s ++ " " ++ fSide sd)
    ++ ["T", toString m.tris.length] ++ m.tris.map fTri)

/-! the complete output of the public stroker (`Model/Tess/StrokeFull.lean`):
`full tol width miter_limit join start_cap end_cap nsub (n closed (x y)*)*` → every vertex with all
accessors, every triangle -/

section Full
open Lyon.Stroke.Full

def joinOf : String → LineJoin
  | "miter" => .miter | "miterclip" => .miterClip | "round" => .round | _ => .bevel
def capOf : String → LineCap
  | "butt" => .butt | "square" => .square | _ => .round

def subsToEvents (subs : List (List (P α) × Bool)) : List (PathEv α) :=
  subs.flatMap (fun s => match s.1 with
    | [] => []
    | p :: r => PathEv.begin p :: r.map PathEv.line ++ [PathEv.end_ s.2])

def fOutFull (o : Out α) : String :=
  unwords (["V", toString o.verts.length] ++ o.verts.map (fun d => fVtx d.read)
    ++ ["T", toString o.tris.length] ++ o.tris.map fTri)

def full [HasIx α] [Asin α] [FlatConst α] (v : Array String) : String :=
  let o : Opts α := ⟨rd v 0, rd v 1, rd v 2, joinOf (v.getD 3 ""), capOf (v.getD 4 ""), capOf (v.getD 5 ""), false, 0⟩
  let subs : List (List (P α) × Bool) := rdSubs v (rdNat v 6) 7
  match tessellateFw (Env.new o HasIx.ix) (subsToEvents subs) with
  | some out => fOutFull out
  | none => "panic"

/-- parsed events: the id events and the attribute store `(id, attributes)` -/
def rdEvents (v : Array String) (nattr : Nat) : Nat → Nat → List (IdEv α) × List (Nat × List α)
  | 0, _ => ([], [])
  | n+1, i =>
    match v.getD i "" with
    | "B" =>
      let r := rdEvents v nattr n (i + 4 + nattr)
      (IdEv.begin (rdNat v (i+1)) (rdP v (i+2)) :: r.1, (rdNat v (i+1), rdList v (i+4) nattr) :: r.2)
    | "L" =>
      let r := rdEvents v nattr n (i + 4 + nattr)
      (IdEv.line (rdNat v (i+1)) (rdP v (i+2)) :: r.1, (rdNat v (i+1), rdList v (i+4) nattr) :: r.2)
    | "Q" =>
      let r := rdEvents v nattr n (i + 6 + nattr)
      (IdEv.quad (rdP v (i+1)) (rdNat v (i+3)) (rdP v (i+4)) :: r.1, (rdNat v (i+3), rdList v (i+6) nattr) :: r.2)
    | "C" =>
      let r := rdEvents v nattr n (i + 8 + nattr)
      (IdEv.cubic (rdP v (i+1)) (rdP v (i+3)) (rdNat v (i+5)) (rdP v (i+6)) :: r.1, (rdNat v (i+5), rdList v (i+8) nattr) :: r.2)
    | _ =>
      let r := rdEvents v nattr n (i + 2)
      (IdEv.end_ (rdBool v (i+1)) :: r.1, r.2)

def toPathEv : IdEv α → PathEv α
  | .begin _ p => .begin p
  | .line _ p => .line p
  | .quad c _ p => .quad c p
  | .cubic c1 c2 _ p => .cubic c1 c2 p
  | .end_ c => .end_ c

/-- every vertex with the attributes its `interpolated_attributes()` reports: `attrs` is the
sequence computed by `Full.attrsSeq` (the cached buffer of `StrokeVertexData` included) -/
def fOutAttrs (attrs : List (List α)) (o : Out α) : String :=
  unwords (["V", toString o.verts.length]
    ++ (o.verts.zip attrs).map (fun (d, a) => unwords ([fVtx d.read, "A", toString a.length] ++ a.map fx))
    ++ ["T", toString o.tris.length] ++ o.tris.map fTri)

def fulle [HasIx α] [Asin α] [FlatConst α] (v : Array String) : String :=
  let o : Opts α := ⟨rd v 0, rd v 1, rd v 2, joinOf (v.getD 3 ""), capOf (v.getD 4 ""), capOf (v.getD 5 ""), rdBool v 6, 0⟩
  let fwIds := rdBool v 7
  let nattr := rdNat v 8
  let (evs, attrs) : List (IdEv α) × List (Nat × List α) := rdEvents v nattr (rdNat v 9) 10
  let store : Nat → List α := fun id => ((attrs.find? (fun a => a.1 == id)).map (·.2)).getD []
  let e := Env.new o HasIx.ix
  let r := if fwIds then tessellateFw e (evs.map toPathEv) else tessellateIds e store evs
  match r with
  | some out =>
    -- `tessellate_fw` has no attribute store
    fOutAttrs (attrsSeq (if fwIds then fun _ => [] else store) out.verts ⟨false, []⟩) out
  | none => "panic"

/-! a PROGRAM on one `StrokeBuilder` (`Model/Tess/StrokeBuilderProg.lean`): several sub-paths, the shape
helpers, the option setters on the object `StrokeTessellator::builder` / `builder_with_attributes` returns
(and the one-shot `tessellate_rectangle` / `_circle` / `_ellipse` / `_polygon` built on it):
`prog tol width ml join cap1 cap2 variable nattr ncmd (B x y a* | L x y a* | Q cx cy x y a* |
 C c1x c1y c2x c2y x y a* | E close | R minx miny maxx maxy positive a* | P n closed (x y)* a* |
 S px py qx qy a* | O x y a* | SJ join | SS cap | SE cap | SM ml)*` → every vertex (all accessors,
interpolated attributes), every triangle -/

open Lyon.Stroke.Prog in
def rdCmds (v : Array String) (nattr : Nat) : Nat → Nat → List (Cmd α)
  | 0, _ => []
  | n+1, i =>
    match v.getD i "" with
    | "B" => Cmd.begin (rdP v (i+1)) (rdList v (i+3) nattr) :: rdCmds v nattr n (i + 3 + nattr)
    | "L" => Cmd.line (rdP v (i+1)) (rdList v (i+3) nattr) :: rdCmds v nattr n (i + 3 + nattr)
    | "Q" => Cmd.quad (rdP v (i+1)) (rdP v (i+3)) (rdList v (i+5) nattr) :: rdCmds v nattr n (i + 5 + nattr)
    | "C" => Cmd.cubic (rdP v (i+1)) (rdP v (i+3)) (rdP v (i+5)) (rdList v (i+7) nattr) :: rdCmds v nattr n (i + 7 + nattr)
    | "E" => Cmd.end_ (rdBool v (i+1)) :: rdCmds v nattr n (i + 2)
    | "R" => Cmd.rect (rdP v (i+1)) (rdP v (i+3)) (rdBool v (i+5)) (rdList v (i+6) nattr) :: rdCmds v nattr n (i + 6 + nattr)
    | "P" =>
      let k := rdNat v (i+1)
      Cmd.polygon (rdPts v k (i+3)) (rdBool v (i+2)) (rdList v (i + 3 + 2 * k) nattr) :: rdCmds v nattr n (i + 3 + 2 * k + nattr)
    | "S" => Cmd.segment (rdP v (i+1)) (rdP v (i+3)) (rdList v (i+5) nattr) :: rdCmds v nattr n (i + 5 + nattr)
    | "O" => Cmd.point (rdP v (i+1)) (rdList v (i+3) nattr) :: rdCmds v nattr n (i + 3 + nattr)
    | "SJ" => Cmd.setJoin (joinOf (v.getD (i+1) "")) :: rdCmds v nattr n (i + 2)
    | "SS" => Cmd.setStartCap (capOf (v.getD (i+1) "")) :: rdCmds v nattr n (i + 2)
    | "SE" => Cmd.setEndCap (capOf (v.getD (i+1) "")) :: rdCmds v nattr n (i + 2)
    | _ => Cmd.setMiterLimit (rd v (i+1)) :: rdCmds v nattr n (i + 2)

open Lyon.Stroke.Prog in
def prog [HasIx α] [Asin α] [FlatConst α] (v : Array String) : String :=
  let o : Opts α := ⟨rd v 0, rd v 1, rd v 2, joinOf (v.getD 3 ""), capOf (v.getD 4 ""), capOf (v.getD 5 ""), rdBool v 6, 0⟩
  let nattr := rdNat v 7
  let cmds : List (Cmd α) := rdCmds v nattr (rdNat v 8) 9
  let its := expand ⟨o, 0⟩ cmds
  match tessellateProg o HasIx.ix cmds with
  | some out => fOutAttrs (attrsSeq (storeOf its) out.verts ⟨false, []⟩) out
  | none => "panic"

end Full

def families : List Family := [
  ⟨"full", full (α := Float32), full (α := Float)⟩,
  ⟨"fulle", fulle (α := Float32), fulle (α := Float)⟩,
  ⟨"prog", prog (α := Float32), prog (α := Float)⟩,
  ⟨"poly", poly (α := Float32), poly (α := Float)⟩,
  ⟨"cn", cn (α := Float32), cn (α := Float)⟩,
  ⟨"cfs", cfs (α := Float32), cfs (α := Float)⟩,
  ⟨"vtx", vtx (α := Float32), vtx (α := Float)⟩,
  Family.plain "pbuf" pbuf,
  ⟨"win", win (α := Float32), win (α := Float)⟩,
  Family.plain "edge" edge,
  ⟨"join", join (α := Float32), join (α := Float)⟩,
  ⟨"arc", arc (α := Float32), arc (α := Float)⟩,
  ⟨"cap", cap (α := Float32), cap (α := Float)⟩,
  ⟨"ecap", ecap (α := Float32), ecap (α := Float)⟩ ]

end Lyon.Drive.C05

def main : IO Unit := Lyon.Drive.run Lyon.Drive.C05.families
