/-
  Wire format of the slab checker: `rule mode ~delta nE (ax ay bx by)* nT (ax ay bx by cx cy)*`,
  coordinates as IEEE bit patterns converted to exact rationals.
  Answer: `ok slabs=… gaps=…` | `fail <clause> <class> <detail>` | `skip <why>`.
-/
import LyonVerif.Model.Slab
import LyonVerif.Model.RatScalar

namespace Lyon.Drive.SlabIO
open Lyon Lyon.Slab

def rdRat (v : Array String) (i : Nat) : Option Rat := ratOfHex (v.getD i "~00000000")

def rdPt (v : Array String) (i : Nat) : Option (P Rat) := do
  let x ← rdRat v i
  let y ← rdRat v (i+1)
  pure ⟨x, y⟩

def rdEdges (v : Array String) : Nat → Nat → Option (List (P Rat × P Rat))
  | 0, _ => some []
  | n+1, i => do
    let a ← rdPt v i
    let b ← rdPt v (i+2)
    let r ← rdEdges v n (i+4)
    pure ((a, b) :: r)

def rdTris (v : Array String) : Nat → Nat → Option (List (P Rat × P Rat × P Rat))
  | 0, _ => some []
  | n+1, i => do
    let a ← rdPt v i
    let b ← rdPt v (i+2)
    let c ← rdPt v (i+4)
    let r ← rdTris v n (i+6)
    pure ((a, b, c) :: r)

def modeOf : Nat → Mode
  | 0 => .fill | 1 => .tiling | 2 => .covers | _ => .within

def modeName : Mode → String
  | .fill => "fill" | .tiling => "tiling" | .covers => "covers" | .within => "within"

/-- parse a checker input starting at token `i0` -/
def parse (v : Array String) (i0 : Nat) : Option (Input Rat) := do
  let rule := if rdNat v i0 == 0 then Rule.evenOdd else Rule.nonZero
  let mode := modeOf (rdNat v (i0+1))
  let d ← rdRat v (i0+2)
  let nE := rdNat v (i0+3)
  let edges ← rdEdges v nE (i0+4)
  let j := i0 + 4 + 4*nE
  let nT := rdNat v j
  let tris ← rdTris v nT (j+1)
  pure ⟨edges, tris, rule, mode, d*d⟩

def showFail (f : Fail Rat) : String :=
  "q=(" ++ toString (ratToFloat f.x) ++ "," ++ toString (ratToFloat f.y) ++ ") exact=(" ++ ratStr f.x ++ "," ++ ratStr f.y
    ++ ") W=" ++ toString f.w ++ " F=" ++ toString f.f

/-- run the checker; `clausePrefix` names the call site (e.g. `fill`) -/
def verdict (clausePrefix : String) (checkDegenerate : Bool) (inp : Input Rat) : String :=
  let r := check inp
  match r.fails with
  | f0 :: _ =>
    -- report the most serious kind of failing gap: a coverage error (uncovered / spurious) before a
    -- pure overlap (covered more than once where the rule says "in")
    let unc := r.fails.find? (fun f => f.f == 0)
    let spur := r.fails.find? (fun f => decide (f.f ≥ 1) && !(inp.rule.isIn f.w))
    let (cls, f) := match unc, spur with
      | some f, _ => ("uncovered", f)
      | none, some f => ("spurious", f)
      | none, none => ("pure-overlap", f0)
    "fail " ++ clausePrefix ++ "/" ++ modeName inp.mode ++ " " ++ cls ++ " " ++ showFail f
      ++ " nfails=" ++ toString r.fails.length
  | [] =>
    if checkDegenerate && !r.degenerate.isEmpty then
      "fail " ++ clausePrefix ++ "/degenerate-triangle generic tri=" ++ toString (r.degenerate.headD 0)
    else "ok slabs=" ++ toString r.slabs ++ " gaps=" ++ toString r.gaps

def handle (clausePrefix : String) (checkDegenerate : Bool) (v : Array String) (i0 : Nat) : String :=
  match parse v i0 with
  | none => "skip non-finite-coordinate"
  | some inp => verdict clausePrefix checkDegenerate inp

end Lyon.Drive.SlabIO
