/-
  Wire format of the slab checker: `rule mode ~delta nE (ax ay bx by)* nT (ax ay bx by cx cy)*`,
  coordinates as IEEE bit patterns converted to exact rationals.
  Answer: `ok slabs=… gaps=…` | `fail <clause> <class> <detail>` | `skip <why>`.
-/
import LyonVerif.Model.Slab
import LyonVerif.Model.RatScalar

namespace Lyon.Drive.SlabIO
open Lyon Lyon.Slab

def rdRat (v : Array String) (i : Nat) : Option Rat := ratOfHex (v.getD i "~00000000")

def rdPt (v : Array String) (i : Nat) : Option (P Rat) := do
  let x ← rdRat v i
  let y ← rdRat v (i+1)
  pure ⟨x, y⟩

def rdEdges (v : Array String) : Nat → Nat → Option (List (P Rat × P Rat))
  | 0, _ => some []
  | n+1, i => do
    let a ← rdPt v i
    let b ← rdPt v (i+2)
    let r ← rdEdges v n (i+4)
    pure ((a, b) :: r)

def rdTris (v : Array String) : Nat → Nat → Option (List (P Rat × P Rat × P Rat))
  | 0, _ => some []
  | n+1, i => do
    let a ← rdPt v i
    let b ← rdPt v (i+2)
    let c ← rdPt v (i+4)
    let r ← rdTris v n (i+6)
    pure ((a, b, c) :: r)

def modeOf : Nat → Mode
  | 0 => .fill | 1 => .tiling | 2 => .covers | _ => .within

def modeName : Mode → String
  | .fill => "fill" | .tiling => "tiling" | .covers => "covers" | .within => "within"

/-- parse a checker input starting at token `i0` -/
def parse (v : Array String) (i0 : Nat) : Option (Input Rat) := do
  let rule := if rdNat v i0 == 0 then Rule.evenOdd else Rule.nonZero
  let mode := modeOf (rdNat v (i0+1))
  let d ← rdRat v (i0+2)
  let nE := rdNat v (i0+3)
  let edges ← rdEdges v nE (i0+4)
  let j := i0 + 4 + 4*nE
  let nT := rdNat v j
  let tris ← rdTris v nT (j+1)
  pure ⟨edges, tris, rule, mode, d*d⟩

def showFail (f : Fail Rat) : String :=
  "q=(" ++ toString (ratToFloat f.x) ++ "," ++ toString (ratToFloat f.y) ++ ") exact=(" ++ ratStr f.x ++ "," ++ ratStr f.y
    ++ ") W=" ++ toString f.w ++ " F=" ++ toString f.f

/-- squared distance from `q` to the segment `a b` (exact) -/
def segDist2 (q a b : P Rat) : Rat :=
  let d := b - a
  let l2 := d.x * d.x + d.y * d.y
  let t := if l2 == 0 then 0 else ((q - a).x * d.x + (q - a).y * d.y) / l2
  let t := if t < 0 then 0 else if t > 1 then 1 else t
  let c : P Rat := ⟨a.x + d.x * t, a.y + d.y * t⟩
  (q - c).x * (q - c).x + (q - c).y * (q - c).y

def ratAbs (x : Rat) : Rat := if x < 0 then -x else x

/-- CLASSIFICATION ONLY (not part of the proved checker): a pure-overlap verdict is a
`rounding-sliver` when the mid-point of EVERY overlapped gap lies within `scale · 2⁻²⁰` of a
triangle edge, `scale` = largest coordinate magnitude of the output — the overlap is then thinner
than what a few `f32` roundings of a computed vertex (an intersection point) can produce.  Any
wider overlap keeps the class `pure-overlap`. -/
def isRoundingSliver (inp : Input Rat) (fails : List (Fail Rat)) : Bool :=
  let scale := inp.tris.foldl (fun m t =>
    [t.1.x, t.1.y, t.2.1.x, t.2.1.y, t.2.2.x, t.2.2.y].foldl (fun m c => if ratAbs c > m then ratAbs c else m) m) (1 : Rat)
  let eps := scale / 1048576
  let eps2 := eps * eps
  fails.all (fun f =>
    let q : P Rat := ⟨f.x, f.y⟩
    inp.tris.any (fun t =>
      decide (segDist2 q t.1 t.2.1 ≤ eps2) || decide (segDist2 q t.2.1 t.2.2 ≤ eps2) || decide (segDist2 q t.2.2 t.1 ≤ eps2)))

/-- run the checker; `clausePrefix` names the call site (e.g. `fill`) -/
def verdict (clausePrefix : String) (checkDegenerate : Bool) (inp : Input Rat) : String :=
  let r := check inp
  match r.fails with
  | f0 :: _ =>
    -- report the most serious kind of failing gap: a coverage error (uncovered / spurious) before a
    -- pure overlap (covered more than once where the rule says "in")
    let unc := r.fails.find? (fun f => f.f == 0)
    let spur := r.fails.find? (fun f => decide (f.f ≥ 1) && !(inp.rule.isIn f.w))
    let (cls, f) := match unc, spur with
      | some f, _ => ("uncovered", f)
      | none, some f => ("spurious", f)
      | none, none => (if isRoundingSliver inp r.fails then "rounding-sliver" else "pure-overlap", f0)
    "fail " ++ clausePrefix ++ "/" ++ modeName inp.mode ++ " " ++ cls ++ " " ++ showFail f
      ++ " nfails=" ++ toString r.fails.length
  | [] =>
    if checkDegenerate && !r.degenerate.isEmpty then
      "fail " ++ clausePrefix ++ "/degenerate-triangle generic tri=" ++ toString (r.degenerate.headD 0)
    else "ok slabs=" ++ toString r.slabs ++ " gaps=" ++ toString r.gaps

def handle (clausePrefix : String) (checkDegenerate : Bool) (v : Array String) (i0 : Nat) : String :=
  match parse v i0 with
  | none => "skip non-finite-coordinate"
  | some inp => verdict clausePrefix checkDegenerate inp

end Lyon.Drive.SlabIO
