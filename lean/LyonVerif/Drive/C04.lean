/-
  Model driver for C04: for each `fill` / `stroke` / `shape` / `bb` case prints what the skeleton
  and builder models predict for every fault position listed in the case — the same token
  sequence `harness/src/bin/c04.rs` prints from the real runs.
-/
import LyonVerif.Drive.Common
import LyonVerif.Model.Tess.Skeleton
import LyonVerif.Lemmas.C04Spec

namespace Lyon.Drive.C04
open Lyon Lyon.Drive Lyon.Tess

/-- Token cursor. -/
structure Cur where
  v : Array String
  i : Nat

def Cur.tok (c : Cur) : String × Cur := (c.v.getD c.i "", { c with i := c.i + 1 })
def Cur.nat (c : Cur) : Nat × Cur := (((c.v.getD c.i "0").toNat?).getD 0, { c with i := c.i + 1 })

def Cur.nats : Nat → Cur → List Nat × Cur
  | 0, c => ([], c)
  | n + 1, c =>
    let (x, c) := c.nat
    let (r, c) := Cur.nats n c
    (x :: r, c)

structure SinkSpec where
  ty : String
  overflow : Bool
  err : GErr
  initNv : Nat
  off : Nat
  inv : Bool
  initIdx : List Nat

def cfgOf (ty : String) : Option IdxCfg :=
  match ty with
  | "u8" => some IndexTy.u8.cfg
  | "i8" => some IndexTy.i8.cfg
  | "u16" => some IndexTy.u16.cfg
  | "i16" => some IndexTy.i16.cfg
  | "u32" => some IndexTy.u32.cfg
  | "i32" => some IndexTy.i32.cfg
  | "u64" => some IndexTy.u64.cfg
  | "i64" => some IndexTy.i64.cfg
  | "usize" => some IndexTy.usize.cfg
  | "isize" => some IndexTy.isize.cfg
  | "small3" => some ⟨3, 4294967296⟩
  | "small6" => some ⟨6, 4294967296⟩
  | "small17" => some ⟨17, 4294967296⟩
  | _ => none

def readSink (c : Cur) : SinkSpec × Cur :=
  let (ty, c) := c.tok
  let (mode, c) := c.tok
  let (err, c) := c.tok
  let (initNv, c) := c.nat
  let (off, c) := c.nat
  let (inv, c) := c.nat
  let (ni, c) := c.nat
  let (idx, c) := c.nats ni
  ({ ty := ty, overflow := mode == "overflow"
     err := if err == "InvalidVertex" then .invalidVertex else .tooManyVertices
     initNv := initNv, off := off, inv := inv == 1, initIdx := idx }, c)

def readScript : Nat → Cur → List CReq × Cur
  | 0, c => ([], c)
  | n + 1, c =>
    let (t, c) := c.tok
    if t == "t" then
      let (a, c) := c.nat
      let (b, c) := c.nat
      let (d, c) := c.nat
      let (r, c) := readScript n c
      (.t a b d :: r, c)
    else
      let (r, c) := readScript n c
      (.v 0 :: r, c)

/-- payload of the j-th vertex request = j (the harness's vertex constructor stamps serial numbers) -/
def stamp : Nat → List CReq → List CReq
  | _, [] => []
  | j, .v _ :: r => .v j :: stamp (j + 1) r
  | j, x :: r => x :: stamp j r

/-- script with event markers: (requests before the first marker, events) -/
def readEvents : Nat → Cur → List CReq → List (List CReq) → (List (List CReq)) × Cur
  | 0, c, cur, acc => ((cur.reverse :: acc).reverse, c)
  | n + 1, c, cur, acc =>
    let (t, c) := c.tok
    if t == "e" then readEvents n c [] (cur.reverse :: acc)
    else if t == "t" then
      let (a, c) := c.nat
      let (b, c) := c.nat
      let (d, c) := c.nat
      readEvents n c (.t a b d :: cur) acc
    else readEvents n c (.v 0 :: cur) acc

def stampEvents : Nat → List (List CReq) → List (List CReq)
  | _, [] => []
  | j, e :: r => stamp j e :: stampEvents (j + nVerts e) r

def readKs (c : Cur) : List Nat × Cur :=
  let (_, c) := c.tok
  let (n, c) := c.nat
  c.nats n

def fingerprint (l : List Nat) : Nat :=
  l.foldl (fun h x => (h * 31 + x % 1000000007 + 7) % 1000000007) 17

def fBuffers (b : Buffers) : String :=
  unwords ["nv", toString b.vertices.length, "ni", toString b.indices.length,
           "hv", toString (fingerprint b.vertices), "hi", toString (fingerprint b.indices)]

def fCall : Call → String
  | .begin => "B"
  | .vertex (.ok i) => "V" ++ toString i
  | .vertex (.error .tooManyVertices) => "V!tmv"
  | .vertex (.error .invalidVertex) => "V!inv"
  | .tri a b c => "T" ++ toString a ++ "," ++ toString b ++ "," ++ toString c
  | .endG => "E"
  | .abort => "A"

def fRes : Option TErr → String
  | none => "ok"
  | some (.geometryBuilder .tooManyVertices) => "gb:TooManyVertices"
  | some (.geometryBuilder .invalidVertex) => "gb:InvalidVertex"
  | some (.internal _) => "internal"
  | some (.unsupported _) => "unsupported"

def initFor (sp : SinkSpec) (max : Nat) (k : Nat) : Option Nat :=
  if sp.overflow && k > 0 then (if k > max + 1 then none else some (max + 1 - k)) else some sp.initNv

def initBuffers (sp : SinkSpec) (n : Nat) : Buffers :=
  ⟨(List.range n).map (fun i => (1000000 + i) % 4294967296), sp.initIdx⟩

/-- One fault position against a `BuffersBuilder` sink: `run` gets the sink and its initial state and
returns the printed prediction and the final builder state. -/
def withBB (sp : SinkSpec) (cfg : IdxCfg) (k : Nat)
    (run : (S : Sink (BB × Nat)) → (BB × Nat) → String × String × (BB × Nat)) : String :=
  match initFor sp cfg.max k with
  | none => "skip"
  | some n =>
    let bb := (BB.new (initBuffers sp n) cfg).withVertexOffset sp.off
    let S0 : Sink BB := if sp.inv then bbSink.invert else bbSink
    let S := S0.refuseAt (if sp.overflow then 0 else k) sp.err
    let (txt, wf, fin) := run S (bb, 0)
    txt ++ " " ++ fBuffers fin.1.buf ++ " wf " ++ wf

def withNoOut (sp : SinkSpec) (k : Nat)
    (run : (S : Sink (NoOut × Nat)) → (NoOut × Nat) → String × String × (NoOut × Nat)) : String :=
  let S := noOutSink.refuseAt k sp.err
  let r := run S (⟨0⟩, 0)
  r.1 ++ " nobuf wf " ++ r.2.1

/-- All listed fault positions. `run` is generic in the sink. -/
def enumerate (sp : SinkSpec) (ks : List Nat)
    (run : {σ : Type} → (S : Sink σ) → σ → String × String × σ) : String :=
  let maxTok := match cfgOf sp.ty with
    | some c => toString c.max
    | none => "4294967295"
  let per := ks.map fun k =>
    "k " ++ toString k ++ " " ++
      (match cfgOf sp.ty with
       | some cfg => withBB sp cfg k (fun S s => run S s)
       | none => withNoOut sp k (fun S s => run S s))
  unwords (["max", maxTok] ++ per)

def fTrace (res : Option TErr) (tr : List Call) : String :=
  unwords ([fRes res, "trace"] ++ tr.map fCall)

def fill (v : Array String) : String :=
  let (sp, c) := readSink ⟨v, 0⟩
  let (tol, c) := c.tok
  let (core, c) := c.tok
  let (_, c) := c.tok
  let (n, c) := c.nat
  let (script, c) := readScript n c
  let script := stamp 0 script
  let (ks, _) := readKs c
  let coreErr : Option TErr :=
    if core == "coreinternal" then some (.internal 0)
    else if core == "coreunsupported" then some (.unsupported 0) else none
  if core == "corepanic" then "refpanic" else
  enumerate sp ks fun S s =>
    let o := tessellateImpl S (tol == "tolok") script coreErr s
    (fTrace o.result o.trace, fb (Lyon.C04.protocolB o.trace o.result), o.st)

def stroke (v : Array String) : String :=
  let (sp, c) := readSink ⟨v, 0⟩
  let (mode, c) := c.tok
  let (refr, c) := c.tok
  let (_, c) := c.tok
  let (n, c) := c.nat
  let (evs, c) := readEvents n c [] []
  -- the group before the first marker is empty in `iter`/`driven` mode; `opaque` has no markers
  let evs := match evs with
    | [] :: r => if mode == "opaque" then evs else r
    | _ => evs
  let evs := stampEvents 0 evs
  let (ks, _) := readKs c
  if refr == "refpanic" then "refpanic" else
  enumerate sp ks fun S s =>
    let o := strokeRun S evs s
    let pulled := if mode == "iter" then o.pulled else if mode == "driven" then evs.length else 0
    (unwords ([fRes o.result, "pulled", toString pulled, "trace"] ++ o.trace.map fCall),
      fb (Lyon.C04.protocolB o.trace o.result), o.st)

def shape (v : Array String) : String :=
  let (sp, c) := readSink ⟨v, 0⟩
  let (what, c) := c.tok
  if what == "rect" then
    let (ks, _) := readKs c
    enumerate sp ks fun S s =>
      let o := shapeRun S rectScript s
      (fTrace o.result o.trace, fb (Lyon.C04.protocolB o.trace o.result), o.st)
  else
    let (rz, c) := c.nat
    let (depth, c) := c.nat
    let (ks, _) := readKs c
    enumerate sp ks fun S s =>
      let o := circleRun S (rz == 1) depth s
      (fTrace o.result o.trace, fb (Lyon.C04.protocolB o.trace o.result), o.st)

def readOps : Nat → Nat → Cur → List Op × Cur
  | 0, _, c => ([], c)
  | n + 1, j, c =>
    let (t, c) := c.tok
    if t == "t" then
      let (a, c) := c.nat
      let (b, c) := c.nat
      let (d, c) := c.nat
      let (r, c) := readOps n j c
      (.tri a b d :: r, c)
    else if t == "v" then
      let (r, c) := readOps n (j + 1) c
      (.vertex j :: r, c)
    else
      let (r, c) := readOps n j c
      ((if t == "b" then Op.begin else if t == "e" then Op.endG else Op.abort) :: r, c)

/-- arbitrary call sequences against `BuffersBuilder` / `InvertWinding` / `NoOutput` -/
def bb (v : Array String) : String :=
  let (sp, c) := readSink ⟨v, 0⟩
  let (_, c) := c.tok
  let (n, c) := c.nat
  let (ops, _) := readOps n 0 c
  match cfgOf sp.ty with
  | some cfg =>
    let b := (BB.new (initBuffers sp sp.initNv) cfg).withVertexOffset sp.off
    let S : Sink BB := if sp.inv then bbSink.invert else bbSink
    let (fin, calls) := S.exec ops b
    unwords (["max", toString cfg.max, "trace"] ++ calls.map fCall ++ [fBuffers fin.buf])
  | none =>
    let (_, calls) := noOutSink.exec ops ⟨0⟩
    unwords (["max", "4294967295", "trace"] ++ calls.map fCall ++ ["nobuf"])

def families : List Family := [
  Family.plain "bb" bb,
  Family.plain "fill" fill,
  Family.plain "stroke" stroke,
  Family.plain "shape" shape ]

end Lyon.Drive.C04

def main : IO Unit := Lyon.Drive.run Lyon.Drive.C04.families
