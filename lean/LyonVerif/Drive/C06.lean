/-
  Model driver for C06.
  `CHECK <id> chk_* <clause-prefix> <rule> <mode> <delta> <nE> … <nT> …` : the slab checker applied to
  the real stroke tessellator's triangles against a region built by the harness (covers / within).
  `fullmesh tol width miter_limit join cap1 cap2 closed n (x y)*` : the whole mesh of a polyline through the
  COMPLETE stroker model (`Model/Tess/StrokeFull.lean`, `tessellateFw`) — the model the theorems of
  `Props/C06b.lean` are about: emitted vertex positions in order, triangle ids.
  `progmesh tol width miter_limit join cap1 cap2 ncmd (B x y | L x y | Q cx cy x y | C c1x c1y c2x c2y x y |
   E close | R minx miny maxx maxy positive | P n closed (x y)* | S px py qx qy | O x y | SJ join | SS cap |
   SE cap | SM ml)*` : a PROGRAM on one `StrokeBuilder` (the call histories of the checker families: earlier
  sub-paths, shape helpers incl. thin rectangles, option setters, then the polyline under test) through the
  program model `Model/Tess/StrokeBuilderProg.lean` (`tessellateProg`): every vertex position, every triangle.
-/
import LyonVerif.Drive.Common
import LyonVerif.Drive.SlabIO
import LyonVerif.Model.Tess.StrokeQuad
import LyonVerif.Model.Tess.StrokeFull
import LyonVerif.Model.Tess.StrokeBuilderProg

namespace Lyon.Drive.C06
open Lyon Lyon.Drive

/-- token 0 names the call site / clause prefix (lets the harness classify narrowly) -/
def chk (v : Array String) : String := SlabIO.handle (v.getD 0 "stroke") false v 1

section
open Lyon.StrokeQuad
variable {α : Type} [Scalar α] [Transc α] [Wire α]

def joinOf : String → Join
  | "miter" => .miter | "miterclip" => .miterClip | "round" => .round | _ => .bevel
def capOf : String → Cap
  | "butt" => .butt | "square" => .square | _ => .round

/-- `normal v1 v2` → `math_utils::compute_normal` -/
def hNormal (v : Array String) : String := fp (Lyon.Stroke.computeNormal (rdP (α := α) v 0) (rdP v 2))

def showTri (t : Lyon.Stroke.Tri) : String := toString t.1 ++ " " ++ toString t.2.1 ++ " " ++ toString t.2.2

/-- how the stroker intersects two lines: `to_f64()`, `Line::intersection`, `to_f32()` -/
class IxVia (α : Type) where
  ix : Ix α

def w64 (p : P Float32) : P Float := ⟨p.x.toFloat, p.y.toFloat⟩
def n32 (p : P Float) : P Float32 := ⟨p.x.toFloat32, p.y.toFloat32⟩
instance : IxVia Float32 where
  ix p1 v1 p2 v2 := (lineIntersection (α := Float) (Scalar.ofSci 1 8) (w64 p1) (w64 v1) (w64 p2) (w64 v2)).map n32
instance : IxVia Float where
  ix := lineIntersection (Scalar.ofSci 1 8)

/-- `stroke2 a j b width miter_limit join cap1 cap2` → the whole mesh of the open polyline a, j, b -/
def hStroke2 [IxVia α] (v : Array String) : String :=
  let w : α := rd v 6
  let m := stroke2 IxVia.ix (rdP (α := α) v 0) (rdP v 2) (rdP v 4) (w * Scalar.half) (rd v 7)
    (joinOf (v.getD 8 "")) (capOf (v.getD 9 "")) (capOf (v.getD 10 ""))
  unwords (["ok", toString m.verts.length, toString m.tris.length, "v"] ++ m.verts.map fp ++ ["t"] ++ m.tris.map showTri)
end

section FullMesh
open Lyon.Stroke.Full
variable {α : Type} [Scalar α] [Transc α] [Wire α]

def rdPtsN (v : Array String) : Nat → Nat → List (P α)
  | 0, _ => []
  | n+1, i => rdP v i :: rdPtsN v n (i + 2)

/-- `begin p0, line_to p1, …, end(closed)` -/
def polyEvents (pts : List (P α)) (closed : Bool) : List (PathEv α) :=
  match pts with
  | [] => []
  | p :: r => PathEv.begin p :: r.map PathEv.line ++ [PathEv.end_ closed]

def hFullMesh [HasIx α] [Asin α] [FlatConst α] (v : Array String) : String :=
  let o : Opts α := ⟨rd v 0, rd v 1, rd v 2, joinOf (v.getD 3 ""), capOf (v.getD 4 ""), capOf (v.getD 5 ""), false, 0⟩
  let closed := rdNat v 6 == 1
  let pts : List (P α) := rdPtsN v (rdNat v 7) 8
  match tessellateFw (Env.new o HasIx.ix) (polyEvents pts closed) with
  | some out =>
    unwords (["ok", toString out.verts.length, toString out.tris.length, "v"]
      ++ out.verts.map (fun d => fp d.read.position) ++ ["t"] ++ out.tris.map showTri)
  | none => "panic"

open Lyon.Stroke.Prog in
/-- the calls of a program (no custom attributes: they do not influence positions) -/
def rdCmds (v : Array String) : Nat → Nat → List (Cmd α)
  | 0, _ => []
  | n+1, i =>
    match v.getD i "" with
    | "B" => Cmd.begin (rdP v (i+1)) [] :: rdCmds v n (i + 3)
    | "L" => Cmd.line (rdP v (i+1)) [] :: rdCmds v n (i + 3)
    | "Q" => Cmd.quad (rdP v (i+1)) (rdP v (i+3)) [] :: rdCmds v n (i + 5)
    | "C" => Cmd.cubic (rdP v (i+1)) (rdP v (i+3)) (rdP v (i+5)) [] :: rdCmds v n (i + 7)
    | "E" => Cmd.end_ (v.getD (i+1) "0" == "1") :: rdCmds v n (i + 2)
    | "R" => Cmd.rect (rdP v (i+1)) (rdP v (i+3)) (v.getD (i+5) "0" == "1") [] :: rdCmds v n (i + 6)
    | "P" =>
      let k := rdNat v (i+1)
      Cmd.polygon (rdPtsN v k (i+3)) (v.getD (i+2) "0" == "1") [] :: rdCmds v n (i + 3 + 2 * k)
    | "S" => Cmd.segment (rdP v (i+1)) (rdP v (i+3)) [] :: rdCmds v n (i + 5)
    | "O" => Cmd.point (rdP v (i+1)) [] :: rdCmds v n (i + 3)
    | "SJ" => Cmd.setJoin (joinOf (v.getD (i+1) "")) :: rdCmds v n (i + 2)
    | "SS" => Cmd.setStartCap (capOf (v.getD (i+1) "")) :: rdCmds v n (i + 2)
    | "SE" => Cmd.setEndCap (capOf (v.getD (i+1) "")) :: rdCmds v n (i + 2)
    | _ => Cmd.setMiterLimit (rd v (i+1)) :: rdCmds v n (i + 2)

open Lyon.Stroke.Prog in
def hProgMesh [HasIx α] [Asin α] [FlatConst α] (v : Array String) : String :=
  let o : Opts α := ⟨rd v 0, rd v 1, rd v 2, joinOf (v.getD 3 ""), capOf (v.getD 4 ""), capOf (v.getD 5 ""), false, 0⟩
  match tessellateProg o HasIx.ix (rdCmds v (rdNat v 6) 7) with
  | some out =>
    unwords (["ok", toString out.verts.length, toString out.tris.length, "v"]
      ++ out.verts.map (fun d => fp d.read.position) ++ ["t"] ++ out.tris.map showTri)
  | none => "panic"
end FullMesh

def families : List Family := [
  ⟨"fullmesh", hFullMesh (α := Float32), hFullMesh (α := Float)⟩,
  ⟨"progmesh", hProgMesh (α := Float32), hProgMesh (α := Float)⟩,
  ⟨"normal", hNormal (α := Float32), hNormal (α := Float)⟩,
  ⟨"stroke2", hStroke2 (α := Float32), hStroke2 (α := Float)⟩,
  Family.plain "chk_cover" chk,
  Family.plain "chk_reach" chk,
  Family.plain "chk_round_in" chk,
  Family.plain "chk_round_out" chk ]

end Lyon.Drive.C06

def main : IO Unit := Lyon.Drive.run Lyon.Drive.C06.families
