/-
  Model driver for C06.
  `CHECK <id> chk_* <clause-prefix> <rule> <mode> <delta> <nE> … <nT> …` : the slab checker applied to
  the real stroke tessellator's triangles against a region built by the harness (covers / within).
-/
import LyonVerif.Drive.Common
import LyonVerif.Drive.SlabIO

namespace Lyon.Drive.C06
open Lyon Lyon.Drive

/-- token 0 names the call site / clause prefix (lets the harness classify narrowly) -/
def chk (v : Array String) : String := SlabIO.handle (v.getD 0 "stroke") false v 1

def families : List Family := [
  Family.plain "chk_cover" chk,
  Family.plain "chk_reach" chk,
  Family.plain "chk_round_in" chk,
  Family.plain "chk_round_out" chk ]

end Lyon.Drive.C06

def main : IO Unit := Lyon.Drive.run Lyon.Drive.C06.families
