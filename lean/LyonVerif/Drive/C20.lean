/-
  Model driver for C20: for each `hatch` / `dots` case prints the callback trace the model of
  `hatching.rs` produces at `Float32`, in the token format of `harness/src/bin/c20.rs`.
-/
import LyonVerif.Drive.Common
import LyonVerif.Model.Algo.Hatch
import LyonVerif.Model.Algo.HatchCurves

namespace Lyon.Drive.C20
open Lyon Lyon.Drive Lyon.Hatch

abbrev F := Float32

def nanF : F := (0.0 : F) / (0.0 : F)

/-- `T n v₁ … vₙ tail` / `R x` → (row ↦ offset, next index) -/
def rdOffsets (v : Array String) (i : Nat) : (Nat → F) × Nat :=
  if v.getD i "" == "R" then
    let x : F := rd v (i+1)
    (fun _ => x, i + 2)
  else
    let n := rdNat v (i+1)
    let tab : Array F := (Array.range n).map (fun k => rd v (i + 2 + k))
    let tail : F := rd v (i + 2 + n)
    (fun row => if h : row < tab.size then tab[row] else tail, i + 3 + n)

/-- `P n (B x y | L x y | Q cx cy x y | C c1x c1y c2x c2y x y | E)*` -/
def rdEvents (v : Array String) (i : Nat) : List (CEv F) :=
  let n := rdNat v (i+1)
  let rec go : Nat → Nat → List (CEv F) → List (CEv F)
    | 0, _, acc => acc.reverse
    | k+1, j, acc =>
      match v.getD j "" with
      | "B" => go k (j+3) (.begin (rdP v (j+1)) :: acc)
      | "L" => go k (j+3) (.line (rdP v (j+1)) :: acc)
      | "Q" => go k (j+5) (.quad (rdP v (j+1)) (rdP v (j+3)) :: acc)
      | "C" => go k (j+7) (.cubic (rdP v (j+1)) (rdP v (j+3)) (rdP v (j+5)) :: acc)
      | _ => go k (j+1) (.close :: acc)
  go n (i+2) []

def fuel : Nat := 100000

def fSegTokens (s : HSeg F) : List String :=
  ["s", toString s.row, fx s.v, fp s.pa, fx s.ua, fp s.ta, fp s.pb, fx s.ub, fp s.tb]

def hatchTrace (items : List (HItem F)) : List String :=
  items.reverse.flatMap fun
    | .off r => ["o", toString r]
    | .seg s => fSegTokens s

/-- `h angle uv ct <offsets> P …` (polygonal) / `H angle uv ct tol <offsets> P …` (curved) -/
def hatchH (v : Array String) : String :=
  let curved := v.getD 0 "" == "H"
  let angle : F := rd v 1
  let uv : P F := rdP v 2
  let ct := v.getD 4 "0" == "1"
  let tol : F := if curved then rd v 5 else Float32.ofScientific 1 true 1
  let (offs, j) := rdOffsets v (if curved then 6 else 5)
  let evs := rdEvents v j
  match hatchPathCurved ⟨angle, uv, ct⟩ tol ⟨nanF, nanF⟩ (logHatch offs) fuel evs [] with
  | none => "panic"
  | some st =>
    unwords (hatchTrace st.b ++ [if st.fuelOut then "fuel" else "end"])

def dotTrace (items : List (DItem F)) : List String :=
  items.reverse.flatMap fun
    | .rowOff c r => ["r", toString c, toString r]
    | .dot d => ["d", toString d.col, toString d.row, fp d.pos, fx d.u, fx d.v]

def rdDotPat (v : Array String) (i : Nat) : DotPat F × Nat :=
  if v.getD i "" == "R" then
    (regularDots (rd v (i+1)) (rd v (i+2)), i + 3)
  else
    let first : F := rd v (i+1)
    let (al, j) : Option F × Nat :=
      if v.getD (i+2) "" == "some" then (some (rd v (i+3)), i + 4) else (none, i + 3)
    let (rows, k) := rdOffsets v j
    -- `K n c₁ … cₙ`
    let n := rdNat v (k+1)
    let cols : Array F := (Array.range n).map (fun q => rd v (k + 2 + q))
    ({ firstCol := fun _ => first, align := fun _ => al,
       rowOff := fun _ row => rows row,
       colOff := fun col row => cols.getD ((col + row) % n) 0.0 }, k + 2 + n)

/-- `d angle uv <pattern> P …` / `D angle uv tol <pattern> P …` -/
def dotsH (v : Array String) : String :=
  let curved := v.getD 0 "" == "D"
  let angle : F := rd v 1
  let uv : P F := rdP v 2
  let tol : F := if curved then rd v 4 else Float32.ofScientific 1 true 1
  let (pat, j) := rdDotPat v (if curved then 5 else 4)
  let evs := rdEvents v j
  match dotPathCurved angle tol uv ⟨nanF, nanF⟩ pat fuel evs with
  | none => "panic"
  | some st =>
    unwords (dotTrace st.b.log ++ [if st.fuelOut || st.b.fuelOut then "fuel" else "end"])

/-- the `curves` family holds both kinds of case; the first argument token tells which -/
def curvesH (v : Array String) : String :=
  if v.getD 0 "" == "D" then dotsH v else hatchH v

def families : List Family := [
  Family.plain "hatch" hatchH,
  Family.plain "dots" dotsH,
  Family.plain "curves" curvesH ]

end Lyon.Drive.C20

def main : IO Unit := Lyon.Drive.run Lyon.Drive.C20.families
