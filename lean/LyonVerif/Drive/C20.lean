/-
  Model driver for C20: for each `hatch` / `dots` / `curves` case prints the callback trace the model
  of `hatching.rs` produces at `Float32`, in the token format of `harness/src/bin/c20.rs`.  Every
  case runs on the OBJECT model of the Hatcher (`Model/Algo/HatchObj.lean`): the calls of the case's
  history first (`HIST k <call>*` behind the case's own call), then the case's call, all on one
  object, printing the trace of each.
-/
import LyonVerif.Drive.Common
import LyonVerif.Model.Algo.Hatch
import LyonVerif.Model.Algo.HatchCurves
import LyonVerif.Model.Algo.HatchObj

namespace Lyon.Drive.C20
open Lyon Lyon.Drive Lyon.Hatch

abbrev F := Float32

def nanF : F := (0.0 : F) / (0.0 : F)

/-- `T n v₁ … vₙ tail` / `R x` → (row ↦ offset, next index) -/
def rdOffsets (v : Array String) (i : Nat) : (Nat → F) × Nat :=
  if v.getD i "" == "R" then
    let x : F := rd v (i+1)
    (fun _ => x, i + 2)
  else
    let n := rdNat v (i+1)
    let tab : Array F := (Array.range n).map (fun k => rd v (i + 2 + k))
    let tail : F := rd v (i + 2 + n)
    (fun row => if h : row < tab.size then tab[row] else tail, i + 3 + n)

/-- `P n (B x y | L x y | Q cx cy x y | C c1x c1y c2x c2y x y | E)*` → (events, next index) -/
def rdEvents (v : Array String) (i : Nat) : List (CEv F) × Nat :=
  let n := rdNat v (i+1)
  let rec go : Nat → Nat → List (CEv F) → List (CEv F) × Nat
    | 0, j, acc => (acc.reverse, j)
    | k+1, j, acc =>
      match v.getD j "" with
      | "B" => go k (j+3) (.begin (rdP v (j+1)) :: acc)
      | "L" => go k (j+3) (.line (rdP v (j+1)) :: acc)
      | "Q" => go k (j+5) (.quad (rdP v (j+1)) (rdP v (j+3)) :: acc)
      | "C" => go k (j+7) (.cubic (rdP v (j+1)) (rdP v (j+3)) (rdP v (j+5)) :: acc)
      | _ => go k (j+1) (.close :: acc)
  go n (i+2) []

def fuel : Nat := 100000

def fSegTokens (s : HSeg F) : List String :=
  ["s", toString s.row, fx s.v, fp s.pa, fx s.ua, fp s.ta, fp s.pb, fx s.ub, fp s.tb]

def hatchTrace (items : List (HItem F)) : List String :=
  items.reverse.flatMap fun
    | .off r => ["o", toString r]
    | .seg s => fSegTokens s

def dotTrace (items : List (DItem F)) : List String :=
  items.reverse.flatMap fun
    | .rowOff c r => ["r", toString c, toString r]
    | .dot d => ["d", toString d.col, toString d.row, fp d.pos, fx d.u, fx d.v]

def rdDotPat (v : Array String) (i : Nat) : DotPat F × Nat :=
  if v.getD i "" == "R" then
    (regularDots (rd v (i+1)) (rd v (i+2)), i + 3)
  else
    let first : F := rd v (i+1)
    let (al, j) : Option F × Nat :=
      if v.getD (i+2) "" == "some" then (some (rd v (i+3)), i + 4) else (none, i + 3)
    let (rows, k) := rdOffsets v j
    -- `K n c₁ … cₙ`
    let n := rdNat v (k+1)
    let cols : Array F := (Array.range n).map (fun q => rd v (k + 2 + q))
    ({ firstCol := fun _ => first, align := fun _ => al,
       rowOff := fun _ row => rows row,
       colOff := fun col row => cols.getD ((col + row) % n) 0.0 }, k + 2 + n)

/-- one call record, starting at token `i`:
`h angle uv ct <offsets> P …` (polygonal) / `H angle uv ct tol <offsets> P …` (curved) /
`d angle uv <pattern> P …` / `D angle uv tol <pattern> P …` → (call, next index) -/
def rdCall (v : Array String) (i : Nat) : Call F × Nat :=
  let k := v.getD i ""
  let angle : F := rd v (i+1)
  let uv : P F := rdP v (i+2)
  let tenth : F := Float32.ofScientific 1 true 1
  if k == "d" || k == "D" then
    let tol : F := if k == "D" then rd v (i+4) else tenth
    let (pat, j) := rdDotPat v (if k == "D" then i+5 else i+4)
    let (evs, e) := rdEvents v j
    (.dots angle uv tol pat evs, e)
  else
    let ct := v.getD (i+4) "0" == "1"
    let tol : F := if k == "H" then rd v (i+5) else tenth
    let (offs, j) := rdOffsets v (if k == "H" then i+6 else i+5)
    let (evs, e) := rdEvents v j
    (.hatch ⟨angle, uv, ct⟩ tol offs evs, e)

/-- `HIST k <call>*` behind the case's own call: the calls the Hatcher has served before -/
def rdHistory (v : Array String) (i : Nat) : List (Call F) :=
  if v.getD i "" != "HIST" then [] else
  let rec go : Nat → Nat → List (Call F) → List (Call F)
    | 0, _, acc => acc.reverse
    | k+1, j, acc => go k (rdCall v j).2 ((rdCall v j).1 :: acc)
  go (rdNat v (i+1)) (i+2) []

def traceTokens : Trace F → List String
  | .hatch items fo => hatchTrace items ++ [if fo then "fuel" else "end"]
  | .dots items fo => dotTrace items ++ [if fo then "fuel" else "end"]
  | .panic => ["panic"]

/-- every family: the case's call, run on ONE model `Hatcher` after the calls of its history
(`HIST …`, absent for a new Hatcher); prints the trace of every call in the order they ran -/
def callH (v : Array String) : String :=
  let (c, j) := rdCall v 0
  let hist := rdHistory v j
  let traces := runHistory ⟨nanF, nanF⟩ fuel (Obj.fresh ⟨nanF, nanF⟩) (hist ++ [c])
  unwords ((if hist.isEmpty then [] else ["hist", toString hist.length]) ++ traces.flatMap traceTokens)

def families : List Family := [
  Family.plain "hatch" callH,
  Family.plain "dots" callH,
  Family.plain "curves" callH ]

end Lyon.Drive.C20

def main : IO Unit := Lyon.Drive.run Lyon.Drive.C20.families
