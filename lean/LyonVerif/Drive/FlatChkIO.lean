/-
  Driver side of the checker family `chk_flat` (C09): parses a CHECK line — the curve, the tolerance
  and the segments the REAL flattening emitted, as IEEE bit patterns — into exact rationals, runs the
  verified checker `Lyon.FlatChk` (Model/Geom/FlattenCertExact.lean; soundness: Props/C09c.lean
  `chk_flat_sound_rat`, `chk_flat_cubic_sound_rat`, `chk_flat_violation_sound_rat`) and answers with
  the verdict.

  `CHECK <id> chk_flat q <claim> <class> tol eps P0 P1 P2 n (ax ay bx by t0 t1)*n`
  `CHECK <id> chk_flat c <claim> <class> tol tolq tolc eps P0 P1 P2 P3 m (q.a q.c q.b T0 T1 n (seg)*n)*m N (seg)*N`
  (the last list: the segments of the cubic entry point with their ranges ON THE CUBIC)

  Verdict string (the harness computes the same one with its own exact dyadic arithmetic and sends
  it as `<claim>`; a disagreement is answered with `MISMATCH`, which `check` reports as broken
  correspondence):
    `s<0|1>`  structure (`chainOK` / `rangesOK` / `joinsOK`)
    `v<0|1>`  all vertices (and piece control points) within `eps`
    `k<i>`    index of the least factor `k ∈ kBuckets` for which the checker ACCEPTS (`chkFlat … k …`);
              `k6` = none
    `n<d>.<p>.<h>`  number of degenerate / perpendicular / hairpin chords
    `h<i>` | `h-`  convex-hull certificate (`chkHullQuad` / `chkHullCubic`, tried only when the chord
              certificate needs `k > 1` and no violation is proved): index of the least factor below
              `k<i>` with which it accepts, `h-` = not tried / none
    `e<0|1>` | `e-`  eps-free verdict, evaluated when the kind token ends in `e` (`qe` / `ce`: all cases of
              the thorough tier, a sample of the quick tier): the convex-hull checker accepts with
              `r2 = tol²` — every curve point PROVED within exactly `1·tol` of the polyline as emitted
    `x<c>.<j>` | `x-`  certified violation: the curve point at relative position `j/8` of the range of
              chord number `c` is farther than `tol + eps` (cubic: `tol + 2·eps`) from every segment
  Answer: `ok` (k0: within `1·tol + eps`, the property's clause PROVED for this input), `skip
  chk_flat:<kind>:k<=…` (only a weaker bound proved, no violation proved: undecided by the exact
  checker), `fail <kind>.flatten/certified-tolerance <class> …` (certified failing input).
-/
import LyonVerif.Model.Geom.FlattenCertExact
import LyonVerif.Model.Geom.FlattenCertArc
import LyonVerif.Model.RatScalar

namespace Lyon.Drive.FlatChkIO
open Lyon Lyon.FlatChk

/-- the factors tried, as exact rationals: 1, 1.11, 1.15, 1.5, 2, 4 -/
def kBuckets : List Rat := [1, (111 : Rat) / 100, (115 : Rat) / 100, (3 : Rat) / 2, 2, 4]
def kNames : List String := ["1", "1.11", "1.15", "1.5", "2", "4"]

def rdRat (v : Array String) (i : Nat) : Option Rat := ratOfHex (v.getD i "~7fc00000")

def rdPt (v : Array String) (i : Nat) : Option (P Rat) := do
  let x ← rdRat v i
  let y ← rdRat v (i+1)
  pure ⟨x, y⟩

def rdSegs (v : Array String) : Nat → Nat → Option (List (FlatSeg Rat))
  | 0, _ => some []
  | n+1, i => do
    let a ← rdPt v i
    let b ← rdPt v (i+2)
    let t0 ← rdRat v (i+4)
    let t1 ← rdRat v (i+5)
    let r ← rdSegs v n (i+6)
    pure (⟨a, b, t0, t1⟩ :: r)

def rdNat (v : Array String) (i : Nat) : Nat := ((v.getD i "0").toNat?).getD 0

/-- pieces of a cubic: returns the list and the index after it -/
def rdPieces (v : Array String) : Nat → Nat → Option (List (Piece Rat) × Nat)
  | 0, i => some ([], i)
  | m+1, i => do
    let a ← rdPt v i
    let c ← rdPt v (i+2)
    let b ← rdPt v (i+4)
    let t0 ← rdRat v (i+6)
    let t1 ← rdRat v (i+7)
    let n := rdNat v (i+8)
    let l ← rdSegs v n (i+9)
    let (r, j) ← rdPieces v m (i+9+6*n)
    pure (⟨⟨a, c, b⟩, t0, t1, l⟩ :: r, j)

/-- subdivision counts and neighbour window of the convex-hull certificate -/
def hullMs : List Nat := [2, 4, 8]
def hullW : Nat := 2

/-- least bucket index below `kIdx` whose factor the hull checker accepts -/
def hullBucket (accept : Rat → Bool) (tol : Rat) (kIdx : Nat) : Option Nat :=
  (List.range kIdx).find? (fun b => accept ((kBuckets.getD b 1 * tol) * (kBuckets.getD b 1 * tol)))

def freeStr : Option Bool → String
  | none => "e-"
  | some b => "e" ++ fb b

/-- eps-free verdict: the hull checker at `r2 = tol²` (already known when it was tried as second chance) -/
def epsFree (eflag struct : Bool) (kIdx : Nat) (hIdx : Option Nat) (accept : Rat → Bool) (tol : Rat) : Option Bool :=
  if !eflag || !struct then none
  else if hIdx == some 0 then some true
  else if kIdx == 0 then some (accept (tol * tol))
  else some false

def hullStr : Option Nat → String
  | none => "h-"
  | some i => "h" ++ toString i

/-- index of the first bucket `k` with `p k`, or the number of buckets -/
def firstBucket (p : Rat → Bool) : Nat :=
  (kBuckets.findIdx? p).getD kBuckets.length

def eighths : List Rat := [(1:Rat)/8, (2:Rat)/8, (3:Rat)/8, (4:Rat)/8, (5:Rat)/8, (6:Rat)/8, (7:Rat)/8]

/-- first relative position `j/8` (as `j`) of the range `[t0,t1]` at which `pt` is certified far -/
def violAt (pt : Rat → P Rat) (r2 : Rat) (all : List (FlatSeg Rat)) (t0 t1 : Rat) : Option Nat :=
  (eighths.findIdx? (fun s => farFrom (pt (t0 + s * (t1 - t0))) r2 all)).map (· + 1)

/-- search the first `cap` candidate chords `(index, t0, t1)` -/
def violSearch (pt : Rat → P Rat) (r2 : Rat) (all : List (FlatSeg Rat)) :
    List (Nat × Rat × Rat) → Option (Nat × Nat)
  | [] => none
  | (i, t0, t1) :: r =>
    match violAt pt r2 all t0 t1 with
    | some j => some (i, j)
    | none => violSearch pt r2 all r

def kindCounts (ks : List Nat) : String :=
  toString (ks.filter (· == 0)).length ++ "." ++ toString (ks.filter (· == 1)).length ++ "."
    ++ toString (ks.filter (· == 2)).length

def violStr : Option (Nat × Nat) → String
  | none => "x-"
  | some (c, j) => "x" ++ toString c ++ "." ++ toString j

def answer (kind claim cls verdict : String) (struct vtx : Bool) (kIdx : Nat) (viol : Option (Nat × Nat))
    (detail : String) : String :=
  if verdict != claim then "MISMATCH claimed=" ++ claim ++ " verified=" ++ verdict
  else if !struct then "fail " ++ kind ++ ".flatten/certified-structure generic " ++ verdict
  else match viol with
    | some (c, j) =>
      "fail " ++ kind ++ ".flatten/certified-tolerance " ++ cls ++ " exact checker: the curve point at " ++ toString j
        ++ "/8 of the range of chord " ++ toString c ++ " is farther than tol+eps from every emitted segment " ++ detail
    | none =>
      if !vtx then "skip chk_flat:" ++ kind ++ ":vertex-eps " ++ verdict
      else if kIdx == 0 then "ok " ++ verdict
      else if kIdx < kNames.length then "skip chk_flat:" ++ kind ++ ":k<=" ++ kNames.getD kIdx "?" ++ " " ++ verdict
      else "skip chk_flat:" ++ kind ++ ":k>4 " ++ verdict

/-- `q <claim> <class> tol eps P0 P1 P2 n segs` -/
def handleQuad (v : Array String) : String :=
  let claim := v.getD 1 ""
  let cls := v.getD 2 "generic"
  match (do
    let tol ← rdRat v 3
    let eps ← rdRat v 4
    let a ← rdPt v 5
    let c ← rdPt v 7
    let b ← rdPt v 9
    let l ← rdSegs v (rdNat v 11) 12
    pure (tol, eps, (⟨a, c, b⟩ : Quad Rat), l)) with
  | none => "skip non-finite"
  | some (tol, eps, q, l) =>
    let struct := chainOK q.a 0 q.b 1 l
    let vtx := decide (flatVtxSq q l ≤ eps * eps)
    let devs := l.map (segDevSq q)
    let dev := devs.foldr Scalar.max Scalar.zero   -- = flatDevSq q l (theorem flat_dev_sq_eq_foldr)
    let kIdx := firstBucket (fun k => decide (dev ≤ (k * tol) * (k * tol)))
    let kinds := l.map (fun sg => devKind (segV q sg) (segDD q sg))
    -- candidates for a certified violation: the first 4 chords not certified at k = 1
    let cands := (((List.range l.length).zip (l.zip devs)).filter (fun x => decide (tol * tol < x.2.2))).take 4
    let viol := if kIdx == 0 || !struct then none else
      violSearch q.sample ((tol + eps) * (tol + eps)) l (cands.map (fun x => (x.1, x.2.1.t0, x.2.1.t1)))
    -- second chance: the convex-hull certificate (theorem chk_hull_quad_sound_rat)
    let hIdx := if kIdx == 0 || !struct || viol.isSome then none else
      hullBucket (fun r2 => chkHullQuad q r2 hullMs hullW l) tol kIdx
    let eFree := epsFree ((v.getD 0 "") == "qe") struct kIdx hIdx (fun r2 => chkHullQuad q r2 hullMs hullW l) tol
    let verdict := "s" ++ fb struct ++ ":v" ++ fb vtx ++ ":k" ++ toString kIdx ++ ":n" ++ kindCounts kinds
      ++ ":" ++ hullStr hIdx ++ ":" ++ freeStr eFree ++ ":" ++ violStr viol
    answer "quad" claim cls verdict struct (vtx || hIdx.isSome) (hIdx.getD kIdx) viol ("(" ++ toString l.length ++ " segments)")

/-- `c <claim> <class> tol tolq tolc eps P0 P1 P2 P3 m pieces` -/
def handleCubic (v : Array String) : String :=
  let claim := v.getD 1 ""
  let cls := v.getD 2 "generic"
  match (do
    let tol ← rdRat v 3
    let tolq ← rdRat v 4
    let tolc ← rdRat v 5
    let eps ← rdRat v 6
    let a ← rdPt v 7
    let c1 ← rdPt v 9
    let c2 ← rdPt v 11
    let b ← rdPt v 13
    let (ps, j) ← rdPieces v (rdNat v 15) 16
    let gl ← rdSegs v (rdNat v j) (j+1)
    pure (tol, tolq, tolc, eps, (⟨a, c1, c2, b⟩ : Cubic Rat), ps, gl)) with
  | none => "skip non-finite"
  | some (tol, tolq, tolc, eps, c, ps, gl) =>
    -- also the entry point's own segments: chained exactly from (c.a, 0) to (c.b, 1), ranges strictly increasing
    let struct := rangesOK 0 ps && joinsOK c.a c.b ps && ps.all (fun pc => chainOK pc.q.a 0 pc.q.b 1 pc.l)
      && chainOK c.a 0 c.b 1 gl
    let vtx := ps.all (fun pc => decide (pieceCtrlSq c pc ≤ eps * eps) && decide (flatVtxSq pc.q pc.l ≤ eps * eps))
    let pdev := (ps.map (pieceDevSq c)).foldr Scalar.max Scalar.zero
    -- per chord: (piece, segment, deviation bound)
    let chords := ps.flatMap (fun pc => pc.l.map (fun sg => (pc, sg, segDevSq pc.q sg)))
    let dev := (chords.map (·.2.2)).foldr Scalar.max Scalar.zero
    let kIdx := firstBucket (fun k => decide (dev ≤ (k * tolq) * (k * tolq)) && decide (pdev ≤ (k * tolc) * (k * tolc)))
    let kinds := chords.map (fun x => devKind (segV x.1.q x.2.1) (segDD x.1.q x.2.1))
    let all := allSegs ps
    let cands := (((List.range chords.length).zip chords).filter (fun x => decide (tolq * tolq < x.2.2.2))).take 4
    -- the chord's range on the cubic: T0 + u·(T1 − T0)
    let viol := if kIdx == 0 || !struct then none else
      violSearch c.sample ((tol + 2 * eps) * (tol + 2 * eps)) all
        (cands.map (fun x => (x.1, x.2.1.t0 + x.2.2.1.t0 * (x.2.1.t1 - x.2.1.t0), x.2.1.t0 + x.2.2.1.t1 * (x.2.1.t1 - x.2.1.t0))))
    -- second chance: the convex-hull certificate on the cubic itself (theorem chk_hull_cubic_sound_rat)
    let hIdx := if kIdx == 0 || !struct || viol.isSome then none else
      hullBucket (fun r2 => chkHullCubic c r2 hullMs hullW gl) tol kIdx
    let eFree := epsFree ((v.getD 0 "") == "ce") struct kIdx hIdx (fun r2 => chkHullCubic c r2 hullMs hullW gl) tol
    let verdict := "s" ++ fb struct ++ ":v" ++ fb vtx ++ ":k" ++ toString kIdx ++ ":n" ++ kindCounts kinds
      ++ ":" ++ hullStr hIdx ++ ":" ++ freeStr eFree ++ ":" ++ violStr viol
    answer "cubic" claim cls verdict struct (vtx || hIdx.isSome) (hIdx.getD kIdx) viol
      ("(" ++ toString ps.length ++ " pieces, " ++ toString all.length ++ " segments)")

def handle (v : Array String) : String :=
  if v.getD 0 "" == "q" || v.getD 0 "" == "qe" then handleQuad v
  else if v.getD 0 "" == "c" || v.getD 0 "" == "ce" then handleCubic v
  else "MISMATCH unknown-kind"


/-! ## arcs (`chk_arc`, Model/Geom/FlattenCertArc.lean, theorem `chk_arc_sound_rat`)

`CHECK <id> chk_arc <claim> tol eps cx cy rx ry R w wflip p0 pe n (a b t0 t1 ua fa ub fb)*n`
(`w`, `ua`, `ub`: half-angle tangents of the rotation / of the advice points, `…flip` 0|1).
Verdict `s<0|1>:v<0|1>:k<i>`: structure (frame, chain, advice chain, advice on the unit circle),
vertices within `eps` of `A(advice)`, least factor `k` for which every chord passes the sagitta test
with `kt = k·tol + eps` (lyon chooses the step so that the sagitta EQUALS the tolerance: in floats it
is then above it by rounding half of the time; `eps` absorbs that); `ok` iff `chkArc` itself accepts
with `k = 1`: every arc point within `tol + 2·eps` of the polyline. -/

namespace Arc
open Lyon.ArcChk

def rdBool (v : Array String) (i : Nat) : Bool := v.getD i "0" == "1"

/-- segments with the advice points and the advice tangents themselves -/
def rdArcSegs (v : Array String) : Nat → Nat → Option (List (ArcSeg Rat × Rat × Bool × Rat × Bool))
  | 0, _ => some []
  | n+1, i => do
    let a ← rdPt v i
    let b ← rdPt v (i+2)
    let t0 ← rdRat v (i+4)
    let t1 ← rdRat v (i+5)
    let ua ← rdRat v (i+6)
    let ub ← rdRat v (i+8)
    let r ← rdArcSegs v n (i+10)
    pure ((⟨⟨a, b, t0, t1⟩, unitPt ua (rdBool v (i+7)), unitPt ub (rdBool v (i+9))⟩,
      ua, rdBool v (i+7), ub, rdBool v (i+9)) :: r)

/-- first candidate chord (index) whose mid-advice point is a certified violation -/
def arcViolSearch (f : Frame Rat) (r2 : Rat) (l : List (ArcSeg Rat)) :
    List (Nat × ArcSeg Rat × Rat × Bool × Rat × Bool) → Option Nat
  | [] => none
  | (i, x, ua, fa, ub, fbb) :: r =>
    if fa == fbb && arcViol f r2 x (unitPt ((ua + ub) / 2) fa) l then some i
    else arcViolSearch f r2 l r

def handle (v : Array String) : String :=
  let claim := v.getD 0 ""
  match (do
    let tol ← rdRat v 1
    let eps ← rdRat v 2
    let c ← rdPt v 3
    let rx ← rdRat v 5
    let ry ← rdRat v 6
    let R ← rdRat v 7
    let w ← rdRat v 8
    let p0 ← rdPt v 10
    let pe ← rdPt v 12
    let la ← rdArcSegs v (rdNat v 14) 15
    let cs := unitPt w (rdBool v 9)
    pure (tol, eps, (⟨c, rx, ry, cs.x, cs.y⟩ : Frame Rat), R, p0, pe, la)) with
  | none => "skip non-finite"
  | some (tol, eps, f, R, p0, pe, la) =>
    let l := la.map (·.1)
    let struct := decide (0 < R) && decide (f.rx * f.rx ≤ R * R) && decide (f.ry * f.ry ≤ R * R)
      && (f.c * f.c + f.s * f.s == 1) && chainOK p0 0 pe 1 (l.map (·.sg)) && adviceChain l
      && l.all (fun x => (x.pa.sqLen == 1) && (x.pb.sqLen == 1))
    let vtx := l.all (fun x => decide ((x.sg.a - f.map x.pa).sqLen ≤ eps * eps)
      && decide ((x.sg.b - f.map x.pb).sqLen ≤ eps * eps))
    let ls := l.map (fun x => (x.pb - x.pa).sqLen)
    let kIdx := firstBucket (fun k => ls.all (fun L2 =>
      decide (L2 ≤ 4 * tau R (k * tol + eps) * (2 - tau R (k * tol + eps)))))
    -- violation certificate (theorem chk_arc_violation_sound_rat): the first 4 chords failing the test at
    -- k = 1, the unit point with the mean half-angle tangent, radius tol + 2·eps
    let bound1 := 4 * tau R (tol + eps) * (2 - tau R (tol + eps))
    let cands := (((List.range la.length).zip la).filter (fun x => decide (bound1 < (x.2.1.pb - x.2.1.pa).sqLen))).take 4
    let viol := if kIdx == 0 || !struct then none else
      arcViolSearch f ((tol + 2 * eps) * (tol + 2 * eps)) l cands
    let verdict := "s" ++ fb struct ++ ":v" ++ fb vtx ++ ":k" ++ toString kIdx ++ ":"
      ++ (match viol with | none => "x-" | some i => "x" ++ toString i)
    -- the proved function itself, with the factor found
    let accepted := kIdx < kBuckets.length && chkArc f R (kBuckets.getD kIdx 1 * tol + eps) eps p0 pe l
    if verdict != claim then "MISMATCH claimed=" ++ claim ++ " verified=" ++ verdict
    else if !struct then "fail arc.flatten/certified-structure generic " ++ verdict
    else match viol with
    | some i => "fail arc.flatten/certified-tolerance generic exact checker: the ellipse point with the mean half-angle tangent of chord "
        ++ toString i ++ " is farther than tol+2eps from every emitted segment " ++ verdict
    | none =>
      if !vtx then "skip chk_arc:vertex-eps " ++ verdict
      else if !accepted then "skip chk_arc:k>4 " ++ verdict
      else if kIdx == 0 then "ok " ++ verdict
      else "skip chk_arc:k<=" ++ kNames.getD kIdx "?" ++ " " ++ verdict

end Arc

end Lyon.Drive.FlatChkIO
