/-
  Model driver for C11: prints, for each `seg`/`tri`/`quad`/`cubic`/`arc`/`path`/`fit`/`path_box` case, the same
  token sequence as `harness/src/bin/c11.rs`, computed by the model at `Float32` / `Float`.
-/
import LyonVerif.Drive.Common
import LyonVerif.Model.Geom.Extrema
import LyonVerif.Model.Algo.Aabb

namespace Lyon.Drive.C11
open Lyon Lyon.Drive

variable {α : Type} [Scalar α] [Transc α] [Atan α] [Wire α]

def fR (r : α × α) : String := fx r.1 ++ " " ++ fx r.2
def fBox (b : Box α) : String := fp b.min ++ " " ++ fp b.max
def fQuad (q : Quad α) : String := fp q.a ++ " " ++ fp q.c ++ " " ++ fp q.b
def fCubic (c : Cubic α) : String := fp c.a ++ " " ++ fp c.c1 ++ " " ++ fp c.c2 ++ " " ++ fp c.b
def fList (l : List α) : String := unwords (toString l.length :: l.map fx)
def fRanges (l : List (α × α)) : String := unwords (toString l.length :: l.map fR)
def fPieces {β : Type} (f : β → String) (l : List β) : String := unwords (toString l.length :: l.map f)

def seg (v : Array String) : String :=
  let s : Seg α := ⟨rdP v 0, rdP v 2⟩
  unwords ["box", fBox s.boundingBox]

def tri (v : Array String) : String :=
  let t : Tri α := ⟨rdP v 0, rdP v 2, rdP v 4⟩
  unwords ["box", fBox t.boundingBox, "rx", fR t.boundingRangeX, "ry", fR t.boundingRangeY]

def quad (v : Array String) : String :=
  let s : Quad α := ⟨rdP v 0, rdP v 2, rdP v 4⟩
  unwords [
    "lext", fopt s.localXExtremumT, fopt s.localYExtremumT,
    "ext_t", fx s.xMinimumT, fx s.xMaximumT, fx s.yMinimumT, fx s.yMaximumT,
    "range", fR s.boundingRangeX, fR s.boundingRangeY,
    "fast", fR s.fastBoundingRangeX, fR s.fastBoundingRangeY,
    "box", fBox s.boundingBox,
    "fbox", fBox s.fastBoundingBox,
    "mono", fb s.isXMonotonic, fb s.isYMonotonic, fb s.isMonotonic,
    "ranges", fRanges s.monotonicRanges,
    "pieces", fPieces fQuad s.monotonicPieces,
    "xranges", fRanges s.xMonotonicRanges,
    "xpieces", fPieces fQuad s.xMonotonicPieces,
    "yranges", fRanges s.yMonotonicRanges,
    "ypieces", fPieces fQuad s.yMonotonicPieces ]

def cubic (v : Array String) : String :=
  let s : Cubic α := ⟨rdP v 0, rdP v 2, rdP v 4, rdP v 6⟩
  unwords [
    "lext", fList s.localXExtremaT, fList s.localYExtremaT,
    "ext_t", fx s.xMinimumT, fx s.xMaximumT, fx s.yMinimumT, fx s.yMaximumT,
    "range", fR s.boundingRangeX, fR s.boundingRangeY,
    "fast", fR s.fastBoundingRangeX, fR s.fastBoundingRangeY,
    "box", fBox s.boundingBox,
    "fbox", fBox s.fastBoundingBox,
    "mono", fb s.isXMonotonic, fb s.isYMonotonic, fb s.isMonotonic,
    "ranges", fRanges s.monotonicRanges,
    "pieces", fPieces fCubic s.monotonicPieces,
    "xranges", fRanges s.xMonotonicRanges,
    "xpieces", fPieces fCubic s.xMonotonicPieces,
    "yranges", fRanges s.yMonotonicRanges,
    "ypieces", fPieces fCubic s.yMonotonicPieces ]

def arc (v : Array String) : String :=
  let s : Arc α := ⟨rdP v 0, rdP v 2, rd v 4, rd v 5, rd v 6⟩
  let b := s.boundingBox
  let f := s.fastBoundingBox
  unwords [
    "lext", fList s.localXExtremaT, fList s.localYExtremaT,
    "box", fBox b,
    "fbox", fBox f,
    "range", fR s.boundingRangeX, fR s.boundingRangeY,
    "fast", fx f.min.x, fx f.max.x, fx f.min.y, fx f.max.y ]

/-- parse `n (B x y | L x y | Q cx cy x y | C … | E c)*`, tracking the current point the way
`Path::iter` supplies `from` -/
def parseEvs (v : Array String) : Nat → Nat → P α → List (PEv α) → List (PEv α)
  | 0, _, _, acc => acc.reverse
  | fuel+1, i, cur, acc =>
    match v.getD i "" with
    | "B" => parseEvs v fuel (i+3) (rdP v (i+1)) (PEv.begin (rdP v (i+1)) :: acc)
    | "L" => parseEvs v fuel (i+3) (rdP v (i+1)) (PEv.line cur (rdP v (i+1)) :: acc)
    | "Q" => parseEvs v fuel (i+5) (rdP v (i+3)) (PEv.quad cur (rdP v (i+1)) (rdP v (i+3)) :: acc)
    | "C" => parseEvs v fuel (i+7) (rdP v (i+5))
               (PEv.cubic cur (rdP v (i+1)) (rdP v (i+3)) (rdP v (i+5)) :: acc)
    | "E" => parseEvs v fuel (i+2) cur (PEv.end_ :: acc)
    | _ => acc.reverse

def path (big : α) (v : Array String) : String :=
  let evs : List (PEv α) := parseEvs v (rdNat v 0) 1 ⟨Scalar.zero, Scalar.zero⟩ []
  unwords ["box", fBox (Aabb.boundingBox big evs), "fbox", fBox (Aabb.fastBoundingBox big evs)]

def fXf (m : Xf α) : String :=
  unwords [fx m.m11, fx m.m12, fx m.m21, fx m.m22, fx m.m31, fx m.m32]

def styleOf : Nat → FitStyle
  | 0 => .stretch
  | 1 => .min
  | 2 => .max
  | 3 => .horizontal
  | _ => .vertical

/-- position just after the event list `n (…)*` that starts at token 0 -/
def skipEvs (v : Array String) : Nat → Nat → Nat
  | 0, i => i
  | fuel+1, i =>
    match v.getD i "" with
    | "B" => skipEvs v fuel (i+3)
    | "L" => skipEvs v fuel (i+3)
    | "Q" => skipEvs v fuel (i+5)
    | "C" => skipEvs v fuel (i+7)
    | "E" => skipEvs v fuel (i+2)
    | _ => i

def fit (big : α) (v : Array String) : String :=
  let n := rdNat v 0
  let evs : List (PEv α) := parseEvs v n 1 ⟨Scalar.zero, Scalar.zero⟩ []
  let j := skipEvs v n 1
  let dst : Box α := ⟨rdP v j, rdP v (j+2)⟩
  let style := styleOf (rdNat v (j+4))
  let src := Aabb.boundingBox big evs
  let fitted := Fit.fitPath big evs dst style
  unwords ["src", fBox src,
    "stretch", fXf (Fit.fitBox src dst .stretch), "min", fXf (Fit.fitBox src dst .min),
    "max", fXf (Fit.fitBox src dst .max), "horizontal", fXf (Fit.fitBox src dst .horizontal),
    "vertical", fXf (Fit.fitBox src dst .vertical),
    "fitted", fBox (Aabb.boundingBox big fitted), fBox (Aabb.fastBoundingBox big fitted)]

/-- parse `n (B x y | L x y | Q cx cy x y | C … | E c)*` into the builder calls -/
def parseCmds (v : Array String) : Nat → Nat → List (PCmd α) → List (PCmd α)
  | 0, _, acc => acc.reverse
  | fuel+1, i, acc =>
    match v.getD i "" with
    | "B" => parseCmds v fuel (i+3) (PCmd.begin (rdP v (i+1)) :: acc)
    | "L" => parseCmds v fuel (i+3) (PCmd.lineTo (rdP v (i+1)) :: acc)
    | "Q" => parseCmds v fuel (i+5) (PCmd.quadTo (rdP v (i+1)) (rdP v (i+3)) :: acc)
    | "C" => parseCmds v fuel (i+7) (PCmd.cubicTo (rdP v (i+1)) (rdP v (i+3)) (rdP v (i+5)) :: acc)
    | "E" => parseCmds v fuel (i+2) (PCmd.end_ (v.getD (i+1) "" == "1") :: acc)
    | _ => acc.reverse

/-- `path_box`: builder calls, then the sub-path rotation `k`.  The box and the fast box of the
path, of the reversed path (`Path::reversed`), the box of the path with its sub-paths drawn in
rotated order, and the union of the exact boxes of the segments (closing edges included). -/
def pathBox (big : α) (v : Array String) : String :=
  let n := rdNat v 0
  let cmds : List (PCmd α) := parseCmds v n 1 []
  let k := rdNat v (skipEvs v n 1)
  let evs := PathBox.events cmds
  let rev := PathBox.reversed evs
  unwords ["box", fBox (PathBox.pathBox big evs), "fbox", fBox (PathBox.pathFastBox big evs),
    "rev", fBox (PathBox.pathBox big rev), fBox (PathBox.pathFastBox big rev),
    "rot", fBox (PathBox.pathBox big (PathBox.events (PathBox.rotateSubs k cmds))),
    "union", fBox (PathBox.segUnion evs)]

def families : List Family := [
  ⟨"seg", seg (α := Float32), seg (α := Float)⟩,
  ⟨"tri", tri (α := Float32), tri (α := Float)⟩,
  ⟨"quad", quad (α := Float32), quad (α := Float)⟩,
  ⟨"cubic", cubic (α := Float32), cubic (α := Float)⟩,
  ⟨"arc", arc (α := Float32), arc (α := Float)⟩,
  ⟨"path", path (Float32.ofBits 0x7f7fffff), path (Float.ofBits 0x47efffffe0000000)⟩,
  ⟨"fit", fit (Float32.ofBits 0x7f7fffff), fit (Float.ofBits 0x47efffffe0000000)⟩,
  ⟨"path_box", pathBox (Float32.ofBits 0x7f7fffff), pathBox (Float.ofBits 0x47efffffe0000000)⟩ ]

end Lyon.Drive.C11

def main : IO Unit := Lyon.Drive.run Lyon.Drive.C11.families
