/-
  Model driver for C01: the slab checker applied to the fill tessellator's real output.
  `CHECK <id> chk_fill <rule> <mode> <delta> <nE> … <nT> …`
  `CASE <id> sweep:32 …` / `CASE <id> sweepc:32 …` the model of the sweep itself on polygonal / curved
  input (`Drive/Sweep.lean`), compared token by token with the real tessellator's complete output.
-/
import LyonVerif.Drive.Common
import LyonVerif.Drive.SlabIO
import LyonVerif.Drive.Sweep

namespace Lyon.Drive.C01
open Lyon Lyon.Drive

def families : List Family := [
  Family.plain "chk_fill" (fun v => SlabIO.handle "fill" false v 0) ]
  ++ Lyon.Drive.Sweep.families   -- `sweep:32`, `sweepc:32`: the sweep-line tessellator model itself

end Lyon.Drive.C01

def main : IO Unit := Lyon.Drive.run Lyon.Drive.C01.families
