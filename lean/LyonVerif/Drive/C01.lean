/-
  Model driver for C01: the slab checker applied to the fill tessellator's real output.
  `CHECK <id> chk_fill <rule> <mode> <delta> <nE> … <nT> …`
-/
import LyonVerif.Drive.Common
import LyonVerif.Drive.SlabIO

namespace Lyon.Drive.C01
open Lyon Lyon.Drive

def families : List Family := [
  Family.plain "chk_fill" (fun v => SlabIO.handle "fill" false v 0) ]

end Lyon.Drive.C01

def main : IO Unit := Lyon.Drive.run Lyon.Drive.C01.families
