/-
  Model driver for C01: the slab checker applied to the fill tessellator's real output.
  `CHECK <id> chk_fill <rule> <mode> <delta> <nE> … <nT> …`
  `CASE <id> sweep:32 …` / `CASE <id> sweepc:32 …` the model of the sweep itself on polygonal / curved
  input (`Drive/Sweep.lean`), compared token by token with the real tessellator's complete output.
  `CASE <id> sweepcert:32 …` (same arguments as `sweep:32`): the executable winding-conservation
  certificate of the run (`Model/Tess/SweepCert.lean`), the hypothesis of
  `Lyon.C01b.sweep_no_panic_certified` (a theorem for every scalar type, so also for the `f32` run
  evaluated here).  Answer `cert ok` when the input is not finite / the tolerance invalid, or the
  certificate `cleanB` evaluates to `true` (then the theorem says: this run can only panic on the
  assertion or a NaN sort key); `cert FAIL …` for a finite input whose certificate is false - a
  counterexample to winding conservation (or to `scanAgreeB`), never seen.  The certificate checks
  exactly these two things per event; the state after a `recover_from_error` is coherent by the theorem
  `Lyon.C01b.recovery_coherent` (all inputs), so it is no longer checked.
-/
import LyonVerif.Drive.Common
import LyonVerif.Drive.SlabIO
import LyonVerif.Drive.Sweep
import LyonVerif.Model.Tess.SweepCert

namespace Lyon.Drive.C01
open Lyon Lyon.Drive Lyon.Sweep Lyon.EQ

def finiteSubs (subs : List (SubPath Float32)) : Bool :=
  subs.all fun sp => sp.1.all fun p => p.x.isFinite && p.y.isFinite

def sweepCert (v : Array String) : String :=
  let rule : Slab.Rule := if rdNat v 0 == 0 then .evenOdd else .nonZero
  let horizontal := rdNat v 1 == 1
  let tol : Float32 := rd v 2
  let entry := Lyon.Drive.Sweep.entryOf (v.getD 3 "")
  let hi := rdNat v 4 == 1
  let subs : List (SubPath Float32) := Lyon.Drive.Sweep.rdSubs v (rdNat v 5) 6
  if !finiteSubs subs || tol.isNaN || tol ≤ 0 then "cert ok"   -- outside the theorem: not finite / `ToleranceIsNaN`
  else
    if Lyon.SweepCoh.cleanB entry rule horizontal tol hi subs then "cert ok"
    else
      let r := tessellate entry rule horizontal tol hi subs
      s!"cert FAIL clean=false recover={r.2.2 % 2}"

/-- diagnosis only (not part of the tie): why `sweepCert` answered `cert ok` -/
def sweepCertWhy (v : Array String) : String :=
  let rule : Slab.Rule := if rdNat v 0 == 0 then .evenOdd else .nonZero
  let horizontal := rdNat v 1 == 1
  let tol : Float32 := rd v 2
  let entry := Lyon.Drive.Sweep.entryOf (v.getD 3 "")
  let hi := rdNat v 4 == 1
  let subs : List (SubPath Float32) := Lyon.Drive.Sweep.rdSubs v (rdNat v 5) 6
  if !finiteSubs subs || tol.isNaN || tol ≤ 0 then "outside"
  else
    let r := tessellate entry rule horizontal tol hi subs
    let rec_ := if r.2.2 % 2 == 1 then "recovered" else "norecovery"
    if Lyon.SweepCoh.cleanB entry rule horizontal tol hi subs then "certified " ++ rec_
    else "FAIL " ++ rec_ ++ (if hi then " ix" else " noix")

def families : List Family := [
  ⟨"sweepcertwhy", sweepCertWhy, sweepCertWhy⟩,
  Family.plain "chk_fill" (fun v => SlabIO.handle "fill" false v 0),
  ⟨"sweepcert", sweepCert, sweepCert⟩ ]
  ++ Lyon.Drive.Sweep.families   -- `sweep:32`, `sweepc:32`: the sweep-line tessellator model itself

end Lyon.Drive.C01

def main : IO Unit := Lyon.Drive.run Lyon.Drive.C01.families
