/-
  Model driver for C15: replays the command sequences of `harness/src/bin/c15.rs` on the model of
  `WithSvg` (`Model/Path/Svg.lean`) at `Float32` and prints, per command, the calls received by
  the wrapped builder and `current_position`, then the calls made by `build`.

  CASE args: sequences separated by `|`; commands
    M x y | m dx dy | Z | L x y | l dx dy | H x | h dx | V y | v dy | Q cx cy x y | q … | T x y |
    t dx dy | C c1 c2 to | c … | S c2 to | s … |
    A x y rx ry rot large sweep | a dx dy rx ry rot large sweep | R cx cy rx ry sweep rot
  The arc commands carry their operands only: in ALL families the whole arc geometry is computed
  by the model (`geoF32 = concreteGeo quadsVia64` of `Model/Path/SvgConcrete.lean`:
  `SvgArc::is_straight_line`, `to_arc`, the `atan2` start angle of `WithSvg::arc`, `Arc::from`,
  `approx_eq(center)`, the `< 0.01` test, `Arc::cast::<f64>`, `for_each_quadratic_bezier` at f64, the
  cast back to f32) — the instance of `Geo` that the theorems of `Props/C15b.lean` are about.  No
  value computed by lyon_geom reaches the model.
-/
import LyonVerif.Drive.Common
import LyonVerif.Model.Path.Svg
import LyonVerif.Model.Path.SvgConcrete

namespace Lyon.Drive.C15
open Lyon Lyon.Drive Lyon.Path Lyon.Svg

abbrev F := Float32
def h (s : String) : F := Wire.ofHex s
def pt (x y : String) : Pt F := ⟨h x, h y⟩

def fpt (p : Pt F) : String := fx p.x ++ " " ++ fx p.y

def fcall : Call (Pt F) Unit → String
  | .begin p _ => "B " ++ fpt p
  | .line p _ => "L " ++ fpt p
  | .quad c p _ => "Q " ++ fpt c ++ " " ++ fpt p
  | .cubic c1 c2 p _ => "C " ++ fpt c1 ++ " " ++ fpt c2 ++ " " ++ fpt p
  | .end_ cl => "E " ++ fb cl

def splitBar : List String → List (List String)
  | [] => [[]]
  | t :: r =>
    match splitBar r with
    | [] => [[t]]
    | hd :: tl => if t == "|" then [] :: hd :: tl else (t :: hd) :: tl

/-! ### end to end: the concrete arc geometry, no advice -/

abbrev GE := ArcArgs F

def bl (s : String) : Bool := s == "1"

/-- operands of `arc_to`: `rx ry rot large sweep` -/
def endArgs (rx ry rot lg sw : String) : GE :=
  ⟨pt rx ry, h rot, bl lg, bl sw, pt "0" "0", h "0"⟩

/-- operands of `arc`: `cx cy rx ry sweep rot` -/
def ctrArgs (cx cy rx ry sweep rot : String) : GE :=
  ⟨pt rx ry, h rot, false, false, pt cx cy, h sweep⟩

partial def parseE : List String → List (Cmd F GE)
  | [] => []
  | "M" :: x :: y :: r => .moveTo (pt x y) :: parseE r
  | "m" :: x :: y :: r => .relMoveTo (pt x y) :: parseE r
  | "Z" :: r => .close :: parseE r
  | "L" :: x :: y :: r => .lineTo (pt x y) :: parseE r
  | "l" :: x :: y :: r => .relLineTo (pt x y) :: parseE r
  | "H" :: x :: r => .hLineTo (h x) :: parseE r
  | "h" :: x :: r => .relHLineTo (h x) :: parseE r
  | "V" :: y :: r => .vLineTo (h y) :: parseE r
  | "v" :: y :: r => .relVLineTo (h y) :: parseE r
  | "Q" :: a :: b :: x :: y :: r => .quadTo (pt a b) (pt x y) :: parseE r
  | "q" :: a :: b :: x :: y :: r => .relQuadTo (pt a b) (pt x y) :: parseE r
  | "T" :: x :: y :: r => .smoothQuadTo (pt x y) :: parseE r
  | "t" :: x :: y :: r => .smoothRelQuadTo (pt x y) :: parseE r
  | "C" :: a :: b :: c :: d :: x :: y :: r => .cubicTo (pt a b) (pt c d) (pt x y) :: parseE r
  | "c" :: a :: b :: c :: d :: x :: y :: r => .relCubicTo (pt a b) (pt c d) (pt x y) :: parseE r
  | "S" :: c :: d :: x :: y :: r => .smoothCubicTo (pt c d) (pt x y) :: parseE r
  | "s" :: c :: d :: x :: y :: r => .smoothRelCubicTo (pt c d) (pt x y) :: parseE r
  | "A" :: x :: y :: rx :: ry :: rot :: lg :: sw :: r =>
    .arcTo (endArgs rx ry rot lg sw) (pt x y) :: parseE r
  | "a" :: x :: y :: rx :: ry :: rot :: lg :: sw :: r =>
    .relArcTo (endArgs rx ry rot lg sw) (pt x y) :: parseE r
  | "R" :: cx :: cy :: rx :: ry :: sweep :: rot :: r => .arc (ctrArgs cx cy rx ry sweep rot) :: parseE r
  | _ :: _ => []

/-- `cast::<S, i32>(n_steps).unwrap()` would panic (NaN) for this arc command in this state -/
def cmdPanics (s : St F) : Cmd F GE → Bool
  | .arcTo r to => svgPanics r s.cur to
  | .relArcTo r v => svgPanics r s.cur (relToAbs s v)
  | .arc r => ctrPanics r s.cur
  | _ => false
where
  ctrPanics (r : GE) (cur : Pt F) : Bool :=
    !approxEqPt cur r.center &&
      arcPanics (castArc64 (centerArc (toP r.center) (toP r.radii) r.sweepAngle r.xrot (toP cur)))
  svgPanics (r : GE) (cur to : Pt F) : Bool :=
    !ArcConv.isStraightLine (svgArcOf r cur to) &&
      ctrPanics ⟨ofP (ArcConv.fromSvgArc (svgArcOf r cur to)).radii, (ArcConv.fromSvgArc (svgArcOf r cur to)).xrot,
        false, false, ofP (ArcConv.fromSvgArc (svgArcOf r cur to)).center,
        (ArcConv.fromSvgArc (svgArcOf r cur to)).sweep⟩ cur

/-- per command: its calls, then `; cur`; `none` if lyon panics -/
def traceE (s : St F) : List (Cmd F GE) → Option (List String)
  | [] => some ("build" :: (endIfNeeded s).map fcall)
  | c :: r =>
    if cmdPanics s c then none
    else
      let o := step geoF32 s c
      (traceE o.1 r).map fun t => o.2.map fcall ++ [";", fpt o.1.cur] ++ t

def runSeqE (toks : List String) : String :=
  match traceE (St.init (0 : F)) (parseE toks) with
  | some l => unwords l
  | none => "panic"

def seqsE (v : Array String) : String :=
  " | ".intercalate ((splitBar v.toList).map runSeqE)

def families : List Family := [
  Family.plain "svg_arc_e2e" seqsE,
  Family.plain "wit" seqsE,
  Family.plain "exh" seqsE,
  Family.plain "exhm" seqsE,
  Family.plain "blk" seqsE,
  Family.plain "rnd" seqsE,
  Family.plain "pat" seqsE ]

end Lyon.Drive.C15

def main : IO Unit := Lyon.Drive.run Lyon.Drive.C15.families
