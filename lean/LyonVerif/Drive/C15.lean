/-
  Model driver for C15: replays the command sequences of `harness/src/bin/c15.rs` on the model of
  `WithSvg` (`Model/Path/Svg.lean`) at `Float32` and prints, per command, the calls received by
  the wrapped builder and `current_position`, then the calls made by `build`.

  CASE args: sequences separated by `|`; commands
    M x y | m dx dy | Z | L x y | l dx dy | H x | h dx | V y | v dy | Q cx cy x y | q … | T x y |
    t dx dy | C c1 c2 to | c … | S c2 to | s … | A x y <ops> | a dx dy <ops> | R <ops>
    ops = rx ry cx cy sx sy n (cx cy tx ty)×n
  `ops` are the radii operand and what lyon_geom computes for that arc at the adapter's current
  position (centre, start point, pieces).  Which branch `arc`/`arc_to` takes is decided by the
  model (`numGeo`: `isStraightLine`, `approxEqPt`, `nearStart` at Float32).
-/
import LyonVerif.Drive.Common
import LyonVerif.Model.Path.Svg

namespace Lyon.Drive.C15
open Lyon Lyon.Drive Lyon.Path Lyon.Svg

abbrev F := Float32
abbrev G := ArcOps F

def h (s : String) : F := Wire.ofHex s
def pt (x y : String) : Pt F := ⟨h x, h y⟩

/-- the branches of `arc` / `arc_to` are decided by the model at `Float32` -/
def geo : Geo F G := numGeo

partial def parseQuads : Nat → List String → List (Pt F × Pt F) × List String
  | 0, r => ([], r)
  | n+1, cx :: cy :: tx :: ty :: r =>
    let (qs, r') := parseQuads n r
    ((pt cx cy, pt tx ty) :: qs, r')
  | _, _ => ([], [])

/-- `rx ry cx cy sx sy n (cx cy tx ty)×n` -/
def parseOps : List String → G × List String
  | rx :: ry :: cx :: cy :: sx :: sy :: n :: r =>
    let (qs, r') := parseQuads n.toNat! r
    (⟨pt rx ry, pt cx cy, pt sx sy, qs⟩, r')
  | r => (⟨pt "0" "0", pt "0" "0", pt "0" "0", []⟩, r)

partial def parse : List String → List (Cmd F G)
  | [] => []
  | "M" :: x :: y :: r => .moveTo (pt x y) :: parse r
  | "m" :: x :: y :: r => .relMoveTo (pt x y) :: parse r
  | "Z" :: r => .close :: parse r
  | "L" :: x :: y :: r => .lineTo (pt x y) :: parse r
  | "l" :: x :: y :: r => .relLineTo (pt x y) :: parse r
  | "H" :: x :: r => .hLineTo (h x) :: parse r
  | "h" :: x :: r => .relHLineTo (h x) :: parse r
  | "V" :: y :: r => .vLineTo (h y) :: parse r
  | "v" :: y :: r => .relVLineTo (h y) :: parse r
  | "Q" :: a :: b :: x :: y :: r => .quadTo (pt a b) (pt x y) :: parse r
  | "q" :: a :: b :: x :: y :: r => .relQuadTo (pt a b) (pt x y) :: parse r
  | "T" :: x :: y :: r => .smoothQuadTo (pt x y) :: parse r
  | "t" :: x :: y :: r => .smoothRelQuadTo (pt x y) :: parse r
  | "C" :: a :: b :: c :: d :: x :: y :: r => .cubicTo (pt a b) (pt c d) (pt x y) :: parse r
  | "c" :: a :: b :: c :: d :: x :: y :: r => .relCubicTo (pt a b) (pt c d) (pt x y) :: parse r
  | "S" :: c :: d :: x :: y :: r => .smoothCubicTo (pt c d) (pt x y) :: parse r
  | "s" :: c :: d :: x :: y :: r => .smoothRelCubicTo (pt c d) (pt x y) :: parse r
  | "A" :: x :: y :: r => let (g, r') := parseOps r; .arcTo g (pt x y) :: parse r'
  | "a" :: x :: y :: r => let (g, r') := parseOps r; .relArcTo g (pt x y) :: parse r'
  | "R" :: r => let (g, r') := parseOps r; .arc g :: parse r'
  | _ :: _ => []

def fpt (p : Pt F) : String := fx p.x ++ " " ++ fx p.y

def fcall : Call (Pt F) Unit → String
  | .begin p _ => "B " ++ fpt p
  | .line p _ => "L " ++ fpt p
  | .quad c p _ => "Q " ++ fpt c ++ " " ++ fpt p
  | .cubic c1 c2 p _ => "C " ++ fpt c1 ++ " " ++ fpt c2 ++ " " ++ fpt p
  | .end_ cl => "E " ++ fb cl

/-- per command: its calls, then `; cur` -/
def trace (s : St F) : List (Cmd F G) → List String
  | [] => (endIfNeeded s).map fcall |> fun l => "build" :: l
  | c :: r =>
    let o := step geo s c
    o.2.map fcall ++ [";", fpt o.1.cur] ++ trace o.1 r

def runSeq (toks : List String) : String :=
  unwords (trace (St.init (0 : F)) (parse toks))

def splitBar : List String → List (List String)
  | [] => [[]]
  | t :: r =>
    match splitBar r with
    | [] => [[t]]
    | hd :: tl => if t == "|" then [] :: hd :: tl else (t :: hd) :: tl

def seqs (v : Array String) : String :=
  " | ".intercalate ((splitBar v.toList).map runSeq)

def families : List Family := [
  Family.plain "wit" seqs,
  Family.plain "exh" seqs,
  Family.plain "exhm" seqs,
  Family.plain "blk" seqs,
  Family.plain "rnd" seqs,
  Family.plain "pat" seqs ]

end Lyon.Drive.C15

def main : IO Unit := Lyon.Drive.run Lyon.Drive.C15.families
