/-
  Model driver for C18: `hit:32  nsubs (npts (x y)*)* nq (x y)*`
  → `w (winding hitEvenOdd hitNonZero)* area <a> dir (pos|neg)*`
  `curved  name tol nsubs (first nseg (L to | Q ctrl to | C ctrl1 ctrl2 to)*)* nq (x y)*`
  → the same token sequence (or `panic` where the flattening's `unwrap` panics)
  `fillprog:32  rule orientation tol entry nattr nitems item* nq (x y)*` — a program of shape helpers
  and sub-paths issued to ONE builder object:
    item = `circle pos cx cy r a*` | `rect pos minx miny maxx maxy a*` | `ellipse pos cx cy rx ry rot a*`
         | `rrect pos minx miny maxx maxy tl tr bl br a*` | `polygon closed n (x y)* a*`
         | `sub ncalls (B x y a* | L x y a* | Q cx cy x y a* | C c1 c2 x y a* | E close)*`
    (`a*` = `nattr` attribute values; a helper hands the same slice to every endpoint it creates);
    entry = `builder` (`FillTessellator::builder`, the inherent helper methods of `NoAttributes`),
    `attrs` (`builder_with_attributes(nattr)`), `genericfb` (the `FillBuilder` through the
    `PathBuilder` trait), `generic` (`NoAttributes<FillBuilder>` through the `PathBuilder` trait:
    the DEFAULT `add_circle`)
  → the complete emission sequence of the fill tessellator on the program (format of `sweepc`,
    Drive/Sweep.lean: every vertex with its sibling edge records — windings, t-ranges, endpoint ids —
    interpolated attributes, triangles, outcome) from the model of the helpers' expansion
    (`Model/Tess/FillBuilderShapes.lean`) fed to the modelled queue builder and sweep, then
    `hit (winding hit)*`: `path_winding_number_at_position` / `hit_test_path` under the rule at every
    query point on the `Path` built by the same program through `Path::builder()`.
-/
import LyonVerif.Drive.Common
import LyonVerif.Drive.Sweep
import LyonVerif.Model.Algo.Winding
import LyonVerif.Model.Algo.WindingCurves
import LyonVerif.Model.Tess.FillBuilderShapes

namespace Lyon.Drive.C18
open Lyon Lyon.Drive Lyon.Winding

variable {α : Type} [Scalar α] [Wire α]

def rdPts (v : Array String) : Nat → Nat → List (P α)
  | 0, _ => []
  | n+1, i => rdP v i :: rdPts v n (i+2)

def rdSubs (v : Array String) : Nat → Nat → List (List (P α)) × Nat
  | 0, i => ([], i)
  | n+1, i =>
    let k := rdNat v i
    let pts := rdPts v k (i+1)
    let (r, j) := rdSubs v n (i + 1 + 2*k)
    (pts :: r, j)

def hit (v : Array String) : String :=
  let ns := rdNat v 0
  let (subs, j) : List (List (P α)) × Nat := rdSubs v ns 1
  let nq := rdNat v j
  let qs : List (P α) := rdPts v nq (j+1)
  let edges := pathEdges subs
  let ws := qs.map (fun q =>
    let w := windingAt q edges
    toString w ++ " " ++ fb (hitRule true w) ++ " " ++ fb (hitRule false w))
  unwords (["w"] ++ ws ++ ["area", fx (pathArea subs), "dir"]
    ++ subs.map (fun s => if computeWinding s then "pos" else "neg"))

/-- `n` events starting at token `i` -/
def rdSegs (v : Array String) : Nat → Nat → List (CSeg α) × Nat
  | 0, i => ([], i)
  | n+1, i =>
    let k := v.getD i ""
    if k == "Q" then
      let (r, j) := rdSegs v n (i + 5)
      (CSeg.quad (rdP v (i+1)) (rdP v (i+3)) :: r, j)
    else if k == "C" then
      let (r, j) := rdSegs v n (i + 7)
      (CSeg.cubic (rdP v (i+1)) (rdP v (i+3)) (rdP v (i+5)) :: r, j)
    else
      let (r, j) := rdSegs v n (i + 3)
      (CSeg.line (rdP v (i+1)) :: r, j)

def rdCSubs (v : Array String) : Nat → Nat → List (CSub α) × Nat
  | 0, i => ([], i)
  | n+1, i =>
    let first : P α := rdP v i
    let (segs, j) := rdSegs v (rdNat v (i+2)) (i+3)
    let (r, k) := rdCSubs v n j
    (⟨first, segs⟩ :: r, k)

def fuelMax : Nat := 200000

def curved [Transc α] [FlatConst α] (v : Array String) : String :=
  let tol : α := rd v 1
  let (path, j) : List (CSub α) × Nat := rdCSubs v (rdNat v 2) 3
  let nq := rdNat v j
  let qs : List (P α) := rdPts v nq (j+1)
  let ws := qs.map (fun q => (windingAtC q tol path).map (fun w =>
    toString w ++ " " ++ fb (hitRule true w) ++ " " ++ fb (hitRule false w)))
  match pathAreaC tol fuelMax path Scalar.zero with
  | none => "panic"
  | some area =>
    if ws.any Option.isNone then "panic" else
    unwords (["w"] ++ ws.map (·.getD "") ++ ["area", fx area, "dir"]
      ++ path.map (fun s => if computeWindingC s then "pos" else "neg"))

/-! ### `fillprog` -/

section fillprog
open Lyon.FillBuilderShapes Lyon.PathShapes Lyon.Path
variable [Transc α] [FlatConst α] [Lyon.Sweep.Wide α] [ArcConv.Eps α]

def rdAttrs (v : Array String) (nattr i : Nat) : Array α :=
  ((List.range nattr).map fun k => rd v (i + k)).toArray

/-- the calls of a `sub` item with the attribute values of its endpoints -/
def rdCalls (v : Array String) (nattr : Nat) : Nat → Nat → Calls α × Array (Array α) → (Calls α × Array (Array α)) × Nat
  | 0, i, acc => ((acc.1.reverse, acc.2), i)
  | n+1, i, acc =>
    match v.getD i "" with
    | "B" => rdCalls v nattr n (i + 3 + nattr) (.begin (rdP v (i+1)) () :: acc.1, acc.2.push (rdAttrs v nattr (i+3)))
    | "L" => rdCalls v nattr n (i + 3 + nattr) (.line (rdP v (i+1)) () :: acc.1, acc.2.push (rdAttrs v nattr (i+3)))
    | "Q" => rdCalls v nattr n (i + 5 + nattr)
               (.quad (rdP v (i+1)) (rdP v (i+3)) () :: acc.1, acc.2.push (rdAttrs v nattr (i+5)))
    | "C" => rdCalls v nattr n (i + 7 + nattr)
               (.cubic (rdP v (i+1)) (rdP v (i+3)) (rdP v (i+5)) () :: acc.1, acc.2.push (rdAttrs v nattr (i+7)))
    | "E" => rdCalls v nattr n (i + 2) (.end_ (rdNat v (i+1) == 1) :: acc.1, acc.2)
    | _ => ((acc.1.reverse, acc.2), i)

/-- one item: the item, the attribute values of a `sub` item's endpoints (`none` for a helper: one
slice for all its endpoints), the helper's slice, the next token index -/
def rdItem (v : Array String) (nattr i : Nat) : Item α × Option (Array (Array α)) × Array α × Nat :=
  let pos := rdNat v (i+1) == 1
  match v.getD i "" with
  | "circle" => (.circle (rdP v (i+2)) (rd v (i+4)) pos, none, rdAttrs v nattr (i+5), i + 5 + nattr)
  | "rect" => (.rect (rdP v (i+2)) (rdP v (i+4)) pos, none, rdAttrs v nattr (i+6), i + 6 + nattr)
  | "ellipse" => (.ellipse (rdP v (i+2)) (rdP v (i+4)) (rd v (i+6)) pos, none, rdAttrs v nattr (i+7), i + 7 + nattr)
  | "rrect" =>
    (.rrect (rdP v (i+2)) (rdP v (i+4)) ⟨rd v (i+6), rd v (i+7), rd v (i+8), rd v (i+9)⟩ pos, none,
      rdAttrs v nattr (i+10), i + 10 + nattr)
  | "polygon" =>
    let n := rdNat v (i+2)
    (.polygon (rdPts v n (i+3)) pos, none, rdAttrs v nattr (i + 3 + 2*n), i + 3 + 2*n + nattr)
  | _ =>
    let r := rdCalls (α := α) v nattr (rdNat v (i+1)) (i+2) ([], #[])
    (.sub r.1.1, some r.1.2, #[], r.2)

def rdItems (v : Array String) (nattr : Nat) :
    Nat → Nat → List (Item α × Option (Array (Array α)) × Array α) → List (Item α × Option (Array (Array α)) × Array α) × Nat
  | 0, i, acc => (acc.reverse, i)
  | n+1, i, acc =>
    let r := rdItem (α := α) v nattr i
    rdItems v nattr n r.2.2.2 ((r.1, r.2.1, r.2.2.1) :: acc)

/-- attribute values per endpoint, in call order -/
def itemValues (own : Bool) (it : Item α × Option (Array (Array α)) × Array α) : Array (Array α) :=
  match it.2.1 with
  | some vals => vals
  | none => Array.replicate (numEndpoints (it.1.calls own)) it.2.2

def fillprog (v : Array String) : String :=
  let rule : Slab.Rule := if rdNat v 0 == 0 then .evenOdd else .nonZero
  let horizontal := rdNat v 1 == 1
  let tol : α := rd v 2
  let own := v.getD 3 "" != "generic"
  let nattr := rdNat v 4
  let (items, j) := rdItems (α := α) v nattr (rdNat v 5) 6 []
  let prog := items.map (·.1)
  let values : Array (Array α) := items.foldl (fun a it => a ++ itemValues own it) #[]
  let r := SweepCurves.tessellate .builder rule horizontal tol true (toCmds (programCalls own prog))
  let fE : Lyon.Sweep.Emit α → String := fun e =>
    match e with
    | .vertex _ recs =>
      if nattr > 0 then
        unwords ([Lyon.Drive.Sweep.fEmit e, "a"] ++ (SweepCurves.vertexAttrs r.2 values nattr recs).map fx)
      else Lyon.Drive.Sweep.fEmit e
    | .tri _ _ _ => Lyon.Drive.Sweep.fEmit e
  let nq := rdNat v j
  let qs : List (P α) := rdPts v nq (j+1)
  let path := toSubs (programCalls false prog)
  let ws := qs.map (fun q => (windingAtC q tol path).map (fun w =>
    toString w ++ " " ++ fb (hitRule (rdNat v 0 == 0) w)))
  if ws.any Option.isNone then "panic"
  else unwords ([Lyon.Drive.Sweep.fResultWith fE r.1, "hit"] ++ ws.map (·.getD ""))

end fillprog

def families : List Family := [
  ⟨"hit", hit (α := Float32), hit (α := Float)⟩,
  ⟨"curved", curved (α := Float32), curved (α := Float)⟩,
  ⟨"fillprog", fillprog (α := Float32), fillprog (α := Float32)⟩ ]

end Lyon.Drive.C18

def main : IO Unit := Lyon.Drive.run Lyon.Drive.C18.families
