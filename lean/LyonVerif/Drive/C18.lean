/-
  Model driver for C18: `hit:32  nsubs (npts (x y)*)* nq (x y)*`
  → `w (winding hitEvenOdd hitNonZero)* area <a> dir (pos|neg)*`
-/
import LyonVerif.Drive.Common
import LyonVerif.Model.Algo.Winding

namespace Lyon.Drive.C18
open Lyon Lyon.Drive Lyon.Winding

variable {α : Type} [Scalar α] [Wire α]

def rdPts (v : Array String) : Nat → Nat → List (P α)
  | 0, _ => []
  | n+1, i => rdP v i :: rdPts v n (i+2)

def rdSubs (v : Array String) : Nat → Nat → List (List (P α)) × Nat
  | 0, i => ([], i)
  | n+1, i =>
    let k := rdNat v i
    let pts := rdPts v k (i+1)
    let (r, j) := rdSubs v n (i + 1 + 2*k)
    (pts :: r, j)

def hit (v : Array String) : String :=
  let ns := rdNat v 0
  let (subs, j) : List (List (P α)) × Nat := rdSubs v ns 1
  let nq := rdNat v j
  let qs : List (P α) := rdPts v nq (j+1)
  let edges := pathEdges subs
  let ws := qs.map (fun q =>
    let w := windingAt q edges
    toString w ++ " " ++ fb (hitRule true w) ++ " " ++ fb (hitRule false w))
  unwords (["w"] ++ ws ++ ["area", fx (pathArea subs), "dir"]
    ++ subs.map (fun s => if computeWinding s then "pos" else "neg"))

def families : List Family := [
  ⟨"hit", hit (α := Float32), hit (α := Float)⟩,
  Family.plain "curved" (fun _ => "-") ]

end Lyon.Drive.C18

def main : IO Unit := Lyon.Drive.run Lyon.Drive.C18.families
