/-
  Model driver for C18: `hit:32  nsubs (npts (x y)*)* nq (x y)*`
  → `w (winding hitEvenOdd hitNonZero)* area <a> dir (pos|neg)*`
  `curved  name tol nsubs (first nseg (L to | Q ctrl to | C ctrl1 ctrl2 to)*)* nq (x y)*`
  → the same token sequence (or `panic` where the flattening's `unwrap` panics)
-/
import LyonVerif.Drive.Common
import LyonVerif.Model.Algo.Winding
import LyonVerif.Model.Algo.WindingCurves

namespace Lyon.Drive.C18
open Lyon Lyon.Drive Lyon.Winding

variable {α : Type} [Scalar α] [Wire α]

def rdPts (v : Array String) : Nat → Nat → List (P α)
  | 0, _ => []
  | n+1, i => rdP v i :: rdPts v n (i+2)

def rdSubs (v : Array String) : Nat → Nat → List (List (P α)) × Nat
  | 0, i => ([], i)
  | n+1, i =>
    let k := rdNat v i
    let pts := rdPts v k (i+1)
    let (r, j) := rdSubs v n (i + 1 + 2*k)
    (pts :: r, j)

def hit (v : Array String) : String :=
  let ns := rdNat v 0
  let (subs, j) : List (List (P α)) × Nat := rdSubs v ns 1
  let nq := rdNat v j
  let qs : List (P α) := rdPts v nq (j+1)
  let edges := pathEdges subs
  let ws := qs.map (fun q =>
    let w := windingAt q edges
    toString w ++ " " ++ fb (hitRule true w) ++ " " ++ fb (hitRule false w))
  unwords (["w"] ++ ws ++ ["area", fx (pathArea subs), "dir"]
    ++ subs.map (fun s => if computeWinding s then "pos" else "neg"))

/-- `n` events starting at token `i` -/
def rdSegs (v : Array String) : Nat → Nat → List (CSeg α) × Nat
  | 0, i => ([], i)
  | n+1, i =>
    let k := v.getD i ""
    if k == "Q" then
      let (r, j) := rdSegs v n (i + 5)
      (CSeg.quad (rdP v (i+1)) (rdP v (i+3)) :: r, j)
    else if k == "C" then
      let (r, j) := rdSegs v n (i + 7)
      (CSeg.cubic (rdP v (i+1)) (rdP v (i+3)) (rdP v (i+5)) :: r, j)
    else
      let (r, j) := rdSegs v n (i + 3)
      (CSeg.line (rdP v (i+1)) :: r, j)

def rdCSubs (v : Array String) : Nat → Nat → List (CSub α) × Nat
  | 0, i => ([], i)
  | n+1, i =>
    let first : P α := rdP v i
    let (segs, j) := rdSegs v (rdNat v (i+2)) (i+3)
    let (r, k) := rdCSubs v n j
    (⟨first, segs⟩ :: r, k)

def fuelMax : Nat := 200000

def curved [Transc α] [FlatConst α] (v : Array String) : String :=
  let tol : α := rd v 1
  let (path, j) : List (CSub α) × Nat := rdCSubs v (rdNat v 2) 3
  let nq := rdNat v j
  let qs : List (P α) := rdPts v nq (j+1)
  let ws := qs.map (fun q => (windingAtC q tol path).map (fun w =>
    toString w ++ " " ++ fb (hitRule true w) ++ " " ++ fb (hitRule false w)))
  match pathAreaC tol fuelMax path Scalar.zero with
  | none => "panic"
  | some area =>
    if ws.any Option.isNone then "panic" else
    unwords (["w"] ++ ws.map (·.getD "") ++ ["area", fx area, "dir"]
      ++ path.map (fun s => if computeWindingC s then "pos" else "neg"))

def families : List Family := [
  ⟨"hit", hit (α := Float32), hit (α := Float)⟩,
  ⟨"curved", curved (α := Float32), curved (α := Float)⟩ ]

end Lyon.Drive.C18

def main : IO Unit := Lyon.Drive.run Lyon.Drive.C18.families
