/-
  Model driver for C17: runs `Lyon.Parser.parse` at `Float32` on the strings of
  `harness/src/bin/c17.rs` and prints the same token sequence.

  Families
  * `str`  args: `<na> <stop cp | -1> S <code points…>`
  * `blk`  args: `<na> <stop cp | -1> <len> <prefix symbol indices…>`: every string of length `len`
           over the 16-symbol alphabet starting with the prefix, one `|`-joined token per string.

  Numbers: the value of a lexeme is its correctly rounded (nearest-even) binary32 value, computed
  here with exact `Nat` arithmetic (what `f32::from_str` does); `+`/`-` are `Float32` operations;
  `is_straight_line` is evaluated exactly (`|r| ≤ 1e-4`, `from == to`).
  Arcs: `is_straight_line`, `Arc::from_svg_arc` and `arc_to_quadratic_beziers_with_t` are the
  model of C13 (`Model/Geom/SvgArc.lean`, imported, run at `Float32`); `Angle::degrees(x)` is
  `x * (PI / 180)` (`f32::to_radians`).  The quadratic calls of an arc are predicted with all
  their values.  Since C17b the instance is `Parser.concreteNum` (`Model/ParserConcrete.lean`), the
  very definition `Props/C17b.lean` proves never to answer `none` (no advice from lyon anywhere).
-/
import LyonVerif.Drive.Common
import LyonVerif.Model.Parser
import LyonVerif.Model.ParserConcrete

namespace Lyon.Drive.C17
open Lyon Lyon.Drive Lyon.Parser Lyon.Path

/-! ### decimal → binary32, correctly rounded -/

def digitsVal (l : List Char) : Nat := l.foldl (fun acc c => acc * 10 + (c.toNat - '0'.toNat)) 0

/-- bits of the binary32 nearest to `n/d` (`n, d > 0`), ties to even, overflow to infinity -/
def ratToF32Bits (n d : Nat) : Nat :=
  let e0 : Int := (Nat.log2 n : Int) - (Nat.log2 d : Int) - 23
  let q0 := if e0 ≥ 0 then n / (d * 2 ^ e0.toNat) else (n * 2 ^ (-e0).toNat) / d
  let e1 : Int := if q0 ≥ 2 ^ 24 then e0 + 1 else if q0 < 2 ^ 23 then e0 - 1 else e0
  let e2 : Int := if e1 < -149 then -149 else e1
  let num := if e2 ≥ 0 then n else n * 2 ^ (-e2).toNat
  let den := if e2 ≥ 0 then d * 2 ^ e2.toNat else d
  let q := num / den
  let r := num % den
  let q' := if 2 * r > den || (2 * r == den && q % 2 == 1) then q + 1 else q
  let bits := (e2 + 149).toNat * 2 ^ 23 + q'
  if bits ≥ 0x7F800000 then 0x7F800000 else bits

def decDigits (m : Nat) : Nat := (Nat.toDigits 10 m).length

/-- value of a lexeme accepted by `validF32` -/
def f32OfLexeme (l : List Char) : Float32 :=
  let neg := l.head? == some '-'
  let body := dropSign l
  let sm := splitMant body
  let d1 := sm.1
  let d2 := sm.2.1
  let ex := sm.2.2
  let m := digitsVal (d1 ++ d2)
  let exDigits := dropSign (ex.drop 1)
  let exNeg := (ex.drop 1).head? == some '-'
  let exAbs : Int := digitsVal exDigits
  let e10 : Int := (if exNeg then -exAbs else exAbs) - d2.length
  let sign : Nat := if neg then 0x80000000 else 0
  let mag : Nat :=
    if m == 0 then 0
    else
      let nd : Int := decDigits m
      if nd - 1 + e10 ≥ 39 then 0x7F800000
      else if nd + e10 ≤ -46 then 0
      else if e10 ≥ 0 then ratToF32Bits (m * 10 ^ e10.toNat) 1
      else ratToF32Bits m (10 ^ (-e10).toNat)
  Float32.ofBits (sign + mag).toUInt32

/-! ### the `Num` instance used by the tie -/

def consumedOf (total rem : Nat) : Nat := if rem == 0 then total else total - rem + 1

/-- the numeric instance the tie runs: `Parser.concreteNum` (`Model/ParserConcrete.lean` — the
instance `Props/C17b.lean` proves total: `is_straight_line`, `to_arc`, the quadratic pieces with
their `t` ranges and the `n_steps` NaN test all come from the arc model of C13, nothing is fed in
from lyon) at `Float32`, with the exact decimal → binary32 conversion above -/
def numF32 : Num Float32 := concreteNum f32OfLexeme

/-! ### printing -/

def hexF (x : Float32) : String := if x.isNaN then "~7fc00000" else fx x

def fPt (p : Pt Float32) : List String := [hexF p.1, hexF p.2]

def fCall (total : Nat) (e : Emit Float32) : List String :=
  let at_ := "@" ++ toString (consumedOf total e.1)
  match e.2 with
  | .begin p a => ("B" ++ at_) :: fPt p ++ a.map hexF
  | .line p a => ("L" ++ at_) :: fPt p ++ a.map hexF
  | .quad c p a => ("Q" ++ at_) :: fPt c ++ fPt p ++ a.map hexF
  | .cubic c1 c2 p a => ("C" ++ at_) :: fPt c1 ++ fPt c2 ++ fPt p ++ a.map hexF
  | .end_ true => ["E1" ++ at_]
  | .end_ false => ["E0" ++ at_]

def fCps (l : List Char) : String := "s" ++ ".".intercalate (l.map (fun c => toString c.toNat))

def fOutcome : Outcome → List String
  | .ok => ["ok"]
  | .err (.number src l c) => ["number", toString l, toString c, fCps src]
  | .err (.flag ch l c) => ["flag", toString l, toString c, toString ch.toNat]
  | .err (.command ch l c) => ["command", toString l, toString c, toString ch.toNat]
  | .err (.missingMoveTo ch l c) => ["moveto", toString l, toString c, toString ch.toNat]
  | .panic => ["arcpanic"]
  | .stuck => ["stuck"]

def fResult (_na total : Nat) (r : Result Float32) : List String :=
  fOutcome r.outcome ++
    ["end", toString r.final.line, toString r.final.col, toString (consumedOf total r.final.inp.length),
     "calls", toString r.calls.length] ++
    (r.calls.map (fCall total)).flatten

def runOne (na : Nat) (stop : Option Char) (inp : List Char) : List String :=
  fResult na inp.length (parse numF32 na stop inp)

def rdStop (s : String) : Option Char :=
  match s.toNat? with
  | some n => some (Char.ofNat n)
  | none => none

def strFamily (v : Array String) : String :=
  let na := rdNat v 0
  let stop := rdStop (v.getD 1 "-1")
  let cps := ((v.toList.drop 2).dropWhile (· != "S")).drop 1
  let inp := cps.map (fun t => Char.ofNat ((t.toNat?).getD 0))
  unwords (runOne na stop inp)

/-- the 16-symbol token alphabet of the exhaustive stream (same order as the harness) -/
def alphabet : Array Char :=
  #['M', 'L', 'H', 'Z', 'z', 'm', 'q', 'A', '0', '1', '-', '.', 'e', ' ', ',', '\n']

/-- all strings of length `n` over the alphabet, lexicographic in the symbol index -/
def allStrings : Nat → List (List Char)
  | 0 => [[]]
  | n + 1 => (alphabet.toList.map (fun c => (allStrings n).map (fun s => c :: s))).flatten

def blkFamily (v : Array String) : String :=
  let na := rdNat v 0
  let stop := rdStop (v.getD 1 "-1")
  let len := rdNat v 2
  let prefix_ := (v.toList.drop 3).map (fun t => alphabet.getD ((t.toNat?).getD 0) ' ')
  let tails := allStrings (len - prefix_.length)
  unwords (tails.map (fun t => "|".intercalate (runOne na stop (prefix_ ++ t))))

def families : List Family := [Family.plain "str" strFamily, Family.plain "blk" blkFamily]

end Lyon.Drive.C17

def main : IO Unit := Lyon.Drive.run Lyon.Drive.C17.families
