/-
  Driver for the sweep-line fill tessellator model (`Model/Tess/Sweep.lean`).

  `CASE <id> sweep:32 <rule 0=evenodd/1=nonzero> <orientation 0=vertical/1=horizontal> <tolerance>
        <entry events|path|ids|polygon|builder> <handle_intersections 0/1>
        <nsubs> (<npts> <closed 0/1> (<x> <y>)*)*`

  Answer: the COMPLETE output the real `FillTessellator` hands to its geometry builder, in call
  order:  `ok | err <Debug of the error>`  followed by
    `v <x> <y> <k> (e <px> <py> <tox> <toy> <t0> <t1> <winding> <from_id> <to_id>
                   | p <px> <py> <t0> <t1> <winding> <from_id> <to_id>){k}`   per `add_fill_vertex`
        (output position, then the sibling edge records of the event — hook H1), and
    `t <a> <b> <c>`                                                             per `add_triangle`.
  `panic` / `unmodelled <which>` / `fuel` stand alone.

  Family `sweepc:32` (curved input, `Model/Tess/SweepCurves.lean`) is described further down.
  `sweepcov` / `sweepccov` (the branches a case went through, names in `Sweep.covNames`) and
  `sweepwhy` / `sweepcwhy` (the reason behind a panic / unmodelled outcome) are diagnosis aids: feed
  them the CASE lines with the family name replaced; they are not part of the tie.
-/
import LyonVerif.Drive.Common
import LyonVerif.Model.Tess.Sweep
import LyonVerif.Model.Tess.SweepCurves

namespace Lyon.Drive.Sweep
open Lyon Lyon.Drive Lyon.Sweep Lyon.EQ

variable {α : Type} [Scalar α] [Wide α] [Wire α]

def rdPts (v : Array String) : Nat → Nat → List (P α)
  | 0, _ => []
  | n+1, i => rdP v i :: rdPts v n (i+2)

def rdSubs (v : Array String) : Nat → Nat → List (SubPath α)
  | 0, _ => []
  | n+1, i =>
    let k := rdNat v i
    let closed := rdNat v (i+1) == 1
    (rdPts v k (i+2), closed) :: rdSubs v n (i + 2 + 2 * k)

def entryOf (s : String) : Entry :=
  if s == "events" then .events else if s == "path" then .path else if s == "ids" then .ids
  else if s == "polygon" then .polygon else .builder

def fRec (r : P α × EdgeData α) : String :=
  let d := r.2
  let tail := [fx d.t0, fx d.t1, toString d.winding, toString d.fromId, toString d.toId]
  if d.isEdge then unwords (["e", fp r.1, fp d.to] ++ tail) else unwords (["p", fp r.1] ++ tail)

def fEmit : Emit α → String
  | .vertex pos recs => unwords (["v", fp pos, toString recs.length] ++ recs.map fRec)
  | .tri a b c => unwords ["t", toString a, toString b, toString c]

def fResult (r : Option Fail × Array (Emit α) × Nat) : String :=
  let r := (r.1, r.2.1)
  match r.1 with
  | some (.panic _) => "panic"
  | some (.unmodelled w) => "unmodelled " ++ w
  | some .fuel => "fuel"
  | some (.err k) => unwords (("err " ++ k) :: r.2.toList.map fEmit)
  | none => unwords ("ok" :: r.2.toList.map fEmit)

def run (v : Array String) : Option Fail × Array (Emit α) × Nat :=
  let rule : Slab.Rule := if rdNat v 0 == 0 then .evenOdd else .nonZero
  let horizontal := rdNat v 1 == 1
  let tol : α := rd v 2
  let entry := entryOf (v.getD 3 "")
  let hi := rdNat v 4 == 1
  let subs : List (SubPath α) := rdSubs v (rdNat v 5) 6
  tessellate entry rule horizontal tol hi subs

def sweep (v : Array String) : String := fResult (run (α := α) v)

/-- instrumentation: which branches of the model the case went through (not part of the tie) -/
def sweepCov (v : Array String) : String :=
  let c := (run (α := α) v).2.2
  unwords ((covNames.zipIdx.filter (fun p => (c >>> p.2) % 2 == 1)).map (·.1))

/-! ### curved input: family `sweepc`

  `CASE <id> sweepc:32 <rule> <orientation> <tolerance> <entry events|path|ids|idsattr|builder>
        <handle_intersections 0/1> <num_attributes> <ncmds>
        (B <x> <y> <attr>* | L <x> <y> <attr>* | Q <cx> <cy> <x> <y> <attr>* |
         C <c1x> <c1y> <c2x> <c2y> <x> <y> <attr>* | E <close 0/1>)*`
  (`num_attributes` values after every endpoint: the `Path` / `FillBuilder` was built with them).
  Entry points: `events` = `tessellate(path.iter())`; `path` = `tessellate_path(&path)` (through
  the ids exactly when the path has attributes); `ids` = `tessellate_with_ids(path.id_iter(), &path,
  None)`; `idsattr` = the same with `Some(&path)` as attribute store; `builder` = `builder()` /
  `builder_with_attributes(n)` with `begin / line_to / quadratic_bezier_to / cubic_bezier_to / end`.
  Answer: as for `sweep`, and after the records of every vertex, when the entry point carries an
  attribute store with `n > 0` attributes, `a <attr>{n}` = `FillVertex::interpolated_attributes()`. -/

open Lyon.SweepCurves in
/-- the commands and the attribute values per endpoint -/
def rdCmds (v : Array String) (nattr : Nat) : Nat → Nat → List (Cmd α) × Array (Array α) → List (Cmd α) × Array (Array α)
  | 0, _, acc => (acc.1.reverse, acc.2)
  | n+1, i, acc =>
    let attrs (j : Nat) : Array α := ((List.range nattr).map fun k => rd v (j + k)).toArray
    match v.getD i "" with
    | "B" => rdCmds v nattr n (i + 3 + nattr) (.begin (rdP v (i+1)) :: acc.1, acc.2.push (attrs (i+3)))
    | "L" => rdCmds v nattr n (i + 3 + nattr) (.line (rdP v (i+1)) :: acc.1, acc.2.push (attrs (i+3)))
    | "Q" => rdCmds v nattr n (i + 5 + nattr) (.quad (rdP v (i+1)) (rdP v (i+3)) :: acc.1, acc.2.push (attrs (i+5)))
    | "C" => rdCmds v nattr n (i + 7 + nattr)
               (.cubic (rdP v (i+1)) (rdP v (i+3)) (rdP v (i+5)) :: acc.1, acc.2.push (attrs (i+7)))
    | "E" => rdCmds v nattr n (i + 2) (.end_ (rdNat v (i+1) == 1) :: acc.1, acc.2)
    | _ => (acc.1.reverse, acc.2)

open Lyon.SweepCurves in
/-- `(id mode, carries an attribute store)` of an entry point -/
def modeOf (entry : String) (nattr : Nat) : IdMode × Bool :=
  if entry == "events" then (.none, false)
  else if entry == "path" then (if nattr > 0 then (.path nattr, true) else (.none, false))
  else if entry == "ids" then (.path nattr, false)
  else if entry == "idsattr" then (.path nattr, true)
  else (.builder, nattr > 0)

variable [Transc α] [FlatConst α]

open Lyon.SweepCurves in
def runC (v : Array String) : (Option Fail × Array (Emit α) × Nat) × (Emit α → String) :=
  let rule : Slab.Rule := if rdNat v 0 == 0 then .evenOdd else .nonZero
  let horizontal := rdNat v 1 == 1
  let tol : α := rd v 2
  let nattr := rdNat v 5
  let m := modeOf (v.getD 3 "") nattr
  let hi := rdNat v 4 == 1
  let cv := rdCmds (α := α) v nattr (rdNat v 6) 7 ([], #[])
  let r := SweepCurves.tessellate m.1 rule horizontal tol hi cv.1
  let fE : Emit α → String := fun e =>
    match e with
    | .vertex _ recs =>
      if m.2 && nattr > 0 then
        unwords ([fEmit e, "a"] ++ (vertexAttrs r.2 cv.2 nattr recs).map fx)
      else fEmit e
    | .tri _ _ _ => fEmit e
  (r.1, fE)

def fResultWith (fE : Emit α → String) (r : Option Fail × Array (Emit α) × Nat) : String :=
  let r := (r.1, r.2.1)
  match r.1 with
  | some (.panic _) => "panic"
  | some (.unmodelled w) => "unmodelled " ++ w
  | some .fuel => "fuel"
  | some (.err k) => unwords (("err " ++ k) :: r.2.toList.map fE)
  | none => unwords ("ok" :: r.2.toList.map fE)

def sweepC (v : Array String) : String :=
  let r := runC (α := α) v
  fResultWith r.2 r.1

def sweepCCov (v : Array String) : String :=
  let c := (runC (α := α) v).1.2.2
  unwords ((covNames.zipIdx.filter (fun p => (c >>> p.2) % 2 == 1)).map (·.1))

/-- diagnosis only (not part of the tie): the reason behind a `panic` / `unmodelled` / `fuel` outcome -/
def whyOf (r : Option Fail × Array (Emit α) × Nat) : String :=
  match r.1 with
  | some (.panic w) => "panic: " ++ w
  | some (.unmodelled w) => "unmodelled: " ++ w
  | some .fuel => "fuel"
  | some (.err k) => "err " ++ k
  | none => "ok"

def families : List Family := [
  ⟨"sweepwhy", fun v => whyOf (run (α := Float32) v), fun v => whyOf (run (α := Float32) v)⟩,
  ⟨"sweepcwhy", fun v => whyOf (runC (α := Float32) v).1, fun v => whyOf (runC (α := Float32) v).1⟩,
  ⟨"sweep", sweep (α := Float32), sweep (α := Float32)⟩,
  ⟨"sweepcov", sweepCov (α := Float32), sweepCov (α := Float32)⟩,
  ⟨"sweepc", sweepC (α := Float32), sweepC (α := Float32)⟩,
  ⟨"sweepccov", sweepCCov (α := Float32), sweepCCov (α := Float32)⟩ ]

end Lyon.Drive.Sweep
