/-
  Driver for the sweep-line fill tessellator model (`Model/Tess/Sweep.lean`).

  `CASE <id> sweep:32 <rule 0=evenodd/1=nonzero> <orientation 0=vertical/1=horizontal> <tolerance>
        <entry events|path|ids|polygon|builder> <handle_intersections 0/1>
        <nsubs> (<npts> <closed 0/1> (<x> <y>)*)*`

  Answer: the COMPLETE output the real `FillTessellator` hands to its geometry builder, in call
  order:  `ok | err <Debug of the error>`  followed by
    `v <x> <y> <k> (e <px> <py> <tox> <toy> <t0> <t1> <winding> <from_id> <to_id>
                   | p <px> <py> <t0> <t1> <winding> <from_id> <to_id>){k}`   per `add_fill_vertex`
        (output position, then the sibling edge records of the event — hook H1), and
    `t <a> <b> <c>`                                                             per `add_triangle`.
  `panic` / `unmodelled <which>` / `fuel` stand alone.
-/
import LyonVerif.Drive.Common
import LyonVerif.Model.Tess.Sweep

namespace Lyon.Drive.Sweep
open Lyon Lyon.Drive Lyon.Sweep Lyon.EQ

variable {α : Type} [Scalar α] [Wide α] [Wire α]

def rdPts (v : Array String) : Nat → Nat → List (P α)
  | 0, _ => []
  | n+1, i => rdP v i :: rdPts v n (i+2)

def rdSubs (v : Array String) : Nat → Nat → List (SubPath α)
  | 0, _ => []
  | n+1, i =>
    let k := rdNat v i
    let closed := rdNat v (i+1) == 1
    (rdPts v k (i+2), closed) :: rdSubs v n (i + 2 + 2 * k)

def entryOf (s : String) : Entry :=
  if s == "events" then .events else if s == "path" then .path else if s == "ids" then .ids
  else if s == "polygon" then .polygon else .builder

def fRec (r : P α × EdgeData α) : String :=
  let d := r.2
  let tail := [fx d.t0, fx d.t1, toString d.winding, toString d.fromId, toString d.toId]
  if d.isEdge then unwords (["e", fp r.1, fp d.to] ++ tail) else unwords (["p", fp r.1] ++ tail)

def fEmit : Emit α → String
  | .vertex pos recs => unwords (["v", fp pos, toString recs.length] ++ recs.map fRec)
  | .tri a b c => unwords ["t", toString a, toString b, toString c]

def fResult (r : Option Fail × Array (Emit α) × Nat) : String :=
  let r := (r.1, r.2.1)
  match r.1 with
  | some (.panic _) => "panic"
  | some (.unmodelled w) => "unmodelled " ++ w
  | some .fuel => "fuel"
  | some (.err k) => unwords (("err " ++ k) :: r.2.toList.map fEmit)
  | none => unwords ("ok" :: r.2.toList.map fEmit)

def run (v : Array String) : Option Fail × Array (Emit α) × Nat :=
  let rule : Slab.Rule := if rdNat v 0 == 0 then .evenOdd else .nonZero
  let horizontal := rdNat v 1 == 1
  let tol : α := rd v 2
  let entry := entryOf (v.getD 3 "")
  let hi := rdNat v 4 == 1
  let subs : List (SubPath α) := rdSubs v (rdNat v 5) 6
  tessellate entry rule horizontal tol hi subs

def sweep (v : Array String) : String := fResult (run (α := α) v)

/-- instrumentation: which branches of the model the case went through (not part of the tie) -/
def sweepCov (v : Array String) : String :=
  let c := (run (α := α) v).2.2
  unwords ((covNames.zipIdx.filter (fun p => (c >>> p.2) % 2 == 1)).map (·.1))

def families : List Family := [
  ⟨"sweep", sweep (α := Float32), sweep (α := Float32)⟩,
  ⟨"sweepcov", sweepCov (α := Float32), sweepCov (α := Float32)⟩ ]

end Lyon.Drive.Sweep
