/-
  Model driver for C12: prints, for each case of `harness/src/bin/c12.rs`, the same token
  sequence computed by the model (`Model/Geom/Intersect.lean`) at `Float32` / `Float`.
  The `cubiccubic` family runs the fat-line clipper model of `Model/Geom/Clip.lean`.
-/
import LyonVerif.Drive.Common
import LyonVerif.Model.Geom.Intersect
import LyonVerif.Model.Geom.Clip

namespace Lyon.Drive.C12
open Lyon Lyon.Drive

variable {α : Type} [Scalar α] [Transc α] [Wire α] [Sgn α] [Eps α] [Clip.F32Lit α]

def fOptPair : Option (α × α) → String
  | none => "none"
  | some (t, u) => "some " ++ fx t ++ " " ++ fx u

def fOptPoint : Option (P α) → String
  | none => "none"
  | some p => "some " ++ fp p

def fList (l : List α) : String :=
  unwords (toString l.length :: l.map fx)

def fPoints (l : List (P α)) : String :=
  unwords (toString l.length :: l.map fp)

def fPairs (l : List (α × α)) : String :=
  unwords (toString l.length :: l.map fun (t, u) => fx t ++ " " ++ fx u)

def rdSeg (v : Array String) (i : Nat) : Seg α := ⟨rdP v i, rdP v (i+2)⟩
def rdLine (v : Array String) (i : Nat) : Line α := ⟨rdP v i, rdP v (i+2)⟩

def segseg (v : Array String) : String :=
  let s : Seg α := rdSeg v 0
  let o : Seg α := rdSeg v 4
  unwords [
    "it", fOptPair (s.intersectionT o),
    "ix", fOptPoint (s.intersection o),
    "b", fb (s.intersects o),
    "rev", fOptPair (o.intersectionT s) ]

def segline (v : Array String) : String :=
  let s : Seg α := rdSeg v 0
  let l : Line α := rdLine v 4
  let x : α := rd v 8
  let y : α := rd v 9
  unwords [
    "lt", fopt (s.lineIntersectionT l),
    "lp", fOptPoint (s.lineIntersection l),
    "il", fb (s.intersectsLine l),
    "h", fopt (s.horizontalLineIntersectionT y),
    "v", fopt (s.verticalLineIntersectionT x) ]

def lineline (v : Array String) : String :=
  let l : Line α := rdLine v 0
  let o : Line α := rdLine v 4
  let e := l.equation
  unwords [ "ix", fOptPoint (l.intersection o), "eq", fx e.a, fx e.b, fx e.c ]

def quadline (v : Array String) : String :=
  let q : Quad α := ⟨rdP v 0, rdP v 2, rdP v 4⟩
  let l : Line α := rdLine v 6
  unwords [ "n", fList (q.lineIntersectionsT l), "pts", fPoints (q.lineIntersections l) ]

def quadseg (v : Array String) : String :=
  let q : Quad α := ⟨rdP v 0, rdP v 2, rdP v 4⟩
  let s : Seg α := rdSeg v 6
  unwords [ "n", fPairs (q.lineSegmentIntersectionsT s) ]

def polyroots (v : Array String) : String :=
  unwords [ "n", fList (Roots.cubicPolynomialRoots (rd v 0 : α) (rd v 1) (rd v 2) (rd v 3)) ]

def cubicline (v : Array String) : String :=
  let c : Cubic α := ⟨rdP v 0, rdP v 2, rdP v 4, rdP v 6⟩
  let l : Line α := rdLine v 8
  unwords [ "n", fList (c.lineIntersectionsT l), "pts", fPoints (c.lineIntersections l) ]

def cubicseg (v : Array String) : String :=
  let c : Cubic α := ⟨rdP v 0, rdP v 2, rdP v 4, rdP v 6⟩
  let s : Seg α := rdSeg v 8
  unwords [ "n", fPairs (c.lineSegmentIntersectionsT s) ]

def tri (v : Array String) : String :=
  let t : IxTri α := ⟨rdP v 0, rdP v 2, rdP v 4⟩
  let p : P α := rdP v 6
  let o : IxTri α := ⟨rdP v 8, rdP v 10, rdP v 12⟩
  let s : Seg α := rdSeg v 14
  unwords [ "c", fb (t.containsPoint p), "i", fb (t.intersects o), "s", fb (t.intersectsLineSegment s) ]

/-- `a.cubic_intersections_t(&b)`, the same query with the curves swapped, and
`a.cubic_intersections(&b)`; `panic` if any of them panics (`epsilon_for_point`), `fuel-out` if
the model's fuel (not lyon's budget) stopped a recursion — never expected. -/
def cubiccubic (v : Array String) : String :=
  let a : Cubic α := ⟨rdP v 0, rdP v 2, rdP v 4, rdP v 6⟩
  let b : Cubic α := ⟨rdP v 8, rdP v 10, rdP v 12, rdP v 14⟩
  let st := Clip.cubicIntersectionsState a b
  let rv := Clip.cubicIntersectionsState b a
  if st.panicked || rv.panicked then "panic"
  else if st.fuelOut || rv.fuelOut then "fuel-out"
  else unwords [ "n", fPairs st.ixs, "rev", "n", fPairs rv.ixs, "pts", fPoints (Clip.cubicIntersections a b) ]

def families : List Family := [
  ⟨"segseg", segseg (α := Float32), segseg (α := Float)⟩,
  ⟨"segline", segline (α := Float32), segline (α := Float)⟩,
  ⟨"lineline", lineline (α := Float32), lineline (α := Float)⟩,
  ⟨"quadline", quadline (α := Float32), quadline (α := Float)⟩,
  ⟨"quadseg", quadseg (α := Float32), quadseg (α := Float)⟩,
  ⟨"polyroots", polyroots (α := Float32), polyroots (α := Float)⟩,
  ⟨"cubicline", cubicline (α := Float32), cubicline (α := Float)⟩,
  ⟨"cubicseg", cubicseg (α := Float32), cubicseg (α := Float)⟩,
  ⟨"tri", tri (α := Float32), tri (α := Float)⟩,
  ⟨"cubiccubic", cubiccubic (α := Float32), cubiccubic (α := Float)⟩ ]

end Lyon.Drive.C12

def main : IO Unit := Lyon.Drive.run Lyon.Drive.C12.families
