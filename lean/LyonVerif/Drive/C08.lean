/-
  Model driver for C08.
  * `mono_reuse:32`  `<nA> (x y left)* <cut> <ended> <nB> (x y left)*` → `<ntris> (a b c)*`:
    the pooled monotone tessellator model on sequence B, started by `Adv.begin old` where `old` is
    what sequence A left behind (its first `cut` vertex calls after `begin`; with `ended = 1` the
    whole of A including `end` + `flush`, i.e. the object as `Spans::end_span` recycles it).
    The implementation side is a FRESH real object on B (hook H2): agreement is what
    `Props/C08.monotone_begin_fresh` proves, observed here on the executable definitions.
  * `chk_interp` (CHECK line = what the real code did): per vertex of a real fill on a REUSED
    tessellator, the source list and the attributes lyon computed; the model `Reset.interpAll`,
    started from a junk buffer resized as `tessellate_impl` does, must reproduce every attribute bit
    for bit.  Answers `ok <nverts>` or `fail interp/model-vs-impl generic …`.
  * `sweep_reuse:32`  `<ncalls> ( <rule 0/1> <orientation 0/1> <tolerance> <entry> <handle_ix 0/1>
        <refuse k | 0> <dropped 0/1> <nsubs> (<npts> <closed 0/1> (<x> <y>)*)* )*` → per call
        `call ok | call err <Debug> | call panic | …` followed by the complete emission sequence
        (format of `Drive/Sweep.lean`): the sweep model on a USED object.  The model side runs
        `Sweep.fillObj` over the whole history from `St.fresh`: every call is `tessellateFrom old c`
        with `old` = the state the MODEL of the previous call left behind (pool, spans, edges,
        queue; aborted runs included).  The implementation side is ONE real `FillTessellator`.
  * `sweepc_reuse:32`  `<ncalls> ( P <a call of sweep_reuse> | C <rule 0/1> <orientation 0/1> <tolerance>
        <entry events|path|ids|idsattr|builder> <handle_ix 0/1> <num_attributes> <refuse k | 0> <dropped 0/1>
        <ncmds> (B <x> <y> <attr>* | L <x> <y> <attr>* | Q <cx> <cy> <x> <y> <attr>* |
                 C <c1x> <c1y> <c2x> <c2y> <x> <y> <attr>* | E <close 0/1>)* )*` → per call the answer of
        `sweep_reuse`, and after the records of every vertex of a call that carries an attribute store with
        `n > 0` attributes `a <attr>{n}` = `FillVertex::interpolated_attributes()`.  The model side runs
        `SweepCurves.fillObjC` (`Model/Tess/ResetSweepCurves.lean`) over the whole history from
        `Obj.fresh`: every call starts from the object the MODEL of the previous call left behind (sweep
        state, queue, attribute buffer).  The implementation side is ONE real `FillTessellator`.
  * `chk_stroke_attrs` (CHECK line = what the real code did on ONE reused `StrokeTessellator`):
        `<ncalls> ( <ev|ids|bld|drop> <n> <nEndpoints> (id (attr)^n)^nEndpoints <nVerts>
                    ( (e id | g from to t) <k> (attr)^k )^nVerts )*`
    per call the entry kind (`ev` = `tessellate` / `tessellate_path` without attributes, `ids` =
    `tessellate_with_ids` / `tessellate_path` with `n` attributes, `bld` = `builder()` /
    `builder_with_attributes(n)`), the attribute store, and per vertex its source and the attributes
    lyon computed.  The model (`Model/Tess/StrokeAttrBuffer.lean`) threads the object's buffer through
    the history — `prologueBuffer`, `attrsSeqB` (the interpolation loop over `buffer.len()`),
    `bufferAfter` — and must reproduce every attribute bit for bit.  `ok <nverts>` or
    `fail stroke-attrs/model-vs-impl generic …`.
  * `stroke_reuse:32`  (every call: after `<m>` come `<times 1|2|0>` = the geometry builder refuses that vertex
        once / twice / from then on, and `<ctor panic j+1 | 0>` = the vertex constructor panics at vertex j)
        `<ncalls> ( F <refuse k+1 | 0> <m> <tol> <width> <miter_limit> <join> <cap> <cap> <variable 0/1>
                                    <fw_ids 0/1> <nattr> <nev> (events of C05's `fulle`)*
                                | G <refuse k+1 | 0> <m> <bld|drop|rejected> <tol> <width> <miter_limit> <join> <cap> <cap>
                                    <variable 0/1> <nattr> <ncmd> (commands of C05's `prog`)* )*`
        → per call `call ok|err|dropped R <refused add_stroke_vertex calls> V <n> (<vertex, all accessors> A <k> <attr>{k})* T <m> (a b c)*` or
        `call panic`: the COMPLETE stroker model as a long-lived object.  The model side runs
        `Full.strokeObjF` (`Model/Tess/ResetStrokeFull.lean`) over the whole history from `StrokeT.new`: every
        call is `strokeCallF t c` with `t` = the object (attribute buffer, builder store) the MODEL of the
        previous call left behind.  The implementation side is ONE real `StrokeTessellator`.
  The history families `hist_fill`, `hist_stroke` are oracle-only (real code against real code).
-/
import LyonVerif.Drive.Common
import LyonVerif.Model.Tess.Reset
import LyonVerif.Model.Tess.ResetSweep
import LyonVerif.Model.Tess.ResetSweepCurves
import LyonVerif.Model.Tess.StrokeAttrBuffer
import LyonVerif.Model.Tess.ResetStrokeFull

namespace Lyon.Drive.C08
open Lyon Lyon.Drive Lyon.Mono Lyon.Reset

variable {α : Type} [Scalar α] [Wire α]

def rdSeq (v : Array String) : Nat → Nat → List (P α × Bool)
  | 0, _ => []
  | n+1, i => (rdP v i, rdNat v (i+2) == 1) :: rdSeq v n (i+3)

def fTris (t : List Mono.Tri) : String :=
  unwords (toString t.length :: t.map (fun (a, b, c) => toString a ++ " " ++ toString b ++ " " ++ toString c))

/-- middle vertices with their ids (1-based positions in the sequence) -/
def mids (seq : List (P α × Bool)) : List (VArg α) :=
  ((seq.drop 1).take (seq.length - 2)).zipIdx.map (fun (pi : (P α × Bool) × Nat) => (pi.1.1, pi.2 + 1, pi.1.2))

def lastP (seq : List (P α × Bool)) : P α := (seq.getLast?.map (·.1)).getD ⟨Scalar.zero, Scalar.zero⟩
def firstP (seq : List (P α × Bool)) : P α := (seq.head?.map (·.1)).getD ⟨Scalar.zero, Scalar.zero⟩

/-- what sequence A leaves in the object -/
def oldState (a : List (P α × Bool)) (cut : Nat) (ended : Bool) : Adv α :=
  let s0 := Adv.begin Adv.new (firstP a) 0
  if ended then afterEnd (feed s0 (mids a)) (lastP a) (a.length - 1)
  else feed s0 ((mids a).take cut)

def monoReuse (v : Array String) : String :=
  let nA := rdNat v 0
  let a : List (P α × Bool) := rdSeq v nA 1
  let i := 1 + 3 * nA
  let cut := rdNat v i
  let ended := rdNat v (i + 1) == 1
  let nB := rdNat v (i + 2)
  let b : List (P α × Bool) := rdSeq v nB (i + 3)
  if nB < 2 then fTris [] else
  let old := oldState a cut ended
  fTris ((feed (Adv.begin old (firstP b) 0) (mids b)).end_ (lastP b) (nB - 1)).tris

/-! ### `chk_interp`: `<n> <nEndpoints> (id (attr)^n)^nEndpoints <nVerts> ( <nSrc> (e id | g from to t)* <k> (attr)^k )*` -/

def rdFloats (v : Array String) : Nat → Nat → List α
  | 0, _ => []
  | k+1, i => rd v i :: rdFloats v k (i+1)

def rdStore (v : Array String) (n : Nat) : Nat → Nat → List (Nat × List α)
  | 0, _ => []
  | k+1, i => (rdNat v i, rdFloats v n (i+1)) :: rdStore v n k (i+n+1)

/-- sources of one vertex; returns the list and the next index -/
def rdSrcs (v : Array String) : Nat → Nat → List (Src α) × Nat
  | 0, i => ([], i)
  | k+1, i =>
    if v.getD i "" == "e" then
      let r := rdSrcs v k (i+2)
      (Src.endpoint (rdNat v (i+1)) :: r.1, r.2)
    else
      let r := rdSrcs v k (i+4)
      (Src.edge (rdNat v (i+1)) (rdNat v (i+2)) (rd v (i+3)) :: r.1, r.2)

/-- all vertices: (sources, attribute tokens as printed by the implementation) -/
def rdVerts (v : Array String) : Nat → Nat → List (List (Src α) × List String)
  | 0, _ => []
  | k+1, i =>
    let ns := rdNat v i
    let s := rdSrcs (α := α) v ns (i+1)
    let na := rdNat v s.2
    let toks := (List.range na).map (fun j => v.getD (s.2 + 1 + j) "")
    (s.1, toks) :: rdVerts v k (s.2 + 1 + na)

def iresToks : IRes α → List String
  | .noAttributes => []
  | .slice l => l.map fx
  | .panic => ["panic"]

def chkInterp (v : Array String) : String :=
  let n := rdNat v 0
  let ne := rdNat v 1
  let storeL : List (Nat × List α) := rdStore v n ne 2
  let store : Nat → List α := fun id => ((storeL.find? (·.1 == id)).map (·.2)).getD []
  let i := 2 + (n + 1) * ne
  let nv := rdNat v i
  let verts := rdVerts (α := α) v nv (i+1)
  -- the recycled buffer: junk of another length, resized as `tessellate_impl` does
  let junk : List α := List.replicate 5 (Scalar.ofNat 777)
  let got := interpAll (some store) n (verts.map (·.1)) (resizeAttrib junk (some n))
  let bad := (got.zip (verts.map (·.2))).zipIdx.filter (fun (x : (IRes α × List String) × Nat) => iresToks x.1.1 != x.1.2)
  match bad with
  | [] => "ok " ++ toString nv
  | b :: _ => "fail interp/model-vs-impl generic vertex " ++ toString b.2 ++ " model " ++ unwords (iresToks b.1.1) ++
      " impl " ++ unwords b.1.2

/-! ### `sweep_reuse` -/

section reuse
open Lyon.Sweep Lyon.EQ
variable [Sweep.Wide α]

def rdPts (v : Array String) : Nat → Nat → List (P α)
  | 0, _ => []
  | n+1, i => rdP v i :: rdPts v n (i+2)

/-- the sub-paths and the index after them -/
def rdSubs (v : Array String) : Nat → Nat → List (SubPath α) × Nat
  | 0, i => ([], i)
  | n+1, i =>
    let k := rdNat v i
    let closed := rdNat v (i+1) == 1
    let r := rdSubs v n (i + 2 + 2 * k)
    ((rdPts v k (i+2), closed) :: r.1, r.2)

def entryOf (s : String) : Entry :=
  if s == "events" then .events else if s == "path" then .path else if s == "ids" then .ids
  else if s == "polygon" then .polygon else .builder

def rdCalls (v : Array String) : Nat → Nat → List (FillCall α)
  | 0, _ => []
  | n+1, i =>
    let subs := rdSubs (α := α) v (rdNat v (i+7)) (i+8)
    let k := rdNat v (i+5)
    { entry := entryOf (v.getD (i+3) ""), rule := if rdNat v i == 0 then .evenOdd else .nonZero,
      horizontal := rdNat v (i+1) == 1, tol := rd v (i+2), handleIx := rdNat v (i+4) == 1, subs := subs.1,
      refuse := if k == 0 then none else some (k - 1), dropped := rdNat v (i+6) == 1 } :: rdCalls v n subs.2

def fRec (r : P α × EQ.EdgeData α) : String :=
  let d := r.2
  let tail := [fx d.t0, fx d.t1, toString d.winding, toString d.fromId, toString d.toId]
  if d.isEdge then unwords (["e", fp r.1, fp d.to] ++ tail) else unwords (["p", fp r.1] ++ tail)

def fEmit : Emit α → String
  | .vertex pos recs => unwords (["v", fp pos, toString recs.length] ++ recs.map fRec)
  | .tri a b c => unwords ["t", toString a, toString b, toString c]

def fEmission (r : Emission α) : String :=
  match r.1 with
  | some (.panic _) => "call panic"
  | some (.unmodelled w) => "call unmodelled " ++ w
  | some .fuel => "call fuel"
  | some (.err k) => unwords (("call err " ++ k) :: r.2.toList.map fEmit)
  | none => unwords ("call ok" :: r.2.toList.map fEmit)

def sweepReuse (v : Array String) : String :=
  let calls : List (FillCall α) := rdCalls v (rdNat v 0) 1
  unwords ((fillObj.outputs (St.fresh : St α) calls).map fEmission)

end reuse

/-! ### `sweepc_reuse` -/

section reusec
open Lyon.Sweep Lyon.EQ Lyon.SweepCurves
variable [Sweep.Wide α] [Transc α] [FlatConst α]

/-- one polygonal call (format of `sweep_reuse`) and the index after it -/
def rdCallP (v : Array String) (i : Nat) : FillCall α × Nat :=
  let subs := rdSubs (α := α) v (rdNat v (i+7)) (i+8)
  let k := rdNat v (i+5)
  ({ entry := entryOf (v.getD (i+3) ""), rule := if rdNat v i == 0 then .evenOdd else .nonZero,
     horizontal := rdNat v (i+1) == 1, tol := rd v (i+2), handleIx := rdNat v (i+4) == 1, subs := subs.1,
     refuse := if k == 0 then none else some (k - 1), dropped := rdNat v (i+6) == 1 }, subs.2)

/-- the commands, the attribute values per endpoint, and the index after them -/
def rdCmdsN (v : Array String) (nattr : Nat) : Nat → Nat → List (Cmd α) × Array (Array α) →
    (List (Cmd α) × Array (Array α)) × Nat
  | 0, i, acc => ((acc.1.reverse, acc.2), i)
  | n+1, i, acc =>
    let attrs (j : Nat) : Array α := ((List.range nattr).map fun k => rd v (j + k)).toArray
    match v.getD i "" with
    | "B" => rdCmdsN v nattr n (i + 3 + nattr) (.begin (rdP v (i+1)) :: acc.1, acc.2.push (attrs (i+3)))
    | "L" => rdCmdsN v nattr n (i + 3 + nattr) (.line (rdP v (i+1)) :: acc.1, acc.2.push (attrs (i+3)))
    | "Q" => rdCmdsN v nattr n (i + 5 + nattr) (.quad (rdP v (i+1)) (rdP v (i+3)) :: acc.1, acc.2.push (attrs (i+5)))
    | "C" => rdCmdsN v nattr n (i + 7 + nattr)
               (.cubic (rdP v (i+1)) (rdP v (i+3)) (rdP v (i+5)) :: acc.1, acc.2.push (attrs (i+7)))
    | "E" => rdCmdsN v nattr n (i + 2) (.end_ (rdNat v (i+1) == 1) :: acc.1, acc.2)
    | _ => ((acc.1.reverse, acc.2), i)

def entryCOf (s : String) : EntryC :=
  if s == "events" then .events else if s == "path" then .path else if s == "ids" then .ids false
  else if s == "idsattr" then .ids true else .builder

/-- one curved call and the index after it -/
def rdCallC (v : Array String) (i : Nat) : CallC α × Nat :=
  let nattr := rdNat v (i+5)
  let k := rdNat v (i+6)
  let cv := rdCmdsN (α := α) v nattr (rdNat v (i+8)) (i+9) ([], #[])
  ({ entry := entryCOf (v.getD (i+3) ""), nattr := nattr, rule := if rdNat v i == 0 then .evenOdd else .nonZero,
     horizontal := rdNat v (i+1) == 1, tol := rd v (i+2), handleIx := rdNat v (i+4) == 1, cmds := cv.1.1,
     values := cv.1.2, refuse := if k == 0 then none else some (k - 1), dropped := rdNat v (i+7) == 1 }, cv.2)

/-- the calls of a history, each with `print the attributes of its vertices` -/
def rdAny (v : Array String) : Nat → Nat → List (AnyCall α × Bool)
  | 0, _ => []
  | n+1, i =>
    if v.getD i "" == "P" then
      let c := rdCallP (α := α) v (i+1)
      (.poly c.1, false) :: rdAny v n c.2
    else
      let c := rdCallC (α := α) v (i+1)
      (.curved c.1, (c.1.entry.mode c.1.nattr).2 && c.1.nattr > 0) :: rdAny v n c.2

def iresWords : Reset.IRes α → List String
  | .noAttributes => []
  | .slice l => l.map fx
  | .panic => ["panic"]

def fEmitA (showAttrs : Bool) : EmitA α → String
  | .vertex pos recs attrs =>
    if showAttrs then unwords ([fEmit (.vertex pos recs), "a"] ++ iresWords attrs) else fEmit (.vertex pos recs)
  | .tri a b c => fEmit (.tri a b c : Emit α)

def fEmissionA (showAttrs : Bool) (r : EmissionA α) : String :=
  match r.1 with
  | some (.panic _) => "call panic"
  | some (.unmodelled w) => "call unmodelled " ++ w
  | some .fuel => "call fuel"
  | some (.err k) => unwords (("call err " ++ k) :: r.2.map (fEmitA showAttrs))
  | none => unwords ("call ok" :: r.2.map (fEmitA showAttrs))

def sweepcReuse (v : Array String) : String :=
  let calls : List (AnyCall α × Bool) := rdAny v (rdNat v 0) 1
  let outs := fillObjC.outputs (Obj.fresh : Obj α) (calls.map (·.1))
  unwords ((outs.zip (calls.map (·.2))).map fun p => fEmissionA p.2 p.1)

end reusec

/-! ### `chk_stroke_attrs` -/

section strokeAttrs
open Lyon.Stroke Lyon.Stroke.Full

/-- the sources of the vertices of one call with the attribute tokens of the implementation; next index -/
def rdSVerts (v : Array String) : Nat → Nat → List (Stroke.Src α × List String) × Nat
  | 0, i => ([], i)
  | k+1, i =>
    let (s, j) : Stroke.Src α × Nat :=
      if v.getD i "" == "e" then (.endpoint (rdNat v (i+1)), i+2)
      else (.edge (rdNat v (i+1)) (rdNat v (i+2)) (rd v (i+3)), i+4)
    let na := rdNat v j
    let toks := (List.range na).map (fun m => v.getD (j + 1 + m) "")
    let r := rdSVerts v k (j + 1 + na)
    ((s, toks) :: r.1, r.2)

def strokeEntryOf (kind : String) (n : Nat) : Reset.StrokeEntry :=
  if kind == "ev" then .events else if kind == "ids" then .withIds n
  else if kind == "bld" then .builder n else .builderDropped n

/-- all calls of the history, the object's buffer threaded: `(vertices checked, first failure)` -/
def chkStrokeCalls (v : Array String) : Nat → Nat → Nat → List α → Nat → Nat × Option String
  | 0, _, _, _, nv => (nv, none)
  | k+1, call, i, old, nv =>
    let n := rdNat v (i+1)
    let ne := rdNat v (i+2)
    let entry := strokeEntryOf (v.getD i "") n
    let storeL : List (Nat × List α) := rdStore v n ne (i+3)
    let store : Nat → List α := fun id => ((storeL.find? (·.1 == id)).map (·.2)).getD []
    let j := i + 3 + (n + 1) * ne
    let verts := rdSVerts (α := α) v (rdNat v j) (j+1)
    let r := attrsSeqB store (verts.1.map (·.1)) ⟨false, prologueBuffer old entry⟩
    let next := bufferAfter old entry r.2.buf
    match r.1 with
    | none => (nv, some ("call " ++ toString call ++ " model: a read goes out of bounds"))
    | some got =>
      let bad := (got.zip (verts.1.map (·.2))).zipIdx.filter (fun (x : (List α × List String) × Nat) => x.1.1.map fx != x.1.2)
      match bad with
      | [] => chkStrokeCalls v k (call + 1) verts.2 next (nv + verts.1.length)
      | b :: _ => (nv, some ("call " ++ toString call ++ " vertex " ++ toString b.2 ++ " model " ++ unwords (b.1.1.map fx) ++
          " impl " ++ unwords b.1.2))

def chkStrokeAttrs (v : Array String) : String :=
  match chkStrokeCalls (α := α) v (rdNat v 0) 0 1 [] 0 with
  | (nv, none) => "ok " ++ toString nv
  | (_, some w) => "fail stroke-attrs/model-vs-impl generic " ++ w

end strokeAttrs

/-! ### `stroke_reuse` -/

section strokeReuse
open Lyon.Stroke Lyon.Stroke.Full
variable [Transc α]

def sJoinOf : String → LineJoin
  | "miter" => .miter | "miterclip" => .miterClip | "round" => .round | _ => .bevel
def sCapOf : String → LineCap
  | "butt" => .butt | "square" => .square | _ => .round
def rdB (v : Array String) (i : Nat) : Bool := v.getD i "0" == "1"
def rdListS (v : Array String) (i n : Nat) : List α := (List.range n).map (fun k => rd v (i + k))

def rdPtsS (v : Array String) : Nat → Nat → List (P α)
  | 0, _ => []
  | n+1, i => rdP v i :: rdPtsS v n (i+2)

/-- the id events of C05's `fulle` with the caller's store, and the index after them -/
def rdEventsI (v : Array String) (nattr : Nat) : Nat → Nat → (List (IdEv α) × List (Nat × List α)) × Nat
  | 0, i => (([], []), i)
  | n+1, i =>
    match v.getD i "" with
    | "B" =>
      let r := rdEventsI v nattr n (i + 4 + nattr)
      ((IdEv.begin (rdNat v (i+1)) (rdP v (i+2)) :: r.1.1, (rdNat v (i+1), rdListS v (i+4) nattr) :: r.1.2), r.2)
    | "L" =>
      let r := rdEventsI v nattr n (i + 4 + nattr)
      ((IdEv.line (rdNat v (i+1)) (rdP v (i+2)) :: r.1.1, (rdNat v (i+1), rdListS v (i+4) nattr) :: r.1.2), r.2)
    | "Q" =>
      let r := rdEventsI v nattr n (i + 6 + nattr)
      ((IdEv.quad (rdP v (i+1)) (rdNat v (i+3)) (rdP v (i+4)) :: r.1.1, (rdNat v (i+3), rdListS v (i+6) nattr) :: r.1.2), r.2)
    | "C" =>
      let r := rdEventsI v nattr n (i + 8 + nattr)
      ((IdEv.cubic (rdP v (i+1)) (rdP v (i+3)) (rdNat v (i+5)) (rdP v (i+6)) :: r.1.1,
        (rdNat v (i+5), rdListS v (i+8) nattr) :: r.1.2), r.2)
    | _ =>
      let r := rdEventsI v nattr n (i + 2)
      ((IdEv.end_ (rdB v (i+1)) :: r.1.1, r.1.2), r.2)

def toPathEvS : IdEv α → PathEv α
  | .begin _ p => .begin p
  | .line _ p => .line p
  | .quad c _ p => .quad c p
  | .cubic c1 c2 _ p => .cubic c1 c2 p
  | .end_ c => .end_ c

open Lyon.Stroke.Prog in
/-- the commands of C05's `prog`, and the index after them -/
def rdCmdsI (v : Array String) (nattr : Nat) : Nat → Nat → List (Cmd α) × Nat
  | 0, i => ([], i)
  | n+1, i =>
    let next (c : Cmd α) (j : Nat) : List (Cmd α) × Nat := let r := rdCmdsI v nattr n j; (c :: r.1, r.2)
    match v.getD i "" with
    | "B" => next (Cmd.begin (rdP v (i+1)) (rdListS v (i+3) nattr)) (i + 3 + nattr)
    | "L" => next (Cmd.line (rdP v (i+1)) (rdListS v (i+3) nattr)) (i + 3 + nattr)
    | "Q" => next (Cmd.quad (rdP v (i+1)) (rdP v (i+3)) (rdListS v (i+5) nattr)) (i + 5 + nattr)
    | "C" => next (Cmd.cubic (rdP v (i+1)) (rdP v (i+3)) (rdP v (i+5)) (rdListS v (i+7) nattr)) (i + 7 + nattr)
    | "E" => next (Cmd.end_ (rdB v (i+1))) (i + 2)
    | "R" => next (Cmd.rect (rdP v (i+1)) (rdP v (i+3)) (rdB v (i+5)) (rdListS v (i+6) nattr)) (i + 6 + nattr)
    | "P" =>
      let k := rdNat v (i+1)
      next (Cmd.polygon (rdPtsS v k (i+3)) (rdB v (i+2)) (rdListS v (i + 3 + 2 * k) nattr)) (i + 3 + 2 * k + nattr)
    | "S" => next (Cmd.segment (rdP v (i+1)) (rdP v (i+3)) (rdListS v (i+5) nattr)) (i + 5 + nattr)
    | "O" => next (Cmd.point (rdP v (i+1)) (rdListS v (i+3) nattr)) (i + 3 + nattr)
    | "SJ" => next (Cmd.setJoin (sJoinOf (v.getD (i+1) ""))) (i + 2)
    | "SS" => next (Cmd.setStartCap (sCapOf (v.getD (i+1) ""))) (i + 2)
    | "SE" => next (Cmd.setEndCap (sCapOf (v.getD (i+1) ""))) (i + 2)
    | _ => next (Cmd.setMiterLimit (rd v (i+1))) (i + 2)

def rdOpts (v : Array String) (i : Nat) : Opts α :=
  ⟨rd v i, rd v (i+1), rd v (i+2), sJoinOf (v.getD (i+3) ""), sCapOf (v.getD (i+4) ""), sCapOf (v.getD (i+5) ""),
   rdB v (i+6), 0⟩

/-- the calls of a history.  Every call starts `F|G <refuse k+1 | 0> <m> <times 1|2|0 = from then on>
<ctor panic j+1 | 0>`; `times` is not read: nothing is attempted after the first refusal -/
def rdCallsF (v : Array String) : Nat → Nat → List (CallF α)
  | 0, _ => []
  | n+1, i =>
    let k := rdNat v (i+1)
    let refuse : Option (Nat × Nat) := if k == 0 then none else some (k - 1, rdNat v (i+2))
    let pj := rdNat v (i+4)
    let ctorPanic : Option Nat := if pj == 0 then none else some (pj - 1)
    if v.getD i "" == "F" then
      let o : Opts α := rdOpts v (i+5)
      let fwIds := rdB v (i+12)
      let nattr := rdNat v (i+13)
      let ev := rdEventsI (α := α) v nattr (rdNat v (i+14)) (i+15)
      let body : BodyF α := if fwIds then .fw o (ev.1.1.map toPathEvS) else .ids o nattr ev.1.1 ev.1.2
      ⟨body, refuse, ctorPanic⟩ :: rdCallsF v n ev.2
    else
      let kind := v.getD (i+5) ""
      let o : Opts α := rdOpts v (i+6)
      let nattr := rdNat v (i+13)
      let cm := rdCmdsI (α := α) v nattr (rdNat v (i+14)) (i+15)
      let body : BodyF α := if kind == "rejected" then .rejected else .prog o nattr (kind == "drop") cm.1
      ⟨body, refuse, ctorPanic⟩ :: rdCallsF v n cm.2

def fSideS : Side → String
  | .positive => "P"
  | .negative => "N"

def fSrcS : Stroke.Src α → String
  | .endpoint id => "E " ++ toString id
  | .edge f t u => "G " ++ toString f ++ " " ++ toString t ++ " " ++ fx u

def fVtxS (v : Vtx α) : String :=
  unwords [fp v.position, fp v.normal, fp v.positionOnPath, fx v.lineWidth, fx v.advancement,
           fSideS v.side, fSrcS v.src]

def fOutF (o : OutF α) : String :=
  match o.outcome with
  | .panic => "call panic"
  | oc =>
    let w := match oc with | .ok => "ok" | .err => "err" | .dropped => "dropped" | .panic => "panic"
    unwords (["call", w, "R", toString o.refusals, "V", toString o.verts.length]
      ++ (o.verts.zip o.attrs).map (fun (d, a) => unwords ([fVtxS d.read, "A", toString a.length] ++ a.map fx))
      ++ ["T", toString o.tris.length]
      ++ o.tris.map (fun t => toString t.1 ++ " " ++ toString t.2.1 ++ " " ++ toString t.2.2))

def strokeReuse [HasIx α] [Asin α] [FlatConst α] (v : Array String) : String :=
  let calls : List (CallF α) := rdCallsF v (rdNat v 0) 1
  unwords (((strokeObjF HasIx.ix).outputs (Reset.StrokeT.new : Reset.StrokeT α) calls).map fOutF)

end strokeReuse

def families : List Family := [
  ⟨"mono_reuse", monoReuse (α := Float32), monoReuse (α := Float)⟩,
  Family.plain "chk_interp" (chkInterp (α := Float32)),
  Family.plain "chk_stroke_attrs" (chkStrokeAttrs (α := Float32)),
  ⟨"sweep_reuse", sweepReuse (α := Float32), sweepReuse (α := Float32)⟩,
  ⟨"sweepc_reuse", sweepcReuse (α := Float32), sweepcReuse (α := Float32)⟩,
  ⟨"stroke_reuse", strokeReuse (α := Float32), strokeReuse (α := Float32)⟩ ]

end Lyon.Drive.C08

def main : IO Unit := Lyon.Drive.run Lyon.Drive.C08.families
