/-
  Model driver for C08.
  * `mono_reuse:32`  `<nA> (x y left)* <cut> <ended> <nB> (x y left)*` → `<ntris> (a b c)*`:
    the pooled monotone tessellator model on sequence B, started by `Adv.begin old` where `old` is
    what sequence A left behind (its first `cut` vertex calls after `begin`; with `ended = 1` the
    whole of A including `end` + `flush`, i.e. the object as `Spans::end_span` recycles it).
    The implementation side is a FRESH real object on B (hook H2): agreement is what
    `Props/C08.monotone_begin_fresh` proves, observed here on the executable definitions.
  * `chk_interp` (CHECK line = what the real code did): per vertex of a real fill on a REUSED
    tessellator, the source list and the attributes lyon computed; the model `Reset.interpAll`,
    started from a junk buffer resized as `tessellate_impl` does, must reproduce every attribute bit
    for bit.  Answers `ok <nverts>` or `fail interp/model-vs-impl generic …`.
  * `sweep_reuse:32`  `<ncalls> ( <rule 0/1> <orientation 0/1> <tolerance> <entry> <handle_ix 0/1>
        <refuse k | 0> <dropped 0/1> <nsubs> (<npts> <closed 0/1> (<x> <y>)*)* )*` → per call
        `call ok | call err <Debug> | call panic | …` followed by the complete emission sequence
        (format of `Drive/Sweep.lean`): the sweep model on a USED object.  The model side runs
        `Sweep.fillObj` over the whole history from `St.fresh`: every call is `tessellateFrom old c`
        with `old` = the state the MODEL of the previous call left behind (pool, spans, edges,
        queue; aborted runs included).  The implementation side is ONE real `FillTessellator`.
  The history families `hist_fill`, `hist_stroke` are oracle-only (real code against real code).
-/
import LyonVerif.Drive.Common
import LyonVerif.Model.Tess.Reset
import LyonVerif.Model.Tess.ResetSweep

namespace Lyon.Drive.C08
open Lyon Lyon.Drive Lyon.Mono Lyon.Reset

variable {α : Type} [Scalar α] [Wire α]

def rdSeq (v : Array String) : Nat → Nat → List (P α × Bool)
  | 0, _ => []
  | n+1, i => (rdP v i, rdNat v (i+2) == 1) :: rdSeq v n (i+3)

def fTris (t : List Mono.Tri) : String :=
  unwords (toString t.length :: t.map (fun (a, b, c) => toString a ++ " " ++ toString b ++ " " ++ toString c))

/-- middle vertices with their ids (1-based positions in the sequence) -/
def mids (seq : List (P α × Bool)) : List (VArg α) :=
  ((seq.drop 1).take (seq.length - 2)).zipIdx.map (fun (pi : (P α × Bool) × Nat) => (pi.1.1, pi.2 + 1, pi.1.2))

def lastP (seq : List (P α × Bool)) : P α := (seq.getLast?.map (·.1)).getD ⟨Scalar.zero, Scalar.zero⟩
def firstP (seq : List (P α × Bool)) : P α := (seq.head?.map (·.1)).getD ⟨Scalar.zero, Scalar.zero⟩

/-- what sequence A leaves in the object -/
def oldState (a : List (P α × Bool)) (cut : Nat) (ended : Bool) : Adv α :=
  let s0 := Adv.begin Adv.new (firstP a) 0
  if ended then afterEnd (feed s0 (mids a)) (lastP a) (a.length - 1)
  else feed s0 ((mids a).take cut)

def monoReuse (v : Array String) : String :=
  let nA := rdNat v 0
  let a : List (P α × Bool) := rdSeq v nA 1
  let i := 1 + 3 * nA
  let cut := rdNat v i
  let ended := rdNat v (i + 1) == 1
  let nB := rdNat v (i + 2)
  let b : List (P α × Bool) := rdSeq v nB (i + 3)
  if nB < 2 then fTris [] else
  let old := oldState a cut ended
  fTris ((feed (Adv.begin old (firstP b) 0) (mids b)).end_ (lastP b) (nB - 1)).tris

/-! ### `chk_interp`: `<n> <nEndpoints> (id (attr)^n)^nEndpoints <nVerts> ( <nSrc> (e id | g from to t)* <k> (attr)^k )*` -/

def rdFloats (v : Array String) : Nat → Nat → List α
  | 0, _ => []
  | k+1, i => rd v i :: rdFloats v k (i+1)

def rdStore (v : Array String) (n : Nat) : Nat → Nat → List (Nat × List α)
  | 0, _ => []
  | k+1, i => (rdNat v i, rdFloats v n (i+1)) :: rdStore v n k (i+n+1)

/-- sources of one vertex; returns the list and the next index -/
def rdSrcs (v : Array String) : Nat → Nat → List (Src α) × Nat
  | 0, i => ([], i)
  | k+1, i =>
    if v.getD i "" == "e" then
      let r := rdSrcs v k (i+2)
      (Src.endpoint (rdNat v (i+1)) :: r.1, r.2)
    else
      let r := rdSrcs v k (i+4)
      (Src.edge (rdNat v (i+1)) (rdNat v (i+2)) (rd v (i+3)) :: r.1, r.2)

/-- all vertices: (sources, attribute tokens as printed by the implementation) -/
def rdVerts (v : Array String) : Nat → Nat → List (List (Src α) × List String)
  | 0, _ => []
  | k+1, i =>
    let ns := rdNat v i
    let s := rdSrcs (α := α) v ns (i+1)
    let na := rdNat v s.2
    let toks := (List.range na).map (fun j => v.getD (s.2 + 1 + j) "")
    (s.1, toks) :: rdVerts v k (s.2 + 1 + na)

def iresToks : IRes α → List String
  | .noAttributes => []
  | .slice l => l.map fx
  | .panic => ["panic"]

def chkInterp (v : Array String) : String :=
  let n := rdNat v 0
  let ne := rdNat v 1
  let storeL : List (Nat × List α) := rdStore v n ne 2
  let store : Nat → List α := fun id => ((storeL.find? (·.1 == id)).map (·.2)).getD []
  let i := 2 + (n + 1) * ne
  let nv := rdNat v i
  let verts := rdVerts (α := α) v nv (i+1)
  -- the recycled buffer: junk of another length, resized as `tessellate_impl` does
  let junk : List α := List.replicate 5 (Scalar.ofNat 777)
  let got := interpAll (some store) n (verts.map (·.1)) (resizeAttrib junk (some n))
  let bad := (got.zip (verts.map (·.2))).zipIdx.filter (fun (x : (IRes α × List String) × Nat) => iresToks x.1.1 != x.1.2)
  match bad with
  | [] => "ok " ++ toString nv
  | b :: _ => "fail interp/model-vs-impl generic vertex " ++ toString b.2 ++ " model " ++ unwords (iresToks b.1.1) ++
      " impl " ++ unwords b.1.2

/-! ### `sweep_reuse` -/

section reuse
open Lyon.Sweep Lyon.EQ
variable [Sweep.Wide α]

def rdPts (v : Array String) : Nat → Nat → List (P α)
  | 0, _ => []
  | n+1, i => rdP v i :: rdPts v n (i+2)

/-- the sub-paths and the index after them -/
def rdSubs (v : Array String) : Nat → Nat → List (SubPath α) × Nat
  | 0, i => ([], i)
  | n+1, i =>
    let k := rdNat v i
    let closed := rdNat v (i+1) == 1
    let r := rdSubs v n (i + 2 + 2 * k)
    ((rdPts v k (i+2), closed) :: r.1, r.2)

def entryOf (s : String) : Entry :=
  if s == "events" then .events else if s == "path" then .path else if s == "ids" then .ids
  else if s == "polygon" then .polygon else .builder

def rdCalls (v : Array String) : Nat → Nat → List (FillCall α)
  | 0, _ => []
  | n+1, i =>
    let subs := rdSubs (α := α) v (rdNat v (i+7)) (i+8)
    let k := rdNat v (i+5)
    { entry := entryOf (v.getD (i+3) ""), rule := if rdNat v i == 0 then .evenOdd else .nonZero,
      horizontal := rdNat v (i+1) == 1, tol := rd v (i+2), handleIx := rdNat v (i+4) == 1, subs := subs.1,
      refuse := if k == 0 then none else some (k - 1), dropped := rdNat v (i+6) == 1 } :: rdCalls v n subs.2

def fRec (r : P α × EQ.EdgeData α) : String :=
  let d := r.2
  let tail := [fx d.t0, fx d.t1, toString d.winding, toString d.fromId, toString d.toId]
  if d.isEdge then unwords (["e", fp r.1, fp d.to] ++ tail) else unwords (["p", fp r.1] ++ tail)

def fEmit : Emit α → String
  | .vertex pos recs => unwords (["v", fp pos, toString recs.length] ++ recs.map fRec)
  | .tri a b c => unwords ["t", toString a, toString b, toString c]

def fEmission (r : Emission α) : String :=
  match r.1 with
  | some (.panic _) => "call panic"
  | some (.unmodelled w) => "call unmodelled " ++ w
  | some .fuel => "call fuel"
  | some (.err k) => unwords (("call err " ++ k) :: r.2.toList.map fEmit)
  | none => unwords ("call ok" :: r.2.toList.map fEmit)

def sweepReuse (v : Array String) : String :=
  let calls : List (FillCall α) := rdCalls v (rdNat v 0) 1
  unwords ((fillObj.outputs (St.fresh : St α) calls).map fEmission)

end reuse

def families : List Family := [
  ⟨"mono_reuse", monoReuse (α := Float32), monoReuse (α := Float)⟩,
  Family.plain "chk_interp" (chkInterp (α := Float32)),
  ⟨"sweep_reuse", sweepReuse (α := Float32), sweepReuse (α := Float32)⟩ ]

end Lyon.Drive.C08

def main : IO Unit := Lyon.Drive.run Lyon.Drive.C08.families
