/-
  Model driver for C13: prints, for each `svg` / `arc` / `atan` case, the same token sequence as
  `harness/src/bin/c13.rs`, computed by the model at `Float32` / `Float`.
-/
import LyonVerif.Drive.Common
import LyonVerif.Model.Geom.SvgArcFlat

namespace Lyon.Drive.C13
open Lyon Lyon.Drive Lyon.ArcConv

variable {α : Type} [Scalar α] [Transc α] [Wire α] [ArcConv.Eps α] [FlatConst α]

def flatFuel : Nat := 100000

def fArc (a : Arc α) : String :=
  fp a.center ++ " " ++ fp a.radii ++ " " ++ fx a.start ++ " " ++ fx a.sweep ++ " " ++ fx a.xrot
def fSvg (s : SvgArc α) : String :=
  fp s.from_ ++ " " ++ fp s.to ++ " " ++ fp s.radii ++ " " ++ fx s.xrot ++ " " ++ fb s.large ++ " " ++ fb s.sweep
def fQuad (q : Quad α) : String := fp q.a ++ " " ++ fp q.c ++ " " ++ fp q.b
def fCubic (c : Cubic α) : String := fp c.a ++ " " ++ fp c.c1 ++ " " ++ fp c.c2 ++ " " ++ fp c.b

def fQuads (l : List (Quad α × α × α)) : String :=
  unwords ("quads" :: toString l.length :: l.map (fun (q, t0, t1) => fQuad q ++ " " ++ fx t0 ++ " " ++ fx t1))
def fCubics (l : List (Cubic α)) : String :=
  unwords ("cubics" :: toString l.length :: l.map fCubic)

def fFlat (l : List (FlatSeg α)) : String :=
  if l.length > flatFuel then "flat fuel" else
  unwords ("flat" :: toString l.length ::
    l.map (fun s => fp s.a ++ " " ++ fp s.b ++ " " ++ fx s.t0 ++ " " ++ fx s.t1))

def rdSvg (v : Array String) : SvgArc α :=
  { from_ := rdP v 0, to := rdP v 2, radii := rdP v 4, xrot := rd v 6,
    large := rdNat v 7 == 1, sweep := rdNat v 8 == 1 }

/-- `svg`: is_straight_line; to_arc (+ from/to, to_svg_arc); the SvgArc Bézier and flattening wrappers -/
def svg (v : Array String) : String :=
  let s : SvgArc α := rdSvg v
  let tol : α := rd v 9
  if isStraightLine s then
    unwords ["straight", "1", fQuads (svgQuadsWithT s), fCubics (svgCubics s),
      fFlat (svgFlattenedWithT s tol flatFuel)]
  else
    let a := fromSvgArc s
    if bezPanics a then "panic" else
    unwords ["straight", "0",
      "arc", fArc a,
      "fromto", fp (a.sample Scalar.zero), fp (a.sample Scalar.one),
      "back", fSvg (toSvgArc a),
      fQuads (svgQuadsWithT s), fCubics (svgCubics s),
      fFlat (svgFlattenedWithT s tol flatFuel)]

/-- `arc`: the centre-form conversions -/
def arc (v : Array String) : String :=
  let a : Arc α := ⟨rdP v 0, rdP v 2, rd v 4, rd v 5, rd v 6⟩
  let t : α := rd v 7
  if bezPanics a then "panic" else
  unwords ["svg", fSvg (toSvgArc a),
    "tan", fp (sampleTangent a t),
    fQuads (quadsWithT a), fCubics (cubics a)]

/-- `atan`: euclid's angle helpers -/
def atan (v : Array String) : String :=
  let a : P α := rdP v 0
  let b : P α := rdP v 2
  unwords ["afx", fx (angleFromXAxis a), fx (angleFromXAxis b),
    "vto", fx (vecAngleTo a b),
    "pos", fx (anglePositive a.x), fx (anglePositive b.y),
    "ato", fx (angleAngleTo a.x a.y)]

def families : List Family := [
  ⟨"svg", svg (α := Float32), svg (α := Float)⟩,
  ⟨"arc", arc (α := Float32), arc (α := Float)⟩,
  ⟨"atan", atan (α := Float32), atan (α := Float)⟩ ]

end Lyon.Drive.C13

def main : IO Unit := Lyon.Drive.run Lyon.Drive.C13.families
