/-
  Model driver for C14: for each `path` / `concat` / `buffer` / `cmds` / `polygon` case prints
  the same token sequence as `harness/src/bin/c14.rs`, computed by the model with `S := Int`
  (the harness uses integer-valued `f32` coordinates and attributes, printed as integers).

  Program syntax (tokens):  `B x y a…` `L x y a…` `Q cx cy x y a…` `C c1x c1y c2x c2y x y a…`
  `E 0|1`, terminated by `;` (`a…` = the path's number of attributes).  Command-buffer programs
  carry ids instead of coordinates.
  An out-of-storage read of the model prints `oob`.
-/
import LyonVerif.Drive.Common
import LyonVerif.Model.Path.Store
import LyonVerif.Model.Path.Buffer
import LyonVerif.Model.Path.Commands
import LyonVerif.Model.Path.Polygon
import LyonVerif.Model.Path.Adapters

namespace Lyon.Drive.C14
open Lyon Lyon.Drive Lyon.Path

abbrev Tok := Array String

def rdInt (v : Tok) (i : Nat) : Int := ((v.getD i "0").toInt?).getD 0
def rdPt (v : Tok) (i : Nat) : Pt Int := (rdInt v i, rdInt v (i + 1))
def rdInts (v : Tok) (i n : Nat) : List Int := (List.range n).map fun k => rdInt v (i + k)

/-- parse a program up to `;`; returns the program and the index after the `;` -/
partial def rdProg (v : Tok) (n : Nat) (i : Nat) (acc : List (Call (Pt Int) (List Int))) :
    List (Call (Pt Int) (List Int)) × Nat :=
  if i ≥ v.size then (acc.reverse, i)
  else
    match v[i]! with
    | "B" => rdProg v n (i + 3 + n) (.begin (rdPt v (i + 1)) (rdInts v (i + 3) n) :: acc)
    | "L" => rdProg v n (i + 3 + n) (.line (rdPt v (i + 1)) (rdInts v (i + 3) n) :: acc)
    | "Q" => rdProg v n (i + 5 + n) (.quad (rdPt v (i + 1)) (rdPt v (i + 3)) (rdInts v (i + 5) n) :: acc)
    | "C" =>
      rdProg v n (i + 7 + n)
        (.cubic (rdPt v (i + 1)) (rdPt v (i + 3)) (rdPt v (i + 5)) (rdInts v (i + 7) n) :: acc)
    | "E" => rdProg v n (i + 2) (.end_ (rdNat v (i + 1) == 1) :: acc)
    | _ => (acc.reverse, i + 1)

/-- parse an id program (command buffers) -/
partial def rdIdProg (v : Tok) (i : Nat) (acc : List (Call Nat Unit)) : List (Call Nat Unit) × Nat :=
  if i ≥ v.size then (acc.reverse, i)
  else
    match v[i]! with
    | "B" => rdIdProg v (i + 2) (.begin (rdNat v (i + 1)) () :: acc)
    | "L" => rdIdProg v (i + 2) (.line (rdNat v (i + 1)) () :: acc)
    | "Q" => rdIdProg v (i + 3) (.quad (rdNat v (i + 1)) (rdNat v (i + 2)) () :: acc)
    | "C" => rdIdProg v (i + 4) (.cubic (rdNat v (i + 1)) (rdNat v (i + 2)) (rdNat v (i + 3)) () :: acc)
    | "E" => rdIdProg v (i + 2) (.end_ (rdNat v (i + 1) == 1) :: acc)
    | _ => (acc.reverse, i + 1)

/-! printing -/

def sInt (x : Int) : String := toString x
def sPt (p : Pt Int) : String := sInt p.1 ++ " " ++ sInt p.2
def sAPt (p : APt Int) : String := unwords (sPt p.1 :: p.2.map sInt)
def sNat (n : Nat) : String := toString n

def sEvent {π : Type} (f : π → String) : Event π → String
  | .begin a => unwords ["B", f a]
  | .line a b => unwords ["L", f a, f b]
  | .quad a c b => unwords ["Q", f a, f c, f b]
  | .cubic a c d b => unwords ["C", f a, f c, f d, f b]
  | .end_ l fst cl => unwords ["E", f l, f fst, fb cl]

def sEvents {π : Type} (f : π → String) (l : List (Event π)) : String :=
  unwords (l.map (sEvent f))

def sOpt {α : Type} (f : α → String) : Option α → String
  | none => "oob"
  | some x => f x

/-- join, dropping empty pieces (an empty event list prints nothing) -/
def join (l : List String) : String := unwords (l.filter (· ≠ ""))

def sEndpoint : Option (Option (APt Int)) → String
  | none => "oob"
  | some none => "none"
  | some (some p) => "some " ++ sAPt p

/-- all views of one stored path -/
def views (p : PathData Int) : List String :=
  let ids := p.idIter
  [ "iter", sOpt (sEvents sPt) p.iter,
    "idit", sEvents sNat ids,
    "attr", sOpt (sEvents sAPt) p.iterWithAttributes,
    "res", sOpt (sEvents sPt) (resolveAll p.point p.point ids),
    "resa", sOpt (sEvents sAPt) (resolveAll p.endpointA p.ctrlA ids) ]

def reversedViews (p : PathData Int) : List String :=
  [ "rev", sOpt (sEvents sAPt) p.reversedWithAttributes,
    "revp", sOpt (sEvents sPt) p.reversed,
    "rev2", sOpt (sEvents sAPt) (p.reversedIntoPath.bind fun q => q.reversedWithAttributes),
    "first", sEndpoint p.firstEndpoint,
    "last", sEndpoint p.lastEndpoint ]

/-- `plain` → `Path::builder()`, otherwise `Path::builder_with_attributes(n)` -/
def buildKind (kind : String) (n : Nat) (prog : List (Call (Pt Int) (List Int))) :
    Option (PathData Int × List Nat) :=
  if kind == "plain" then
    let r := (BuilderImpl.new (S := Int)).run prog
    some (r.1.build, r.2)
  else
    ((BuilderWithAttributes.new (S := Int) n).run prog).map fun r => (r.1.build, r.2)

/-- `path.as_slice()` views and the views of `path.transformed(&Translation(dx, dy))`
(`Adapt.applyTransform`, the C16 model of `apply_transform`); `none` = an index of the
`apply_transform` walk is outside the storage (Rust: the case panics) -/
def sliceAndTransformedViews (p : PathData Int) (dx dy : Int) : Option (List String) :=
  (Adapt.applyTransform (fun pt => (pt.1 + dx, pt.2 + dy)) p).map fun q =>
    [ "slice", sOpt (sEvents sAPt) (p.asSlice.bind PathData.iterWithAttributes),
      "xf", sOpt (sEvents sPt) q.iter,
      "xfa", sOpt (sEvents sAPt) q.iterWithAttributes,
      "xflast", sEndpoint q.lastEndpoint ]

def path (v : Tok) : String :=
  let kind := v.getD 0 ""
  let n := rdNat v 1
  let dx := rdInt v 2
  let dy := rdInt v 3
  let (prog, _) := rdProg v n 4 []
  match buildKind kind n prog with
  | none => "panic"
  | some (p, ids) =>
    match sliceAndTransformedViews p dx dy with
    | none => "panic"
    | some xv => join (["ids", unwords (ids.map sNat)] ++ views p ++ reversedViews p ++ xv)

partial def rdProgs (v : Tok) (n : Nat) (k : Nat) (i : Nat) (acc : List (List (Call (Pt Int) (List Int)))) :
    List (List (Call (Pt Int) (List Int))) × Nat :=
  if k = 0 then (acc.reverse, i)
  else
    let (p, j) := rdProg v n i []
    rdProgs v n (k - 1) j (p :: acc)

def concat (v : Tok) : String :=
  let kind := v.getD 0 ""
  let n := rdNat v 1
  let k := rdNat v 2
  let (prog0, i0) := rdProg v n 3 []
  let (progs, i1) := rdProgs v n k i0 []
  let (progLast, _) := rdProg v n i1 []
  let parts := progs.map fun pr => (buildKind kind n pr).map (·.1)
  if parts.any (·.isNone) then "panic"
  else
    let paths := parts.filterMap id
    let res : Option (PathData Int) :=
      if kind == "plain" then
        let b0 := ((BuilderImpl.new (S := Int)).run prog0).1
        (b0.extendFromPaths paths).map fun b1 => (b1.run progLast).1.build
      else
        ((BuilderWithAttributes.new (S := Int) n).run prog0).bind fun r0 =>
          (r0.1.extendFromPaths paths).bind fun b1 => (b1.run progLast).map fun r => r.1.build
    match res with
    | none => "panic"
    | some p => join (views p)

partial def bufferGo (v : Tok) (k : Nat) (i : Nat) (b : PathBuffer Int) (acc : List String) :
    Option (PathBuffer Int × List String) :=
  if k = 0 then some (b, acc)
  else
    let kind := v.getD i ""
    let n := rdNat v (i + 1)
    let (prog, j) := rdProg v n (i + 2) []
    let r := if kind == "plain" then b.addPlain prog else b.addWithAttributes n prog
    match r with
    | none => none
    | some (b', ids, idx) =>
      bufferGo v (k - 1) j b' (acc ++ ["add", sNat idx, "ids", unwords (ids.map sNat)])

def buffer (v : Tok) : String :=
  let k := rdNat v 0
  match bufferGo v k 1 PathBuffer.new [] with
  | none => "panic"
  | some (b, adds) =>
    let gets := (List.range k).flatMap fun i =>
      match b.get i with
      | none => ["get", sNat i, "oob"]
      | some p => ["get", sNat i, "na", sNat p.numAttributes] ++ views p
    join (adds ++ ["len", sNat b.paths.length] ++ gets)

def rdPts (v : Tok) (i n : Nat) : List (Pt Int) := (List.range n).map fun k => rdPt v (i + 2 * k)

def cmds (v : Tok) : String :=
  let ne := rdNat v 0
  let eps := rdPts v 1 ne
  let i := 1 + 2 * ne
  let nc := rdNat v i
  let cps := rdPts v (i + 1) nc
  let (prog, _) := rdIdProg v (i + 1 + 2 * nc) []
  let (c, evids) := Cmd.build prog
  let walk := if c.isEmpty then some [] else Cmd.walkIds c c.length 0
  join [ "evids", unwords (evids.map sNat),
         "iter", sOpt (sEvents sNat) (Cmd.iter c),
         "events", sOpt (sEvents sPt) (Cmd.events c eps cps),
         "pevents", sOpt (sEvents sPt) (Cmd.events c eps cps),
         "walk", sOpt (fun ids => unwords (ids.map sNat)) walk,
         "byid", sOpt (sEvents sNat) (Cmd.eventsByWalk c),
         "sub", sOpt (fun ids => unwords (ids.map fun i => sOpt sNat (Cmd.nextEventIdInSubPath c i))) walk ]

def polygon (v : Tok) : String :=
  let closed := rdNat v 0 == 1
  let np := rdNat v 1
  let pts := rdPts v 2 np
  let i := 2 + 2 * np
  let ni := rdNat v i
  let ids := (List.range ni).map fun k => rdNat v (i + 1 + k)
  let evAt {π : Type} (f : π → String) (e : Option (Event π)) : String :=
    match e with
    | none => "panic"
    | some e => sEvent f e
  join [ "iter", sOpt (sEvents sPt) (Poly.iter pts closed),
         "idit", sOpt (sEvents sNat) (Poly.idIter np closed),
         "pe", sOpt (sEvents sPt) (Poly.iter pts closed),
         "ev", unwords ((List.range (np + 2)).map fun k => evAt sPt (Poly.polygonEvent pts closed k)),
         "iditer", sOpt (sEvents sNat) (Poly.iter ids closed),
         "idev", unwords ((List.range (ni + 2)).map fun k => evAt sNat (Poly.idPolygonEvent ids closed k)),
         "fp", sEvents sPt (Poly.fromPolyline (0, 0) closed pts) ]

def families : List Family := [
  Family.plain "path" path,
  Family.plain "concat" concat,
  Family.plain "buffer" buffer,
  Family.plain "cmds" cmds,
  Family.plain "polygon" polygon ]

end Lyon.Drive.C14

def main : IO Unit := Lyon.Drive.run Lyon.Drive.C14.families
