/-
  Model driver for C19.  Families (all at f32 — lyon_algorithms is f32 only):

  `sampler <nattr> <normalized> <ncmds> <cmds…> <nq> <queries…>`
      cmds:    `B x y a…` | `L x y a…` | `E close`
      queries: `S d` | `R a b`
      output:  `len <length> alen <approximate_length> edges <n>` then per query
               `S x y tx ty a…` | `S panic` | `R <ncalls> (B x y a… | L x y a… | E c)…` | `R panic`
               (the sequence stops after a panic)
  `curved <tol> <nattr> <normalized> <ncmds> <cmds…> <nq> <queries…>`  (cmds also `Q cx cy x y a…`,
      `C c1x c1y c2x c2y x y a…`; calls in `R` likewise)
      output:  as above (`alen` = `approximate_length(path, tol)`: closed form for quadratics,
               quadratic approximation for cubics)
  `walk <nattr> <start> <cap> (reg <interval> | rep <index> <n> <i…>) <ncmds> <cmds…>`
  `curved_walk <tol> <nattr> …` (the same with curves)
      output:  `n <events>` then per event `x y tx ty distance a…`; `fuel` appended if the model's
               loop bound was hit.  `nattr = 0`: `walk_along_path`; `nattr > 0`: the same loop over
               `PathWalker::with_attributes`.

  HISTORIES (optional trailing arguments, every family):
  `H <k> <step>{k} <entry> <sattr>`   the life of the ONE `PathMeasurements` object the case measures
      with.  step = `<entry> <tol> <nattr> <sattr> <normalized> <ncmds> <cmds…> <nq> <queries…>`: the
      object is (re-)initialised with that path through `entry` and a sampler (with attributes iff
      `sattr`) runs the queries; output per step `h len … alen … edges … <query outputs>`.  Then the
      case's own path is measured on the SAME object through the final `entry`
      (`fp|fs|fi|ei|ep|es`: from_path, from_path_slice, from_iter, empty()+initialize,
      empty()+initialize_with_path, empty()+initialize_with_path_slice — a new object;
      `in|ip|is`: initialize, initialize_with_path, initialize_with_path_slice on the used one).
      The model runs `PM.initialize` on the used object (`Model/Algo/MeasureInit.lean`).
      sampler families: the steps' output comes first; walk families: after the events, followed by
      `mlen <length>` (the measured length of the walked path on the recycled object).
  `P <start> <cap> <ncmds> <cmds…>`   (walk families, before `H`) an earlier walk along another path
      with the SAME pattern object (`RepeatedPattern::index` survives); output `pre <events>` first.
-/
import LyonVerif.Drive.Common
import LyonVerif.Model.Algo.Measure
import LyonVerif.Model.Algo.MeasureInit
import LyonVerif.Model.Algo.Walk

namespace Lyon.Drive.C19
open Lyon Lyon.Drive Lyon.Measure

variable {α : Type} [Scalar α] [Transc α] [Wire α] [FlatConst α]

def rdList (v : Array String) (i n : Nat) : List α := (List.range n).map (fun k => rd v (i + k))

/-- parse `n` commands with `nattr` attributes each starting at token `i`; returns next index -/
def rdCmds (v : Array String) (nattr : Nat) : Nat → Nat → List (Cmd α) × Nat
  | 0, i => ([], i)
  | n+1, i =>
    match v.getD i "" with
    | "B" =>
      let r := rdCmds v nattr n (i + 3 + nattr)
      (.begin (rdP v (i+1)) (rdList v (i+3) nattr) :: r.1, r.2)
    | "L" =>
      let r := rdCmds v nattr n (i + 3 + nattr)
      (.line (rdP v (i+1)) (rdList v (i+3) nattr) :: r.1, r.2)
    | "Q" =>
      let r := rdCmds v nattr n (i + 5 + nattr)
      (.quad (rdP v (i+1)) (rdP v (i+3)) (rdList v (i+5) nattr) :: r.1, r.2)
    | "C" =>
      let r := rdCmds v nattr n (i + 7 + nattr)
      (.cubic (rdP v (i+1)) (rdP v (i+3)) (rdP v (i+5)) (rdList v (i+7) nattr) :: r.1, r.2)
    | _ =>
      let r := rdCmds v nattr n (i + 2)
      (.end_ (v.getD (i+1) "0" == "1") :: r.1, r.2)

def rdQueries (v : Array String) : Nat → Nat → List (Query α)
  | 0, _ => []
  | n+1, i =>
    match v.getD i "" with
    | "S" => .sample (rd v (i+1)) :: rdQueries v n (i + 2)
    | _ => .split (rd v (i+1)) (rd v (i+2)) :: rdQueries v n (i + 3)

/-- index after `n` queries starting at token `i` -/
def skipQueries (v : Array String) : Nat → Nat → Nat
  | 0, i => i
  | n+1, i => if v.getD i "" == "S" then skipQueries v n (i + 2) else skipQueries v n (i + 3)

def fList (l : List α) : List String := l.map fx

def fCall : Measure.Call α → List String
  | .begin p a => ["B", fp p] ++ fList a
  | .line p a => ["L", fp p] ++ fList a
  | .quad c p a => ["Q", fp c, fp p] ++ fList a
  | .cubic c1 c2 p a => ["C", fp c1, fp c2, fp p] ++ fList a
  | .end_ c => ["E", fb c]

def fOutput : Output α → List String
  | .sample (.ok pos tan attrs) => ["S", fp pos, fp tan] ++ fList attrs
  | .sample .panic => ["S", "panic"]
  | .split (.ok calls) => ["R", toString calls.length] ++ (calls.map fCall).flatten
  | .split .panic => ["R", "panic"]

/-! ### the life of one `PathMeasurements` object -/

/-- one phase: (re-)initialise through `entry`, then one sampler runs `qs` -/
structure Phase (α : Type) where
  entry : String
  tol : α
  nattr : Nat
  sattr : Bool
  normalized : Bool
  cmds : List (Cmd α)
  qs : List (Query α)

def rdPhase (v : Array String) (i : Nat) : Phase α × Nat :=
  let nattr := rdNat v (i + 2)
  let ncmds := rdNat v (i + 5)
  let (cmds, j) := rdCmds (α := α) v nattr ncmds (i + 6)
  let nq := rdNat v j
  (⟨v.getD i "", rd v (i + 1), nattr, v.getD (i + 3) "0" == "1", v.getD (i + 4) "0" == "1", cmds,
    rdQueries v nq (j + 1)⟩, skipQueries v nq (j + 1))

def rdPhases (v : Array String) : Nat → Nat → List (Phase α) × Nat
  | 0, i => ([], i)
  | n+1, i =>
    let (p, j) := rdPhase (α := α) v i
    let r := rdPhases v n j
    (p :: r.1, r.2)

/-- `H <k> <step>{k} <entry> <sattr>` at token `i`, or no history: a fresh `from_path` object and a
sampler with attributes -/
def rdHistory (v : Array String) (i : Nat) : List (Phase α) × String × Bool :=
  if v.getD i "" == "H" then
    let (ps, j) := rdPhases (α := α) v (rdNat v (i + 1)) (i + 2)
    (ps, v.getD j "fp", v.getD (j + 1) "1" == "1")
  else ([], "fp", true)

/-- constructors (`from_*`, or `empty()` followed by an `initialize*`): a NEW object -/
def isCtor (e : String) : Bool :=
  e == "fp" || e == "fs" || e == "fi" || e == "ei" || e == "ep" || e == "es"

/-- the object after `entry` (every entry point ends in `initialize(path.id_iter(), &path, tol)`) -/
def obtain (pm : PM α) (entry : String) (tol : α) (cmds : List (Cmd α)) : PM α :=
  if isCtor entry then PM.fromPath tol cmds else pm.initializeWithPath tol cmds

/-- `len … alen … edges …` + the outputs of a query sequence on one sampler of `pm`; and whether
the sequence ended in a panic -/
def phaseOut (pm : PM α) (tol : α) (nattr : Nat) (sattr normalized : Bool) (qs : List (Query α)) :
    List String × Bool :=
  let m : M α := pm.sampler nattr sattr
  let outs := Measure.run m normalized 0 qs
  (["len", fx (Measure.length m.edges), "alen", fx (approxLength tol pm.events),
    "edges", toString m.edges.length] ++ (outs.map fOutput).flatten, outs.any Output.isPanic)

/-- run the history phases on one object: output, the object afterwards, panicked -/
def runPhases : PM α → List (Phase α) → List String × PM α × Bool
  | pm, [] => ([], pm, false)
  | pm, p :: r =>
    let pm1 := obtain pm p.entry p.tol p.cmds
    let (o, pan) := phaseOut pm1 p.tol p.nattr p.sattr p.normalized p.qs
    if pan then ("h" :: o, pm1, true)
    else
      let rest := runPhases pm1 r
      ("h" :: o ++ rest.1, rest.2.1, rest.2.2)

/-- `o` = offset of the common arguments (1 for `curved`, whose first argument is the tolerance) -/
def samplerAt (curved : Bool) (v : Array String) : String :=
  let o := if curved then 1 else 0
  let tol : α := if curved then rd v 0 else Scalar.ofSci 1 2
  let nattr := rdNat v o
  let normalized := v.getD (o + 1) "0" == "1"
  let ncmds := rdNat v (o + 2)
  let (cmds, i) := rdCmds (α := α) v nattr ncmds (o + 3)
  let nq := rdNat v i
  let qs : List (Query α) := rdQueries v nq (i + 1)
  let (phases, entry, sattr) := rdHistory (α := α) v (skipQueries v nq (i + 1))
  let (ho, pm0, pan) := runPhases PM.empty phases
  if pan then unwords ho
  else
    let pm := obtain pm0 entry tol cmds
    unwords (ho ++ (phaseOut pm tol nattr sattr normalized qs).1)

def sampler (v : Array String) : String := samplerAt (α := α) false v
def curved (v : Array String) : String := samplerAt (α := α) true v

def toPEv : Cmd α → Walk.PEv α
  | .begin p a => .begin p a
  | .line p a => .line p a
  | .quad c p a => .quad c p a
  | .cubic c1 c2 p a => .cubic c1 c2 p a
  | .end_ c => .end_ c

def walkFuel : Nat := 200000

/-- `o` = offset of the common arguments (1 for `curved_walk`, whose first argument is the tolerance;
the `walk` family uses tolerance 0.1, irrelevant for polylines) -/
def walkAt (curved : Bool) (v : Array String) : String :=
  let o := if curved then 1 else 0
  let tol : α := if curved then rd v 0 else Scalar.ofSci 1 1
  let nattr := rdNat v o
  let start : α := rd v (o + 1)
  let cap := rdNat v (o + 2)
  let (pat, i) : Walk.Pat α × Nat :=
    if v.getD (o + 3) "" == "reg" then (Walk.regular (rd v (o + 4)) cap, o + 5)
    else (Walk.repeated (rdList v (o + 6) (rdNat v (o + 5))) (rdNat v (o + 4)) cap, o + 6 + rdNat v (o + 5))
  let ncmds := rdNat v i
  let (cmds, j) := rdCmds (α := α) v nattr ncmds (i + 1)
  -- an earlier walk with the same pattern object: `RepeatedPattern::index` has advanced by the
  -- number of callbacks that returned `true` (the callback's own counter starts again)
  let hasPre := v.getD j "" == "P"
  let (pre, j2) : List (Cmd α) × Nat :=
    if hasPre then rdCmds (α := α) v nattr (rdNat v (j + 3)) (j + 4) else ([], j)
  let cap0 := rdNat v (j + 2)
  let pat0 : Walk.Pat α :=
    if v.getD (o + 3) "" == "reg" then Walk.regular (rd v (o + 4)) cap0
    else Walk.repeated (rdList v (o + 6) (rdNat v (o + 5))) (rdNat v (o + 4)) cap0
  let (evs0, fuel0) := Walk.walk pat0 walkFuel nattr tol (rd v (j + 1)) (pre.map toPEv)
  let pat1 : Walk.Pat α :=
    if !hasPre || v.getD (o + 3) "" == "reg" then pat
    else Walk.repeated (rdList v (o + 6) (rdNat v (o + 5))) (rdNat v (o + 4) + min evs0.length cap0) cap
  let (evs, fuelOut) := Walk.walk pat1 walkFuel nattr tol start (cmds.map toPEv)
  let hasHist := v.getD j2 "" == "H"
  let (phases, entry, _) := rdHistory (α := α) v j2
  let (ho, pm0, pan) := runPhases PM.empty phases
  unwords ((if hasPre then ["pre", toString evs0.length] ++ (if fuel0 then ["fuel"] else []) else [])
    ++ ["n", toString evs.length]
    ++ (evs.map (fun e => [fp e.position, fp e.tangent, fx e.distance] ++ fList e.attributes)).flatten
    ++ (if fuelOut then ["fuel"] else [])
    ++ (if hasHist then ho ++ (if pan then [] else ["mlen", fx (obtain pm0 entry tol cmds).length]) else []))

def walk (v : Array String) : String := walkAt (α := α) false v
def curvedWalk (v : Array String) : String := walkAt (α := α) true v

def fams : List Family := [
  ⟨"sampler", sampler (α := Float32), sampler (α := Float32)⟩,
  ⟨"curved", curved (α := Float32), curved (α := Float32)⟩,
  ⟨"walk", walk (α := Float32), walk (α := Float32)⟩,
  ⟨"curved_walk", curvedWalk (α := Float32), curvedWalk (α := Float32)⟩ ]

end Lyon.Drive.C19

def main : IO Unit := Lyon.Drive.run Lyon.Drive.C19.fams
