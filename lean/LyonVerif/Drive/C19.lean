/-
  Model driver for C19.  Families (all at f32 — lyon_algorithms is f32 only):

  `sampler <nattr> <normalized> <ncmds> <cmds…> <nq> <queries…>`
      cmds:    `B x y a…` | `L x y a…` | `E close`
      queries: `S d` | `R a b`
      output:  `len <length> alen <approximate_length> edges <n>` then per query
               `S x y tx ty a…` | `S panic` | `R <ncalls> (B x y a… | L x y a… | E c)…` | `R panic`
               (the sequence stops after a panic)
  `walk <start> <cap> (reg <interval> | rep <index> <n> <i…>) <ncmds> <cmds…>`  (cmds without attributes)
      output:  `n <events>` then per event `x y tx ty distance`; `fuel` appended if the model's
               loop bound was hit.
-/
import LyonVerif.Drive.Common
import LyonVerif.Model.Algo.Measure
import LyonVerif.Model.Algo.Walk

namespace Lyon.Drive.C19
open Lyon Lyon.Drive Lyon.Measure

variable {α : Type} [Scalar α] [Transc α] [Wire α]

def rdList (v : Array String) (i n : Nat) : List α := (List.range n).map (fun k => rd v (i + k))

/-- parse `n` commands with `nattr` attributes each starting at token `i`; returns next index -/
def rdCmds (v : Array String) (nattr : Nat) : Nat → Nat → List (Cmd α) × Nat
  | 0, i => ([], i)
  | n+1, i =>
    match v.getD i "" with
    | "B" =>
      let r := rdCmds v nattr n (i + 3 + nattr)
      (.begin (rdP v (i+1)) (rdList v (i+3) nattr) :: r.1, r.2)
    | "L" =>
      let r := rdCmds v nattr n (i + 3 + nattr)
      (.line (rdP v (i+1)) (rdList v (i+3) nattr) :: r.1, r.2)
    | _ =>
      let r := rdCmds v nattr n (i + 2)
      (.end_ (v.getD (i+1) "0" == "1") :: r.1, r.2)

def rdQueries (v : Array String) : Nat → Nat → List (Query α)
  | 0, _ => []
  | n+1, i =>
    match v.getD i "" with
    | "S" => .sample (rd v (i+1)) :: rdQueries v n (i + 2)
    | _ => .split (rd v (i+1)) (rd v (i+2)) :: rdQueries v n (i + 3)

def fList (l : List α) : List String := l.map fx

def fCall : Measure.Call α → List String
  | .begin p a => ["B", fp p] ++ fList a
  | .line p a => ["L", fp p] ++ fList a
  | .end_ c => ["E", fb c]
  | _ => ["?"]

def fOutput : Output α → List String
  | .sample (.ok pos tan attrs) => ["S", fp pos, fp tan] ++ fList attrs
  | .sample .panic => ["S", "panic"]
  | .split (.ok calls) => ["R", toString calls.length] ++ (calls.map fCall).flatten
  | .split .panic => ["R", "panic"]

def sampler (v : Array String) : String :=
  let nattr := rdNat v 0
  let normalized := v.getD 1 "0" == "1"
  let ncmds := rdNat v 2
  let (cmds, i) := rdCmds (α := α) v nattr ncmds 3
  let nq := rdNat v i
  let qs : List (Query α) := rdQueries v nq (i + 1)
  let m : M α := Measure.mk nattr cmds
  let outs := Measure.run m normalized 0 qs
  unwords (["len", fx (Measure.length m.edges), "alen", fx (approxLength m.evs),
            "edges", toString m.edges.length] ++ (outs.map fOutput).flatten)

def toPEv : Cmd α → Walk.PEv α
  | .begin p _ => .begin p
  | .line p _ => .line p
  | .end_ c => .end_ c

def walkFuel : Nat := 200000

def walk (v : Array String) : String :=
  let start : α := rd v 0
  let cap := rdNat v 1
  let (pat, i) : Walk.Pat α × Nat :=
    if v.getD 2 "" == "reg" then (Walk.regular (rd v 3) cap, 4)
    else (Walk.repeated (rdList v 5 (rdNat v 4)) (rdNat v 3) cap, 5 + rdNat v 4)
  let ncmds := rdNat v i
  let (cmds, _) := rdCmds (α := α) v 0 ncmds (i + 1)
  let (evs, fuelOut) := Walk.walk pat walkFuel start (cmds.map toPEv)
  unwords (["n", toString evs.length]
    ++ (evs.map (fun e => [fp e.position, fp e.tangent, fx e.distance])).flatten
    ++ (if fuelOut then ["fuel"] else []))

def fams : List Family := [
  ⟨"sampler", sampler (α := Float32), sampler (α := Float32)⟩,
  ⟨"walk", walk (α := Float32), walk (α := Float32)⟩ ]

end Lyon.Drive.C19

def main : IO Unit := Lyon.Drive.run Lyon.Drive.C19.fams
