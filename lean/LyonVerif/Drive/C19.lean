/-
  Model driver for C19.  Families (all at f32 — lyon_algorithms is f32 only):

  `sampler <nattr> <normalized> <ncmds> <cmds…> <nq> <queries…>`
      cmds:    `B x y a…` | `L x y a…` | `E close`
      queries: `S d` | `R a b`
      output:  `len <length> alen <approximate_length> edges <n>` then per query
               `S x y tx ty a…` | `S panic` | `R <ncalls> (B x y a… | L x y a… | E c)…` | `R panic`
               (the sequence stops after a panic)
  `curved <tol> <nattr> <normalized> <ncmds> <cmds…> <nq> <queries…>`  (cmds also `Q cx cy x y a…`,
      `C c1x c1y c2x c2y x y a…`; calls in `R` likewise)
      output:  as above (`alen` = `approximate_length(path, tol)`: closed form for quadratics,
               quadratic approximation for cubics)
  `walk <nattr> <start> <cap> (reg <interval> | rep <index> <n> <i…>) <ncmds> <cmds…>`
  `curved_walk <tol> <nattr> …` (the same with curves)
      output:  `n <events>` then per event `x y tx ty distance a…`; `fuel` appended if the model's
               loop bound was hit.  `nattr = 0`: `walk_along_path`; `nattr > 0`: the same loop over
               `PathWalker::with_attributes`.
-/
import LyonVerif.Drive.Common
import LyonVerif.Model.Algo.Measure
import LyonVerif.Model.Algo.Walk

namespace Lyon.Drive.C19
open Lyon Lyon.Drive Lyon.Measure

variable {α : Type} [Scalar α] [Transc α] [Wire α] [FlatConst α]

def rdList (v : Array String) (i n : Nat) : List α := (List.range n).map (fun k => rd v (i + k))

/-- parse `n` commands with `nattr` attributes each starting at token `i`; returns next index -/
def rdCmds (v : Array String) (nattr : Nat) : Nat → Nat → List (Cmd α) × Nat
  | 0, i => ([], i)
  | n+1, i =>
    match v.getD i "" with
    | "B" =>
      let r := rdCmds v nattr n (i + 3 + nattr)
      (.begin (rdP v (i+1)) (rdList v (i+3) nattr) :: r.1, r.2)
    | "L" =>
      let r := rdCmds v nattr n (i + 3 + nattr)
      (.line (rdP v (i+1)) (rdList v (i+3) nattr) :: r.1, r.2)
    | "Q" =>
      let r := rdCmds v nattr n (i + 5 + nattr)
      (.quad (rdP v (i+1)) (rdP v (i+3)) (rdList v (i+5) nattr) :: r.1, r.2)
    | "C" =>
      let r := rdCmds v nattr n (i + 7 + nattr)
      (.cubic (rdP v (i+1)) (rdP v (i+3)) (rdP v (i+5)) (rdList v (i+7) nattr) :: r.1, r.2)
    | _ =>
      let r := rdCmds v nattr n (i + 2)
      (.end_ (v.getD (i+1) "0" == "1") :: r.1, r.2)

def rdQueries (v : Array String) : Nat → Nat → List (Query α)
  | 0, _ => []
  | n+1, i =>
    match v.getD i "" with
    | "S" => .sample (rd v (i+1)) :: rdQueries v n (i + 2)
    | _ => .split (rd v (i+1)) (rd v (i+2)) :: rdQueries v n (i + 3)

def fList (l : List α) : List String := l.map fx

def fCall : Measure.Call α → List String
  | .begin p a => ["B", fp p] ++ fList a
  | .line p a => ["L", fp p] ++ fList a
  | .quad c p a => ["Q", fp c, fp p] ++ fList a
  | .cubic c1 c2 p a => ["C", fp c1, fp c2, fp p] ++ fList a
  | .end_ c => ["E", fb c]

def fOutput : Output α → List String
  | .sample (.ok pos tan attrs) => ["S", fp pos, fp tan] ++ fList attrs
  | .sample .panic => ["S", "panic"]
  | .split (.ok calls) => ["R", toString calls.length] ++ (calls.map fCall).flatten
  | .split .panic => ["R", "panic"]

/-- `o` = offset of the common arguments (1 for `curved`, whose first argument is the tolerance) -/
def samplerAt (curved : Bool) (v : Array String) : String :=
  let o := if curved then 1 else 0
  let tol : α := if curved then rd v 0 else Scalar.ofSci 1 2
  let nattr := rdNat v o
  let normalized := v.getD (o + 1) "0" == "1"
  let ncmds := rdNat v (o + 2)
  let (cmds, i) := rdCmds (α := α) v nattr ncmds (o + 3)
  let nq := rdNat v i
  let qs : List (Query α) := rdQueries v nq (i + 1)
  let m : M α := Measure.mk nattr tol cmds
  let outs := Measure.run m normalized 0 qs
  unwords (["len", fx (Measure.length m.edges), "alen", fx (approxLength tol m.evs),
            "edges", toString m.edges.length] ++ (outs.map fOutput).flatten)

def sampler (v : Array String) : String := samplerAt (α := α) false v
def curved (v : Array String) : String := samplerAt (α := α) true v

def toPEv : Cmd α → Walk.PEv α
  | .begin p a => .begin p a
  | .line p a => .line p a
  | .quad c p a => .quad c p a
  | .cubic c1 c2 p a => .cubic c1 c2 p a
  | .end_ c => .end_ c

def walkFuel : Nat := 200000

/-- `o` = offset of the common arguments (1 for `curved_walk`, whose first argument is the tolerance;
the `walk` family uses tolerance 0.1, irrelevant for polylines) -/
def walkAt (curved : Bool) (v : Array String) : String :=
  let o := if curved then 1 else 0
  let tol : α := if curved then rd v 0 else Scalar.ofSci 1 1
  let nattr := rdNat v o
  let start : α := rd v (o + 1)
  let cap := rdNat v (o + 2)
  let (pat, i) : Walk.Pat α × Nat :=
    if v.getD (o + 3) "" == "reg" then (Walk.regular (rd v (o + 4)) cap, o + 5)
    else (Walk.repeated (rdList v (o + 6) (rdNat v (o + 5))) (rdNat v (o + 4)) cap, o + 6 + rdNat v (o + 5))
  let ncmds := rdNat v i
  let (cmds, _) := rdCmds (α := α) v nattr ncmds (i + 1)
  let (evs, fuelOut) := Walk.walk pat walkFuel nattr tol start (cmds.map toPEv)
  unwords (["n", toString evs.length]
    ++ (evs.map (fun e => [fp e.position, fp e.tangent, fx e.distance] ++ fList e.attributes)).flatten
    ++ (if fuelOut then ["fuel"] else []))

def walk (v : Array String) : String := walkAt (α := α) false v
def curvedWalk (v : Array String) : String := walkAt (α := α) true v

def fams : List Family := [
  ⟨"sampler", sampler (α := Float32), sampler (α := Float32)⟩,
  ⟨"curved", curved (α := Float32), curved (α := Float32)⟩,
  ⟨"walk", walk (α := Float32), walk (α := Float32)⟩,
  ⟨"curved_walk", curvedWalk (α := Float32), curvedWalk (α := Float32)⟩ ]

end Lyon.Drive.C19

def main : IO Unit := Lyon.Drive.run Lyon.Drive.C19.fams
