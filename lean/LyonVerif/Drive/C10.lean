/-
  Model driver for C10: prints, for each `seg`/`quad`/`cubic`/`arc` case, the same token
  sequence as `harness/src/bin/c10.rs` computed by the model at `Float32` / `Float`.
-/
import LyonVerif.Drive.Common
import LyonVerif.Model.Geom.Basic
import LyonVerif.Model.Geom.Length

namespace Lyon.Drive.C10
open Lyon Lyon.Drive

variable {α : Type} [Scalar α] [Transc α] [FlatConst α] [Wire α]

structure Params (α : Type) where
  t : α
  u : α
  a : α
  b : α
  xf : Xf α

def rdParams (v : Array String) (i : Nat) : Params α :=
  { t := rd v i, u := rd v (i+1), a := rd v (i+2), b := rd v (i+3),
    xf := ⟨rd v (i+4), rd v (i+5), rd v (i+6), rd v (i+7), rd v (i+8), rd v (i+9)⟩ }

def fSeg (s : Seg α) : String := fp s.a ++ " " ++ fp s.b
def fQuad (q : Quad α) : String := fp q.a ++ " " ++ fp q.c ++ " " ++ fp q.b
def fCubic (c : Cubic α) : String := fp c.a ++ " " ++ fp c.c1 ++ " " ++ fp c.c2 ++ " " ++ fp c.b
def fArc (a : Arc α) : String :=
  fp a.center ++ " " ++ fp a.radii ++ " " ++ fx a.start ++ " " ++ fx a.sweep ++ " " ++ fx a.xrot

def seg (v : Array String) : String :=
  let s : Seg α := ⟨rdP v 0, rdP v 2⟩
  let p : Params α := rdParams v 4
  let sp := s.split p.t
  unwords [
    "sample", fp (s.sample p.t),
    "xy", fx (s.x p.t), fx (s.y p.t),
    "flip", fSeg s.flip,
    "range", fSeg (s.splitRange p.a p.b),
    "split", fSeg sp.1, fSeg sp.2,
    "before", fSeg (s.beforeSplit p.t),
    "after", fSeg (s.afterSplit p.t),
    "xf", fSeg (s.transformed p.xf),
    "len", fx s.length, fx s.sqLength,
    "vec", fp s.toVector,
    "solve", fx (s.solveTForX p.u), fx (s.solveTForY p.u),
    "tr_sample", fp (s.sample p.t),
    "tr_xy", fx (s.x p.t), fx (s.y p.t),
    "tr_d", fp s.toVector, fx s.toVector.x, fx s.toVector.y,
    "tr_split", fSeg sp.1, fSeg sp.2,
    "tr_before", fSeg (s.beforeSplit p.t),
    "tr_after", fSeg (s.afterSplit p.t),
    "tr_range", fSeg (s.splitRange p.a p.b),
    "tr_flip", fSeg s.flip,
    "tr_len", fx (s.approximateLength (rd v 14 : α)) ]

def quad (v : Array String) : String :=
  let s : Quad α := ⟨rdP v 0, rdP v 2, rdP v 4⟩
  let p : Params α := rdParams v 6
  let sp := s.split p.t
  unwords [
    "sample", fp (s.sample p.t),
    "xy", fx (s.x p.t), fx (s.y p.t),
    "d", fp (s.derivative p.t), fx (s.dx p.t), fx (s.dy p.t),
    "flip", fQuad s.flip,
    "range", fQuad (s.splitRange p.a p.b),
    "split", fQuad sp.1, fQuad sp.2,
    "before", fQuad (s.beforeSplit p.t),
    "after", fQuad (s.afterSplit p.t),
    "xf", fQuad (s.transformed p.xf),
    "cubic", fCubic s.toCubic,
    "base", fSeg s.baseline,
    "tr_sample", fp (s.sample p.t),
    "tr_xy", fx (s.x p.t), fx (s.y p.t),
    "tr_d", fp (s.derivative p.t), fx (s.dx p.t), fx (s.dy p.t),
    "tr_split", fQuad sp.1, fQuad sp.2,
    "tr_before", fQuad (s.beforeSplit p.t),
    "tr_after", fQuad (s.afterSplit p.t),
    "tr_range", fQuad (s.splitRange p.a p.b),
    "tr_flip", fQuad s.flip,
    "len", fx s.length, fx sp.1.length, fx sp.2.length,
    "tr_len", fx (s.approximateLength (rd v 16 : α)) ]

def cubic (v : Array String) : String :=
  let s : Cubic α := ⟨rdP v 0, rdP v 2, rdP v 4, rdP v 6⟩
  let p : Params α := rdParams v 8
  let tolr : α := rd v 18
  let sp := s.split p.t
  unwords [
    "sample", fp (s.sample p.t),
    "xy", fx (s.x p.t), fx (s.y p.t),
    "d", fp (s.derivative p.t), fx (s.dx p.t), fx (s.dy p.t),
    "flip", fCubic s.flip,
    "range", fCubic (s.splitRange p.a p.b),
    "split", fCubic sp.1, fCubic sp.2,
    "before", fCubic (s.beforeSplit p.t),
    "after", fCubic (s.afterSplit p.t),
    "xf", fCubic (s.transformed p.xf),
    "quad", fQuad s.toQuadratic,
    "base", fSeg s.baseline,
    "tr_sample", fp (s.sample p.t),
    "tr_xy", fx (s.x p.t), fx (s.y p.t),
    "tr_d", fp (s.derivative p.t), fx (s.dx p.t), fx (s.dy p.t),
    "tr_split", fCubic sp.1, fCubic sp.2,
    "tr_before", fCubic (s.beforeSplit p.t),
    "tr_after", fCubic (s.afterSplit p.t),
    "tr_range", fCubic (s.splitRange p.a p.b),
    "tr_flip", fCubic s.flip,
    "alen", toString (s.numQuadratics tolr), fx (s.approximateLength tolr),
      fx (sp.1.approximateLength tolr), fx (sp.2.approximateLength tolr),
    "tr_len", fx (s.approximateLength tolr) ]

def arcFuel : Nat := 100000

def arc (v : Array String) : String :=
  let s : Arc α := ⟨rdP v 0, rdP v 2, rd v 4, rd v 5, rd v 6⟩
  let p : Params α := rdParams v 7
  let tolr : α := rd v 17
  let sp := s.split p.t
  let sm := s.sample p.t
  unwords [
    "angle", fx (s.getAngle p.t),
    "sample", fp sm,
    "xy", fx sm.x, fx sm.y,
    "fromto", fp (s.sample Scalar.zero), fp (s.sample Scalar.one),
    "flip", fArc s.flip,
    "range", fArc (s.splitRange p.a p.b),
    "split", fArc sp.1, fArc sp.2,
    "before", fArc (s.beforeSplit p.t),
    "after", fArc (s.afterSplit p.t),
    "tr", fp sm, fArc sp.1, fArc sp.2, fArc (s.beforeSplit p.t), fArc (s.afterSplit p.t),
    fArc (s.splitRange p.a p.b), fArc s.flip,
    "alen", fx (s.approximateLength tolr arcFuel),
    "tr_len", fx (s.approximateLength tolr arcFuel) ]

def families : List Family := [
  ⟨"seg", seg (α := Float32), seg (α := Float)⟩,
  ⟨"quad", quad (α := Float32), quad (α := Float)⟩,
  ⟨"cubic", cubic (α := Float32), cubic (α := Float)⟩,
  ⟨"arc", arc (α := Float32), arc (α := Float)⟩ ]

end Lyon.Drive.C10

def main : IO Unit := Lyon.Drive.run Lyon.Drive.C10.families
