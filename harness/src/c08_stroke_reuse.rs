//! C08, family `stroke_reuse:32`: ONE real `StrokeTessellator` through a history of 2-5 calls, every
//! call compared bit for bit (outcome, every vertex with all accessors and the interpolated attributes
//! its constructor reads, every triangle) with the complete stroker MODEL run as an object over the same
//! history (`Model/Tess/ResetStrokeFull.lean`: `Full.strokeObjF`).
//!
//! Module of the `c08` binary (`#[path]`-included from `bin/c08.rs`).
//!
//! PART 1 is a VERBATIM copy of the input generators, the program expansion and the printing routines of
//! `bin/c05.rs` (families `fulle:32` / `prog:32`, whose CASE formats this family re-uses call by call):
//! a binary cannot import another binary's private items.  Extracted mechanically (item by item, no
//! edits); if `c05.rs` changes one of them, copy it again.
//! PART 2 (the history generator, the recorder with the refusing geometry builder, the runs) is C08's own.

#![allow(dead_code)]

use lyon_path::builder::BorderRadii;
use lyon_path::geom::{Angle, Box2D, LineSegment};
use lyon_path::math::{point, vector, Point, Vector};
use lyon_path::traits::PathBuilder;
use lyon_path::{EndpointId, Event, LineCap, LineJoin, Path, Polygon, Side, Winding};
use lyon_tessellation::geometry_builder::{GeometryBuilder, GeometryBuilderError, StrokeGeometryBuilder};
use lyon_tessellation::verif_stroke as hk;
use lyon_tessellation::VertexId;
use lyon_tessellation::{StrokeOptions, StrokeTessellator, StrokeVertex, VertexSource};
use vh::{guarded, CaseOut, Ctx, Oracle, Out, Rng};

// =============================================================================================
// PART 1: verbatim from bin/c05.rs
// =============================================================================================

fn put_src(o: &mut Out, s: &VertexSource) {
    match s {
        VertexSource::Endpoint { id } => {
            o.t("E").u(id.0 as u64);
        }
        VertexSource::Edge { from, to, t } => {
            o.t("G").u(from.0 as u64).u(to.0 as u64).f(*t);
        }
    }
}

fn put_side(o: &mut Out, s: Side) {
    o.t(if s == Side::Positive { "P" } else { "N" });
}

fn put_vtx(o: &mut Out, v: &hk::Vtx) {
    o.p(v.position).v(v.normal).p(v.position_on_path).f(v.line_width).f(v.advancement);
    put_side(o, v.side);
    put_src(o, &v.source);
}

/// every vertex (all accessors; the interpolated attributes when `attrs`) and every triangle
fn put_full(o: &mut Out, r: &hk::Rec, attrs: bool) {
    o.t("V").u(r.vertices.len() as u64);
    for v in &r.vertices {
        put_vtx(o, v);
        if attrs {
            o.t("A").u(v.attributes.len() as u64);
            for a in &v.attributes {
                o.f(*a);
            }
        }
    }
    o.t("T").u(r.triangles.len() as u64);
    for t in &r.triangles {
        o.u(t.0 as u64).u(t.1 as u64).u(t.2 as u64);
    }
}

fn unit_dir(rng: &mut Rng) -> Vector {
    match rng.below(6) {
        0 => *rng.pick(&[vector(1.0, 0.0), vector(0.0, 1.0), vector(-1.0, 0.0), vector(0.0, -1.0)]),
        1 => {
            let v = *rng.pick(&[vector(0.6, 0.8), vector(-0.8, 0.6), vector(0.28, -0.96), vector(-0.6, -0.8)]);
            v
        }
        _ => {
            let a = rng.uniform(-3.2, 3.2) as f32;
            vector(a.cos(), a.sin())
        }
    }
}

fn gen_join_kind(rng: &mut Rng) -> LineJoin {
    *rng.pick(&[LineJoin::Miter, LineJoin::MiterClip, LineJoin::Round, LineJoin::Bevel])
}

fn gen_cap(rng: &mut Rng) -> LineCap {
    *rng.pick(&[LineCap::Butt, LineCap::Square, LineCap::Round])
}

fn join_name(j: LineJoin) -> &'static str {
    match j {
        LineJoin::Miter => "miter",
        LineJoin::MiterClip => "miterclip",
        LineJoin::Round => "round",
        LineJoin::Bevel => "bevel",
    }
}

fn cap_name(c: LineCap) -> &'static str {
    match c {
        LineCap::Butt => "butt",
        LineCap::Square => "square",
        LineCap::Round => "round",
    }
}

#[derive(Clone, Debug)]
enum Seg {
    Line(Point),
    Quad(Point, Point),
    Cubic(Point, Point, Point),
}

impl Seg {
    fn to(&self) -> Point {
        match self {
            Seg::Line(p) | Seg::Quad(_, p) | Seg::Cubic(_, _, p) => *p,
        }
    }
}

#[derive(Clone, Debug)]
struct Sub {
    start: Point,
    segs: Vec<Seg>,
    close: bool,
    /// width factor per endpoint (start, then each segment's end point)
    w: Vec<f32>,
}

#[derive(Clone, Debug)]
struct StrokeInput {
    subs: Vec<Sub>,
    kind: String,
    polyline: bool,
    /// all consecutive points clearly further apart than the line width and the merge threshold
    simple: bool,
}

fn gen_stroke_input(rng: &mut Rng, width: f32, thr: f32) -> StrokeInput {
    let kind = rng.below(12);
    let scale = match rng.below(8) {
        0 => 10f64.powf(rng.uniform(-2.0, 0.0)),
        1 => 10f64.powf(rng.uniform(2.0, 4.0)),
        _ => rng.uniform(5.0, 60.0),
    } as f32;
    let lattice = rng.chance(1, 4);
    let mut rp = |rng: &mut Rng| -> Point {
        if lattice {
            point(rng.range(-6, 6) as f32 * scale * 0.125, rng.range(-6, 6) as f32 * scale * 0.125)
        } else {
            point(rng.uniform(-1.0, 1.0) as f32 * scale, rng.uniform(-1.0, 1.0) as f32 * scale)
        }
    };
    let mut subs = Vec::new();
    let mut name = String::new();
    let mut polyline = true;
    let n_sub = match kind {
        0 => 0,
        1..=6 => 1,
        _ => rng.range(1, 3) as usize,
    };
    for _ in 0..n_sub {
        let start = rp(rng);
        let mut segs = Vec::new();
        let sk = if kind <= 1 { rng.below(4) + 20 } else { rng.below(12) };
        match sk {
            20 => {
                name.push_str("single-point ");
            }
            21 => {
                name.push_str("zero-length ");
                segs.push(Seg::Line(start));
            }
            22 => {
                name.push_str("near-zero-length ");
                segs.push(Seg::Line(start + vector(thr.sqrt() * rng.uniform(-1.2, 1.2) as f32, 0.0)));
            }
            23 => {
                name.push_str("all-equal ");
                for _ in 0..rng.range(2, 4) {
                    segs.push(Seg::Line(start));
                }
            }
            0..=5 => {
                name.push_str("polyline ");
                let mut cur = start;
                for _ in 0..rng.range(1, 8) {
                    cur = match rng.below(14) {
                        0 => cur,
                        1 => cur + vector(thr.sqrt() * rng.uniform(-1.5, 1.5) as f32, thr.sqrt() * rng.uniform(-1.5, 1.5) as f32),
                        2 => cur + vector(width * rng.uniform(-0.5, 0.5) as f32, width * rng.uniform(-0.5, 0.5) as f32),
                        3 => {
                            // exact reversal / collinear continuation
                            let prev = segs.len().checked_sub(2).map(|k: usize| match &segs[k] {
                                Seg::Line(p) => *p,
                                _ => start,
                            });
                            match prev {
                                Some(p) if rng.chance(1, 2) => p,
                                Some(p) => cur + (cur - p),
                                None => rp(rng),
                            }
                        }
                        _ => rp(rng),
                    };
                    segs.push(Seg::Line(cur));
                }
            }
            6..=8 => {
                name.push_str("curves ");
                polyline = false;
                for _ in 0..rng.range(1, 4) {
                    match rng.below(5) {
                        0 => segs.push(Seg::Line(rp(rng))),
                        1 | 2 => segs.push(Seg::Quad(rp(rng), rp(rng))),
                        _ => segs.push(Seg::Cubic(rp(rng), rp(rng), rp(rng))),
                    }
                }
            }
            9 => {
                name.push_str("degenerate-curves ");
                polyline = false;
                let a = rp(rng);
                match rng.below(5) {
                    0 => segs.push(Seg::Quad(start, start)),
                    1 => segs.push(Seg::Quad(a, start)),
                    2 => segs.push(Seg::Cubic(start, start, start)),
                    3 => segs.push(Seg::Cubic(a, a, start)),
                    _ => segs.push(Seg::Cubic(a, start + (a - start) * 2.0, start + (a - start))), // collinear, cusp-like
                }
                if rng.chance(1, 2) {
                    segs.push(Seg::Line(rp(rng)));
                }
            }
            _ => {
                name.push_str("regular-polygon ");
                let n = rng.range(3, 9);
                let r = scale;
                let c = start;
                let mut first = start;
                for k in 0..n {
                    let a = k as f32 / n as f32 * std::f32::consts::TAU;
                    let p = c + vector(a.cos(), a.sin()) * r;
                    if k == 0 {
                        first = p;
                    } else {
                        segs.push(Seg::Line(p));
                    }
                }
                subs.push(Sub { start: first, segs, close: true, w: Vec::new() });
                continue;
            }
        }
        let close = rng.chance(1, 3);
        subs.push(Sub { start, segs, close, w: Vec::new() });
    }
    if n_sub == 0 {
        name.push_str("empty trivial ");
    }
    // simple: every edge (incl. the closing one) longer than 1.5 × width and no curve
    let mut simple = polyline && n_sub == 1;
    for s in subs.iter_mut() {
        let n = s.segs.len() + 1;
        s.w = (0..n).map(|_| if rng.chance(1, 6) { 1.0 } else { rng.uniform(0.3, 2.5) as f32 }).collect();
        let mut pts = vec![s.start];
        pts.extend(s.segs.iter().map(|g| g.to()));
        if s.close {
            pts.push(s.start);
        }
        if pts.len() < 2 {
            simple = false;
        }
        for k in 1..pts.len() {
            if (pts[k] - pts[k - 1]).length() < 1.5 * width.max(thr.sqrt()) {
                simple = false;
            }
        }
    }
    StrokeInput { subs, kind: name.trim().to_string(), polyline, simple }
}

fn build_path(inp: &StrokeInput, n_attr: usize, extra: &[f32]) -> Path {
    let mut b = Path::builder_with_attributes(n_attr);
    for s in &inp.subs {
        let at = |k: usize| -> Vec<f32> {
            let mut a = vec![s.w[k]];
            a.extend_from_slice(extra);
            a.truncate(n_attr);
            a
        };
        b.begin(s.start, &at(0));
        for (k, g) in s.segs.iter().enumerate() {
            match g {
                Seg::Line(p) => b.line_to(*p, &at(k + 1)),
                Seg::Quad(c, p) => b.quadratic_bezier_to(*c, *p, &at(k + 1)),
                Seg::Cubic(c1, c2, p) => b.cubic_bezier_to(*c1, *c2, *p, &at(k + 1)),
            };
        }
        b.end(s.close);
    }
    b.build()
}

fn drive_builder<B: PathBuilder>(b: &mut B, inp: &StrokeInput, n_attr: usize, extra: &[f32]) {
    for s in &inp.subs {
        let at = |k: usize| -> Vec<f32> {
            let mut a = vec![s.w[k]];
            a.extend_from_slice(extra);
            a.truncate(n_attr);
            a
        };
        b.begin(s.start, &at(0));
        for (k, g) in s.segs.iter().enumerate() {
            match g {
                Seg::Line(p) => b.line_to(*p, &at(k + 1)),
                Seg::Quad(c, p) => b.quadratic_bezier_to(*c, *p, &at(k + 1)),
                Seg::Cubic(c1, c2, p) => b.cubic_bezier_to(*c1, *c2, *p, &at(k + 1)),
            };
        }
        b.end(s.close);
    }
}

fn gen_polyline_subs(rng: &mut Rng, width: f32, thr: f32, scale: f32, lattice: bool) -> Vec<(Vec<Point>, bool)> {
    let n_sub = rng.range(1, 3) as usize;
    let mut subs: Vec<(Vec<Point>, bool)> = Vec::new();
    for _ in 0..n_sub {
        let n = rng.range(1, 9) as usize;
        let mut rp = |rng: &mut Rng| -> Point {
            if lattice {
                point(rng.range(-8, 8) as f32 * scale, rng.range(-8, 8) as f32 * scale)
            } else {
                point(rng.uniform(-10.0, 10.0) as f32 * scale, rng.uniform(-10.0, 10.0) as f32 * scale)
            }
        };
        let mut pts = vec![rp(rng)];
        while pts.len() < n {
            let cur = *pts.last().unwrap();
            let k = rng.below(12) as usize;
            let next = match k {
                0 => cur,
                1 => cur + vector(thr.sqrt() * rng.uniform(-1.5, 1.5) as f32, thr.sqrt() * rng.uniform(-1.5, 1.5) as f32),
                2 => cur + vector(width * rng.uniform(-0.6, 0.6) as f32, width * rng.uniform(-0.6, 0.6) as f32),
                3 if pts.len() >= 2 => {
                    // back along the previous edge (exact or nearly a 180° turn)
                    let prev = pts[pts.len() - 2];
                    let t = rng.uniform(0.1, 1.5) as f32;
                    cur + (prev - cur) * t + if rng.chance(1, 2) { vector(0.0, 0.0) } else { vector(rng.uniform(-0.2, 0.2) as f32, rng.uniform(-0.2, 0.2) as f32) * scale }
                }
                // collinear continuation
                4 if pts.len() >= 2 => cur + (cur - pts[pts.len() - 2]),
                5 => pts[0],
                // a sharp spike with a short next edge (fold candidates)
                6 if pts.len() >= 2 => {
                    let prev = pts[pts.len() - 2];
                    let d = (prev - cur).normalize();
                    let d = if d.x.is_finite() { d } else { vector(1.0, 0.0) };
                    let a = rng.uniform(-0.5, 0.5) as f32;
                    let r = vector(d.x * a.cos() - d.y * a.sin(), d.x * a.sin() + d.y * a.cos());
                    cur + r * (width * rng.uniform(0.05, 3.0) as f32)
                }
                // tiny / huge segment
                7 => cur + vector(rng.uniform(-1.0, 1.0) as f32, rng.uniform(-1.0, 1.0) as f32) * (scale * 10f64.powf(rng.uniform(-4.0, 3.0)) as f32),
                _ => rp(rng),
            };
            pts.push(next);
        }
        subs.push((pts, rng.chance(1, 2)));
    }
    subs
}

/// curve-heavy inputs: sharp quadratic turns (find_sharp_turn), cusps, curves that are short or
/// long relative to the line width (fast path of flattened curves, skipped joins), strongly varying
/// width factors
fn gen_curvy_input(rng: &mut Rng, width: f32) -> StrokeInput {
    let scale = width * 10f64.powf(rng.uniform(-0.7, 1.8)) as f32;
    let lattice = rng.chance(1, 4);
    let mut rp = |rng: &mut Rng| -> Point {
        if lattice {
            point(rng.range(-6, 6) as f32 * scale * 0.125, rng.range(-6, 6) as f32 * scale * 0.125)
        } else {
            point(rng.uniform(-1.0, 1.0) as f32 * scale, rng.uniform(-1.0, 1.0) as f32 * scale)
        }
    };
    let mut subs = Vec::new();
    for _ in 0..rng.range(1, 2) {
        let start = rp(rng);
        let mut cur = start;
        let mut segs = Vec::new();
        for _ in 0..rng.range(1, 5) {
            let to = rp(rng);
            let g = match rng.below(10) {
                0 => Seg::Line(to),
                // control point far beyond the end point / behind the start: sharp turn
                1 => Seg::Quad(cur + (to - cur) * rng.uniform(1.5, 8.0) as f32 + vector(rng.uniform(-0.05, 0.05) as f32, rng.uniform(-0.05, 0.05) as f32) * scale, to),
                2 => Seg::Quad(cur - (to - cur) * rng.uniform(0.5, 8.0) as f32 + vector(rng.uniform(-0.05, 0.05) as f32, rng.uniform(-0.05, 0.05) as f32) * scale, to),
                // nearly closed quadratic
                3 => Seg::Quad(rp(rng), cur + vector(rng.uniform(-0.05, 0.05) as f32, rng.uniform(-0.05, 0.05) as f32) * scale),
                4 | 5 => Seg::Quad(rp(rng), to),
                // loop / cusp-like cubic
                6 => Seg::Cubic(to + vector(rng.uniform(-0.3, 0.3) as f32, rng.uniform(-0.3, 0.3) as f32) * scale, cur + vector(rng.uniform(-0.3, 0.3) as f32, rng.uniform(-0.3, 0.3) as f32) * scale, to),
                _ => Seg::Cubic(rp(rng), rp(rng), to),
            };
            cur = g.to();
            segs.push(g);
        }
        let close = rng.chance(1, 3);
        let n = segs.len() + 1;
        let strong = rng.chance(1, 2);
        let w = (0..n).map(|_| if strong { 10f64.powf(rng.uniform(-1.0, 0.7)) as f32 } else { rng.uniform(0.5, 1.5) as f32 }).collect();
        subs.push(Sub { start, segs, close, w });
    }
    StrokeInput { subs, kind: "curvy".to_string(), polyline: false, simple: false }
}

/// one call on the builder; the last field of the path / shape calls is the width factor (custom attribute 0)
#[derive(Clone, Debug)]
enum Cmd {
    Begin(Point, f32),
    Line(Point, f32),
    Quad(Point, Point, f32),
    Cubic(Point, Point, Point, f32),
    End(bool),
    Rect(Box2D<f32>, bool, f32),
    Polygon(Vec<Point>, bool, f32),
    Segment(Point, Point, f32),
    PointAt(Point, f32),
    Circle(Point, f32, bool, f32),
    Ellipse(Point, Vector, f32, bool, f32),
    RoundRect(Box2D<f32>, [f32; 4], bool, f32),
    SetJoin(LineJoin),
    SetStartCap(LineCap),
    SetEndCap(LineCap),
    SetMiterLimit(f32),
}

/// what the model is told: the calls with the lyon_path-generic helpers (circle, ellipse, rounded rectangle)
/// expanded into the begin / line_to / curve / end calls they make
#[derive(Clone, Debug)]
enum Op {
    Begin(Point, Vec<f32>),
    Line(Point, Vec<f32>),
    Quad(Point, Point, Vec<f32>),
    Cubic(Point, Point, Point, Vec<f32>),
    End(bool),
    Rect(Box2D<f32>, bool, Vec<f32>),
    Polygon(Vec<Point>, bool, Vec<f32>),
    Segment(Point, Point, Vec<f32>),
    PointAt(Point, Vec<f32>),
    SetJoin(LineJoin),
    SetStartCap(LineCap),
    SetEndCap(LineCap),
    SetMiterLimit(f32),
}

fn winding(positive: bool) -> Winding {
    if positive {
        Winding::Positive
    } else {
        Winding::Negative
    }
}

fn radii_of(r: &[f32; 4]) -> BorderRadii {
    BorderRadii { top_left: r[0], top_right: r[1], bottom_left: r[2], bottom_right: r[3] }
}

/// records the begin / line_to / curve / end calls a generic `PathBuilder` helper makes
struct Expand {
    n_attr: usize,
    ops: Vec<Op>,
    next: u32,
}

impl PathBuilder for Expand {
    fn num_attributes(&self) -> usize {
        self.n_attr
    }
    fn begin(&mut self, at: Point, a: &[f32]) -> EndpointId {
        self.ops.push(Op::Begin(at, a.to_vec()));
        self.next += 1;
        EndpointId(self.next - 1)
    }
    fn end(&mut self, close: bool) {
        self.ops.push(Op::End(close));
    }
    fn line_to(&mut self, to: Point, a: &[f32]) -> EndpointId {
        self.ops.push(Op::Line(to, a.to_vec()));
        self.next += 1;
        EndpointId(self.next - 1)
    }
    fn quadratic_bezier_to(&mut self, ctrl: Point, to: Point, a: &[f32]) -> EndpointId {
        self.ops.push(Op::Quad(ctrl, to, a.to_vec()));
        self.next += 1;
        EndpointId(self.next - 1)
    }
    fn cubic_bezier_to(&mut self, c1: Point, c2: Point, to: Point, a: &[f32]) -> EndpointId {
        self.ops.push(Op::Cubic(c1, c2, to, a.to_vec()));
        self.next += 1;
        EndpointId(self.next - 1)
    }
}

/// the calls `cmd` makes, as the model sees them
fn ops_of(cmd: &Cmd, n_attr: usize, extra: &[f32]) -> Vec<Op> {
    let at = |w: f32| -> Vec<f32> {
        let mut a = vec![w];
        a.extend_from_slice(extra);
        a.truncate(n_attr);
        a
    };
    let mut ex = Expand { n_attr, ops: Vec::new(), next: 0 };
    match cmd {
        Cmd::Begin(p, w) => vec![Op::Begin(*p, at(*w))],
        Cmd::Line(p, w) => vec![Op::Line(*p, at(*w))],
        Cmd::Quad(c, p, w) => vec![Op::Quad(*c, *p, at(*w))],
        Cmd::Cubic(c1, c2, p, w) => vec![Op::Cubic(*c1, *c2, *p, at(*w))],
        Cmd::End(c) => vec![Op::End(*c)],
        Cmd::Rect(r, pos, w) => vec![Op::Rect(*r, *pos, at(*w))],
        Cmd::Polygon(pts, closed, w) => vec![Op::Polygon(pts.clone(), *closed, at(*w))],
        Cmd::Segment(p, q, w) => vec![Op::Segment(*p, *q, at(*w))],
        Cmd::PointAt(p, w) => vec![Op::PointAt(*p, at(*w))],
        Cmd::Circle(c, r, pos, w) => {
            ex.add_circle(*c, *r, winding(*pos), &at(*w));
            ex.ops
        }
        Cmd::Ellipse(c, r, rot, pos, w) => {
            ex.add_ellipse(*c, *r, Angle::radians(*rot), winding(*pos), &at(*w));
            ex.ops
        }
        Cmd::RoundRect(b, r, pos, w) => {
            ex.add_rounded_rectangle(b, &radii_of(r), winding(*pos), &at(*w));
            ex.ops
        }
        Cmd::SetJoin(j) => vec![Op::SetJoin(*j)],
        Cmd::SetStartCap(c) => vec![Op::SetStartCap(*c)],
        Cmd::SetEndCap(c) => vec![Op::SetEndCap(*c)],
        Cmd::SetMiterLimit(m) => vec![Op::SetMiterLimit(*m)],
    }
}

fn put_ops(args: &mut Out, ops: &[Op]) {
    let fl = |args: &mut Out, a: &[f32]| {
        for x in a {
            args.f(*x);
        }
    };
    for op in ops {
        match op {
            Op::Begin(p, a) => {
                args.t("B").p(*p);
                fl(args, a);
            }
            Op::Line(p, a) => {
                args.t("L").p(*p);
                fl(args, a);
            }
            Op::Quad(c, p, a) => {
                args.t("Q").p(*c).p(*p);
                fl(args, a);
            }
            Op::Cubic(c1, c2, p, a) => {
                args.t("C").p(*c1).p(*c2).p(*p);
                fl(args, a);
            }
            Op::End(c) => {
                args.t("E").b(*c);
            }
            Op::Rect(r, pos, a) => {
                args.t("R").p(r.min).p(r.max).b(*pos);
                fl(args, a);
            }
            Op::Polygon(pts, closed, a) => {
                args.t("P").u(pts.len() as u64).b(*closed);
                for p in pts {
                    args.p(*p);
                }
                fl(args, a);
            }
            Op::Segment(p, q, a) => {
                args.t("S").p(*p).p(*q);
                fl(args, a);
            }
            Op::PointAt(p, a) => {
                args.t("O").p(*p);
                fl(args, a);
            }
            Op::SetJoin(j) => {
                args.t("SJ").t(join_name(*j));
            }
            Op::SetStartCap(c) => {
                args.t("SS").t(cap_name(*c));
            }
            Op::SetEndCap(c) => {
                args.t("SE").t(cap_name(*c));
            }
            Op::SetMiterLimit(m) => {
                args.t("SM").f(*m);
            }
        }
    }
}

/// the raw sub-paths of a generated input as begin / line_to / curve / end calls; with probability 1/4 an
/// option setter is called INSIDE a sub-path
fn push_subs(rng: &mut Rng, cmds: &mut Vec<Cmd>, subs: &[Sub]) {
    for s in subs {
        cmds.push(Cmd::Begin(s.start, s.w[0]));
        for (k, g) in s.segs.iter().enumerate() {
            if rng.chance(1, 12) {
                cmds.push(gen_setter(rng));
            }
            cmds.push(match g {
                Seg::Line(p) => Cmd::Line(*p, s.w[k + 1]),
                Seg::Quad(c, p) => Cmd::Quad(*c, *p, s.w[k + 1]),
                Seg::Cubic(c1, c2, p) => Cmd::Cubic(*c1, *c2, *p, s.w[k + 1]),
            });
        }
        if rng.chance(1, 12) {
            cmds.push(gen_setter(rng));
        }
        cmds.push(Cmd::End(s.close));
    }
}

fn gen_setter(rng: &mut Rng) -> Cmd {
    match rng.below(4) {
        0 => Cmd::SetJoin(gen_join_kind(rng)),
        1 => Cmd::SetStartCap(gen_cap(rng)),
        2 => Cmd::SetEndCap(gen_cap(rng)),
        _ => Cmd::SetMiterLimit(*rng.pick(&[1.0f32, 1.2, 2.0, 4.0, 10.0])),
    }
}

/// axis-aligned boxes: ordinary, thin in one direction (around both thin-rectangle thresholds `line_width`
/// and `0.05 x line_width`), of zero thickness, tiny in both directions, a point
fn gen_box(rng: &mut Rng, width: f32, scale: f32, lattice: bool) -> Box2D<f32> {
    let c = if lattice {
        point(rng.range(-6, 6) as f32 * scale * 0.125, rng.range(-6, 6) as f32 * scale * 0.125)
    } else {
        point(rng.uniform(-1.0, 1.0) as f32 * scale, rng.uniform(-1.0, 1.0) as f32 * scale)
    };
    let long = if lattice { rng.range(1, 8) as f32 * scale * 0.125 } else { scale * rng.uniform(0.05, 1.5) as f32 };
    let thin = |rng: &mut Rng| width * *rng.pick(&[1.0f32, 0.05]) * rng.uniform(0.0, 1.25) as f32;
    let (w, h) = match rng.below(10) {
        0 | 1 | 2 => (long, thin(rng)),
        3 | 4 => (thin(rng), long),
        5 => (long, 0.0),
        6 => (thin(rng), thin(rng)),
        7 => (0.0, 0.0),
        _ => (long, if lattice { rng.range(1, 8) as f32 * scale * 0.125 } else { scale * rng.uniform(0.05, 1.5) as f32 }),
    };
    Box2D { min: c, max: point(c.x + w, c.y + h) }
}

/// a program: `n` shape-level items on one builder
fn gen_program(rng: &mut Rng, width: f32, thr: f32, variable: bool, shape_only: Option<usize>) -> Vec<Cmd> {
    let scale = match rng.below(8) {
        0 => 10f64.powf(rng.uniform(-1.0, 0.0)),
        1 => 10f64.powf(rng.uniform(2.0, 3.0)),
        _ => rng.uniform(5.0, 60.0),
    } as f32;
    let lattice = rng.chance(1, 4);
    let rp = |rng: &mut Rng| -> Point {
        if lattice {
            point(rng.range(-6, 6) as f32 * scale * 0.125, rng.range(-6, 6) as f32 * scale * 0.125)
        } else {
            point(rng.uniform(-1.0, 1.0) as f32 * scale, rng.uniform(-1.0, 1.0) as f32 * scale)
        }
    };
    let wf = |rng: &mut Rng| if variable { rng.uniform(0.3, 2.5) as f32 } else { 1.0 };
    let radius = |rng: &mut Rng| match rng.below(6) {
        0 => 0.0,
        1 => thr.sqrt() * rng.uniform(0.0, 3.0) as f32,
        2 => width * rng.uniform(0.05, 1.5) as f32,
        _ => scale * rng.uniform(0.05, 1.0) as f32,
    };
    let mut cmds = Vec::new();
    let n = if shape_only.is_some() { 1 } else { rng.range(1, 6) };
    for _ in 0..n {
        let kind = match shape_only {
            Some(2) => 5,
            Some(3) => 8,
            Some(4) => 9,
            Some(_) => 11,
            None => rng.below(17),
        };
        match kind {
            0..=4 => {
                // a generated path: its sub-paths
                let inp = match rng.below(3) {
                    0 => gen_stroke_input(rng, width * if variable { 2.5 } else { 1.0 }, thr),
                    1 => gen_curvy_input(rng, width),
                    _ => {
                        let subs = gen_polyline_subs(rng, width, thr, 1.0, lattice);
                        StrokeInput {
                            subs: subs
                                .into_iter()
                                .map(|(pts, close)| Sub { start: pts[0], segs: pts[1..].iter().map(|p| Seg::Line(*p)).collect(), close, w: pts.iter().map(|_| rng.uniform(0.3, 2.5) as f32).collect() })
                                .collect(),
                            kind: String::new(),
                            polyline: true,
                            simple: false,
                        }
                    }
                };
                let subs: Vec<Sub> = inp.subs.into_iter().map(|mut s| {
                    if !variable {
                        for w in s.w.iter_mut() {
                            *w = 1.0;
                        }
                    }
                    s
                }).collect();
                push_subs(rng, &mut cmds, &subs);
            }
            5..=7 => {
                let positive = shape_only.is_some() || rng.chance(1, 2);
                cmds.push(Cmd::Rect(gen_box(rng, width, scale, lattice), positive, wf(rng)));
            }
            8 => {
                let r = radius(rng) * if shape_only.is_none() && rng.chance(1, 6) { -1.0 } else { 1.0 };
                cmds.push(Cmd::Circle(rp(rng), r, shape_only.is_some() || rng.chance(1, 2), wf(rng)));
            }
            9 => cmds.push(Cmd::Ellipse(rp(rng), vector(radius(rng), radius(rng)), rng.uniform(-4.0, 4.0) as f32, rng.chance(1, 2), wf(rng))),
            10 => {
                let b = gen_box(rng, width, scale, lattice);
                let m = b.width().min(b.height());
                let mut r = [0.0f32; 4];
                for x in r.iter_mut() {
                    *x = match rng.below(5) {
                        0 => 0.0,
                        1 => m * rng.uniform(0.5, 2.0) as f32,
                        2 => -m * rng.uniform(0.0, 0.5) as f32,
                        _ => m * rng.uniform(0.0, 0.5) as f32,
                    };
                }
                cmds.push(Cmd::RoundRect(b, r, rng.chance(1, 2), wf(rng)));
            }
            11 => {
                let k = if shape_only.is_some() { rng.below(7) } else { rng.below(6) } as usize;
                let mut pts: Vec<Point> = Vec::new();
                for _ in 0..k {
                    let p = match (rng.below(8), pts.last()) {
                        (0, Some(l)) => *l,
                        (1, Some(l)) => *l + vector(thr.sqrt() * rng.uniform(-1.5, 1.5) as f32, thr.sqrt() * rng.uniform(-1.5, 1.5) as f32),
                        (2, Some(l)) => *l + vector(width * rng.uniform(-0.6, 0.6) as f32, width * rng.uniform(-0.6, 0.6) as f32),
                        _ => rp(rng),
                    };
                    pts.push(p);
                }
                cmds.push(Cmd::Polygon(pts, rng.chance(1, 2), wf(rng)));
            }
            12 => {
                let p = rp(rng);
                let q = match rng.below(4) {
                    0 => p,
                    1 => p + vector(thr.sqrt() * rng.uniform(-1.5, 1.5) as f32, 0.0),
                    _ => rp(rng),
                };
                cmds.push(Cmd::Segment(p, q, wf(rng)));
            }
            13 => cmds.push(Cmd::PointAt(rp(rng), wf(rng))),
            _ => cmds.push(gen_setter(rng)),
        }
    }
    cmds
}


// =============================================================================================
// PART 2: the history family
// =============================================================================================

/// recording geometry builder: every accessor of every vertex (incl. `interpolated_attributes()`), every
/// triangle; refuses the `add_stroke_vertex` calls number `k .. k + times` (1-based; `k = 0`: never;
/// `times = 0`: from the k-th on), alternately with `TooManyVertices` / `InvalidVertex` as `too_many` says;
/// its vertex constructor panics at the `panic_at`-th accepted vertex (1-based; 0 = never), after having
/// read every accessor (so the attribute buffer has been written)
struct ReuseRec {
    verts: Vec<hk::Vtx>,
    tris: Vec<(u32, u32, u32)>,
    k: usize,
    times: usize,
    too_many: bool,
    panic_at: usize,
    seen: usize,
    refusals: usize,
    tris_at_refusal: Option<usize>,
}

impl ReuseRec {
    fn new(k: usize, times: usize, too_many: bool, panic_at: usize) -> ReuseRec {
        ReuseRec { verts: Vec::new(), tris: Vec::new(), k, times, too_many, panic_at, seen: 0, refusals: 0, tris_at_refusal: None }
    }
}

impl GeometryBuilder for ReuseRec {
    fn add_triangle(&mut self, a: VertexId, b: VertexId, c: VertexId) {
        self.tris.push((a.0, b.0, c.0));
    }
}

impl StrokeGeometryBuilder for ReuseRec {
    fn add_stroke_vertex(&mut self, mut v: StrokeVertex) -> Result<VertexId, GeometryBuilderError> {
        self.seen += 1;
        if self.k > 0 && self.seen >= self.k && (self.times == 0 || self.seen < self.k + self.times) {
            if self.tris_at_refusal.is_none() {
                self.tris_at_refusal = Some(self.tris.len());
            }
            self.refusals += 1;
            return Err(if self.too_many { GeometryBuilderError::TooManyVertices } else { GeometryBuilderError::InvalidVertex });
        }
        let vtx = hk::read_vertex(&mut v);
        if self.verts.len() + 1 == self.panic_at {
            panic!("C08-injected-ctor-panic");
        }
        self.verts.push(vtx);
        Ok(VertexId(self.verts.len() as u32 - 1))
    }
}

const PLAIN_ENTRY: [&str; 5] = ["tessellate_path", "tessellate", "with_ids", "with_ids_nostore", "polygon"];
const PROG_ENTRY: [&str; 6] = ["builder", "builder_attrs", "rectangle", "circle", "ellipse", "rectangle_varwidth"];

#[derive(Clone, Debug)]
enum Body {
    /// a path through an iterator / path entry point
    Plain { inp: StrokeInput, entry: usize },
    /// a program on a `StrokeBuilder`, or a one-shot shape entry point
    Prog { cmds: Vec<Cmd>, entry: usize, dropped: bool },
}

#[derive(Clone, Debug)]
struct SCall {
    body: Body,
    options: StrokeOptions,
    n_attr: usize,
    extra: [f32; 2],
    /// refuse the k-th vertex (1-based; 0 = never) ...
    refuse: usize,
    /// ... `times` times (0 = from then on), with this error
    times: usize,
    too_many: bool,
    /// the vertex constructor panics at this accepted vertex (1-based; 0 = never)
    panic_at: usize,
}

/// what one call emitted
struct CallResult {
    toks: String,
    panicked: bool,
    tris_at_refusal: Option<usize>,
    /// how many `add_stroke_vertex` calls were refused
    refusals: usize,
}

impl SCall {
    fn gen(rng: &mut Rng) -> SCall {
        let width = match rng.below(8) {
            0 => 10f64.powf(rng.uniform(-2.0, -0.5)),
            1 => 10f64.powf(rng.uniform(1.3, 2.5)),
            _ => rng.uniform(0.2, 12.0),
        } as f32;
        let tol = match rng.below(6) {
            0 => 10f64.powf(rng.uniform(-3.0, -1.5)),
            1 => rng.uniform(0.5, 3.0),
            _ => rng.uniform(0.02, 0.4),
        } as f32;
        let limit = *rng.pick(&[1.0f32, 1.2, 2.0, 4.0, 4.0, 10.0, 50.0]);
        let join = gen_join_kind(rng);
        let (sc, ec) = (gen_cap(rng), gen_cap(rng));
        let mut options = StrokeOptions::tolerance(tol).with_line_width(width).with_line_join(join).with_start_cap(sc).with_end_cap(ec).with_miter_limit(limit);
        let thr = (tol * tol * 0.5).min(width * width * 0.05).max(1e-8f32);
        let extra = [rng.uniform(-5.0, 5.0) as f32, rng.uniform(-5.0, 5.0) as f32];
        let refuse = if rng.chance(1, 4) { rng.range(1, 14) as usize } else { 0 };
        let times = *rng.pick(&[1usize, 1, 2, 0]);
        let too_many = rng.chance(1, 2);
        let panic_at = if rng.chance(1, 8) { rng.range(1, 14) as usize } else { 0 };
        if rng.chance(1, 2) {
            // plain path
            let entry = match rng.below(10) {
                0..=2 => 0,
                3 | 4 => 1,
                5..=7 => 2,
                8 => 3,
                _ => 4,
            };
            let n_attr = match entry {
                0 | 2 => rng.below(4) as usize,
                _ => 0,
            };
            let variable = n_attr > 0 && rng.chance(1, 2);
            if variable {
                options = options.with_variable_line_width(0);
            }
            let inp = if entry == 4 {
                let lattice = rng.chance(1, 3);
                let mut subs = gen_polyline_subs(rng, width, thr, 1.0, lattice);
                subs.truncate(1);
                StrokeInput {
                    subs: subs.into_iter().map(|(pts, close)| Sub { start: pts[0], segs: pts[1..].iter().map(|p| Seg::Line(*p)).collect(), close, w: pts.iter().map(|_| 1.0).collect() }).collect(),
                    kind: "polygon".to_string(),
                    polyline: true,
                    simple: false,
                }
            } else if rng.chance(1, 3) {
                gen_stroke_input(rng, width * if variable { 2.5 } else { 1.0 }, thr)
            } else if rng.chance(1, 2) {
                gen_curvy_input(rng, width)
            } else {
                let lattice = rng.chance(1, 3);
                let subs = gen_polyline_subs(rng, width, thr, 1.0, lattice);
                StrokeInput {
                    subs: subs
                        .into_iter()
                        .map(|(pts, close)| Sub {
                            start: pts[0],
                            segs: pts[1..].iter().map(|p| Seg::Line(*p)).collect(),
                            close,
                            w: pts.iter().map(|_| if rng.chance(1, 6) { 1.0 } else { rng.uniform(0.3, 2.5) as f32 }).collect(),
                        })
                        .collect(),
                    kind: "folds".to_string(),
                    polyline: true,
                    simple: false,
                }
            };
            SCall { body: Body::Plain { inp, entry }, options, n_attr, extra, refuse, times, too_many, panic_at }
        } else {
            let entry = match rng.below(16) {
                0..=4 => 0,
                5..=10 => 1,
                11 => 2,
                12 => 3,
                13 => 4,
                14 => 2 + rng.below(3) as usize,
                _ => 5,
            };
            let n_attr = if entry == 1 { rng.range(1, 3) as usize } else { 0 };
            let variable = (entry == 1 && rng.chance(2, 5)) || entry == 5;
            if variable {
                options = options.with_variable_line_width(0);
            }
            let shape = match entry {
                2 | 5 => Some(2),
                3 => Some(3),
                4 => Some(4),
                _ => None,
            };
            let cmds = gen_program(rng, width, thr, variable && entry == 1, shape);
            let dropped = entry <= 1 && rng.chance(1, 5);
            SCall { body: Body::Prog { cmds, entry, dropped }, options, n_attr, extra, refuse, times, too_many, panic_at }
        }
    }

    fn entry_name(&self) -> String {
        match &self.body {
            Body::Plain { entry, .. } => PLAIN_ENTRY[*entry].to_string(),
            Body::Prog { entry, dropped, .. } => format!("{}{}", PROG_ENTRY[*entry], if *dropped { "_dropped" } else { "" }),
        }
    }

    /// the call's part of the CASE line; `m` = triangles emitted before the refused vertex
    fn put(&self, args: &mut Out, m: usize) {
        let o = &self.options;
        let put_opts = |args: &mut Out| {
            args.f(o.tolerance).f(o.line_width).f(o.miter_limit).t(join_name(o.line_join)).t(cap_name(o.start_cap)).t(cap_name(o.end_cap));
            args.b(o.variable_line_width.is_some());
        };
        match &self.body {
            Body::Plain { inp, entry } => {
                args.t("F").u(self.refuse as u64).u(m as u64).u(self.times as u64).u(self.panic_at as u64);
                put_opts(args);
                let n_attr = self.n_attr;
                let path = build_path(inp, n_attr, &self.extra);
                let by_path_ids = *entry == 2 || *entry == 3 || (*entry == 0 && n_attr > 0);
                let fw_ids = *entry == 1 || *entry == 4 || (*entry == 0 && n_attr == 0);
                let mut ids: Vec<u32> = Vec::new();
                if by_path_ids {
                    for e in path.id_iter() {
                        match e {
                            Event::Begin { at } => ids.push(at.0),
                            Event::Line { to, .. } | Event::Quadratic { to, .. } | Event::Cubic { to, .. } => ids.push(to.0),
                            Event::End { .. } => {}
                        }
                    }
                } else {
                    let n: usize = inp.subs.iter().map(|s| 1 + s.segs.len()).sum();
                    ids = (0..n as u32).collect();
                }
                let n_ev: usize = inp.subs.iter().map(|s| 2 + s.segs.len()).sum();
                args.b(fw_ids).u(n_attr as u64).u(n_ev as u64);
                let mut k_id = 0;
                for s in &inp.subs {
                    let at = |k: usize| -> Vec<f32> {
                        let mut a = vec![s.w[k]];
                        a.extend_from_slice(&self.extra);
                        a.truncate(n_attr);
                        a
                    };
                    args.t("B").u(ids[k_id] as u64).p(s.start);
                    for a in at(0) {
                        args.f(a);
                    }
                    k_id += 1;
                    for (k, g) in s.segs.iter().enumerate() {
                        match g {
                            Seg::Line(p) => args.t("L").u(ids[k_id] as u64).p(*p),
                            Seg::Quad(c, p) => args.t("Q").p(*c).u(ids[k_id] as u64).p(*p),
                            Seg::Cubic(c1, c2, p) => args.t("C").p(*c1).p(*c2).u(ids[k_id] as u64).p(*p),
                        };
                        for a in at(k + 1) {
                            args.f(a);
                        }
                        k_id += 1;
                    }
                    args.t("E").b(s.close);
                }
            }
            Body::Prog { cmds, entry, dropped } => {
                args.t("G").u(self.refuse as u64).u(m as u64).u(self.times as u64).u(self.panic_at as u64);
                args.t(if *entry == 5 { "rejected" } else if *dropped { "drop" } else { "bld" });
                put_opts(args);
                let ops: Vec<Op> = cmds.iter().flat_map(|c| ops_of(c, self.n_attr, &self.extra)).collect();
                args.u(self.n_attr as u64).u(ops.len() as u64);
                put_ops(args, &ops);
            }
        }
    }

    /// the call on the real tessellator `tess`
    fn run(&self, tess: &mut StrokeTessellator) -> CallResult {
        let mut rec = ReuseRec::new(self.refuse, self.times, self.too_many, self.panic_at);
        let options = &self.options;
        let n_attr = self.n_attr;
        let extra = &self.extra;
        // Some(Some(result)) = returned, Some(None) = builder dropped, None = panicked
        let res: Option<Option<Result<(), lyon_tessellation::TessellationError>>> = guarded(|| match &self.body {
            Body::Plain { inp, entry } => {
                let path = build_path(inp, n_attr, extra);
                Some(match entry {
                    0 => tess.tessellate_path(&path, options, &mut rec),
                    1 => tess.tessellate(path.iter(), options, &mut rec),
                    2 => tess.tessellate_with_ids(path.id_iter(), &path, Some(&path), options, &mut rec),
                    3 => tess.tessellate_with_ids(path.id_iter(), &path, None, options, &mut rec),
                    _ => {
                        let s = &inp.subs[0];
                        let mut pts = vec![s.start];
                        pts.extend(s.segs.iter().map(|g| g.to()));
                        tess.tessellate_polygon(Polygon { points: &pts[..], closed: s.close }, options, &mut rec)
                    }
                })
            }
            Body::Prog { cmds, entry, dropped } => match entry {
                0 => {
                    let mut b = tess.builder(options, &mut rec);
                    for c in cmds {
                        match c {
                            Cmd::Begin(p, _) => {
                                b.begin(*p);
                            }
                            Cmd::Line(p, _) => {
                                b.line_to(*p);
                            }
                            Cmd::Quad(ct, p, _) => {
                                b.quadratic_bezier_to(*ct, *p);
                            }
                            Cmd::Cubic(c1, c2, p, _) => {
                                b.cubic_bezier_to(*c1, *c2, *p);
                            }
                            Cmd::End(close) => b.end(*close),
                            Cmd::Rect(r, pos, _) => b.add_rectangle(r, winding(*pos)),
                            Cmd::Polygon(pts, closed, _) => b.add_polygon(Polygon { points: &pts[..], closed: *closed }),
                            Cmd::Segment(p, q, _) => {
                                b.add_line_segment(&LineSegment { from: *p, to: *q });
                            }
                            Cmd::PointAt(p, _) => {
                                b.add_point(*p);
                            }
                            Cmd::Circle(ce, r, pos, _) => b.add_circle(*ce, *r, winding(*pos)),
                            Cmd::Ellipse(ce, r, rot, pos, _) => b.add_ellipse(*ce, *r, Angle::radians(*rot), winding(*pos)),
                            Cmd::RoundRect(bx, r, pos, _) => b.add_rounded_rectangle(bx, &radii_of(r), winding(*pos)),
                            Cmd::SetJoin(j) => b.inner_mut().set_line_join(*j),
                            Cmd::SetStartCap(cp) => b.inner_mut().set_start_cap(*cp),
                            Cmd::SetEndCap(cp) => b.inner_mut().set_end_cap(*cp),
                            Cmd::SetMiterLimit(m) => b.inner_mut().set_miter_limit(*m),
                        }
                    }
                    if *dropped {
                        drop(b);
                        None
                    } else {
                        Some(lyon_path::traits::Build::build(b))
                    }
                }
                1 => {
                    let mut b = tess.builder_with_attributes(n_attr, options, &mut rec);
                    let at = |w: f32| -> Vec<f32> {
                        let mut a = vec![w];
                        a.extend_from_slice(extra);
                        a.truncate(n_attr);
                        a
                    };
                    for c in cmds {
                        match c {
                            Cmd::Begin(p, w) => {
                                b.begin(*p, &at(*w));
                            }
                            Cmd::Line(p, w) => {
                                b.line_to(*p, &at(*w));
                            }
                            Cmd::Quad(ct, p, w) => {
                                b.quadratic_bezier_to(*ct, *p, &at(*w));
                            }
                            Cmd::Cubic(c1, c2, p, w) => {
                                b.cubic_bezier_to(*c1, *c2, *p, &at(*w));
                            }
                            Cmd::End(close) => b.end(*close),
                            Cmd::Rect(r, pos, w) => b.add_rectangle(r, winding(*pos), &at(*w)),
                            Cmd::Polygon(pts, closed, w) => b.add_polygon(Polygon { points: &pts[..], closed: *closed }, &at(*w)),
                            Cmd::Segment(p, q, w) => {
                                b.add_line_segment(&LineSegment { from: *p, to: *q }, &at(*w));
                            }
                            Cmd::PointAt(p, w) => {
                                b.add_point(*p, &at(*w));
                            }
                            Cmd::Circle(ce, r, pos, w) => b.add_circle(*ce, *r, winding(*pos), &at(*w)),
                            Cmd::Ellipse(ce, r, rot, pos, w) => b.add_ellipse(*ce, *r, Angle::radians(*rot), winding(*pos), &at(*w)),
                            Cmd::RoundRect(bx, r, pos, w) => b.add_rounded_rectangle(bx, &radii_of(r), winding(*pos), &at(*w)),
                            Cmd::SetJoin(j) => b.set_line_join(*j),
                            Cmd::SetStartCap(cp) => b.set_start_cap(*cp),
                            Cmd::SetEndCap(cp) => b.set_end_cap(*cp),
                            Cmd::SetMiterLimit(m) => b.set_miter_limit(*m),
                        }
                    }
                    if *dropped {
                        drop(b);
                        None
                    } else {
                        Some(lyon_path::traits::Build::build(b))
                    }
                }
                // the one-shot shape entry points: the program is that one call
                _ => Some(match &cmds[0] {
                    Cmd::Rect(r, _, _) => tess.tessellate_rectangle(r, options, &mut rec),
                    Cmd::Circle(ce, r, _, _) => tess.tessellate_circle(*ce, *r, options, &mut rec),
                    Cmd::Ellipse(ce, r, rot, pos, _) => tess.tessellate_ellipse(*ce, *r, Angle::radians(*rot), winding(*pos), options, &mut rec),
                    _ => unreachable!(),
                }),
            },
        });
        let mut o = Out::new();
        let panicked = res.is_none();
        match res {
            None => {
                o.t("call").t("panic");
            }
            Some(r) => {
                o.t("call").t(match r {
                    None => "dropped",
                    Some(Ok(())) => "ok",
                    Some(Err(_)) => "err",
                });
                // the error is latched at the first refusal: no further vertex is offered to the builder
                o.t("R").u(rec.refusals as u64);
                o.t("V").u(rec.verts.len() as u64);
                for v in &rec.verts {
                    put_vtx(&mut o, v);
                    o.t("A").u(v.attributes.len() as u64);
                    for a in &v.attributes {
                        o.f(*a);
                    }
                }
                o.t("T").u(rec.tris.len() as u64);
                for t in &rec.tris {
                    o.u(t.0 as u64).u(t.1 as u64).u(t.2 as u64);
                }
            }
        }
        CallResult { toks: o.0.clone(), panicked, tris_at_refusal: rec.tris_at_refusal, refusals: rec.refusals }
    }
}

pub fn stroke_reuse_case(ctx: &mut Ctx) {
    ctx.case("stroke_reuse:32", |rng| {
        let n = rng.range(2, 5) as usize;
        let calls: Vec<SCall> = (0..n).map(|_| SCall::gen(rng)).collect();
        // every call on a FRESH tessellator: the reference of the oracle, and `m` (the number of triangles
        // emitted before the refused vertex: the model keeps vertices and triangles in two lists)
        let fresh: Vec<CallResult> = calls.iter().map(|c| c.run(&mut StrokeTessellator::new())).collect();
        let mut args = Out::new();
        args.u(n as u64);
        for (c, f) in calls.iter().zip(fresh.iter()) {
            c.put(&mut args, f.tris_at_refusal.unwrap_or(0));
        }
        let names: Vec<String> = calls.iter().map(|c| c.entry_name()).collect();
        let attrs: Vec<String> = calls.iter().map(|c| c.n_attr.to_string()).collect();
        let refused = fresh.iter().filter(|f| f.tris_at_refusal.is_some()).count();
        let tag = format!(
            "stroke_reuse n={} {} attrs={} refused={} variable={} panics={} ctorpanics={} multirefuse={}",
            n,
            names.join("+"),
            attrs.join(">"),
            refused,
            calls.iter().filter(|c| c.options.variable_line_width.is_some()).count(),
            fresh.iter().filter(|f| f.panicked).count(),
            calls.iter().zip(fresh.iter()).filter(|(c, f)| f.panicked && c.panic_at > 0 && !matches!(c.body, Body::Prog { entry: 5, .. })).count(),
            calls.iter().zip(fresh.iter()).filter(|(c, f)| f.tris_at_refusal.is_some() && c.times != 1).count()
        );
        (args, tag, move || {
            let mut tess = StrokeTessellator::new();
            let mut o = Out::new();
            let mut orc = Oracle::new();
            let mut unwound = false;
            for (i, c) in calls.iter().enumerate() {
                let r = c.run(&mut tess);
                o.t(&r.toks);
                if r.toks != fresh[i].toks {
                    let class = if unwound { "after-unwind" } else { "generic" };
                    orc.check(false, "stroke_reuse/fresh-equal", class, || {
                        format!("call {} ({}) of the history differs from a fresh tessellator", i, c.entry_name())
                    });
                }
                unwound |= r.panicked;
            }
            CaseOut { imp: o, orcl: orc.verdict }
        })
    });
}
