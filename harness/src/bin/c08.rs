//! C08 — tessellators carry no state from one call to the next.
//!
//! Oracle families (REAL code, end to end; not compared with the model — listed under
//! `conf.compare.oracle_only_families`):
//!
//! * `hist_fill`   — a history of 2–12 calls on ONE `FillTessellator`: paths (polygons from
//!   `vh::fillgen::gen_poly`, some edges turned into quadratic / cubic curves), fill rules,
//!   orientations, attribute counts, tolerances (including the invalid 0 / NaN / negative ones that
//!   return early — after the event queue has been rebuilt), every entry point (`tessellate`,
//!   `tessellate_path`, `tessellate_with_ids`, `tessellate_polygon`, `builder`,
//!   `builder_with_attributes`, `tessellate_rectangle/circle/ellipse`, a builder that is dropped
//!   without `build`), builder faults injected at a random k-th vertex (the call fails part-way) and
//!   a vertex constructor that panics at the k-th vertex (the call unwinds part-way).  After EACH call
//!   the result, the new vertices (position, interpolated attributes, sources — as bit patterns) and
//!   the new indices are compared bit for bit with those of a FRESH tessellator writing into EMPTY
//!   buffers.  Per history the reused tessellator writes either into fresh buffers, into one shared
//!   growing buffer, or into a buffer pre-filled with unrelated content: the new indices must be the
//!   fresh ones plus the number of prior vertices, and the prior content must be untouched.
//! * `hist_stroke` — the same for `StrokeTessellator` (all joins, caps, variable width, entry points).
//!
//! A difference is shrunk (calls are dropped from the history while the difference at the last call
//! persists) and reported with the shortest history.
//!
//! Tie family (compared token by token with the Lean model):
//!
//! * `mono_reuse:32` — the pooled monotone tessellator: IMPL is the crate-private
//!   `AdvancedMonotoneTessellator` on a FRESH object (hook H2 `verif_monotone`) for sequence B;
//!   MODEL is `Adv.begin old` for the state `old` left behind by sequence A (cut at a random point
//!   or run to its end), then sequence B.  Equality is exactly what `monotone_begin_fresh` proves;
//!   here it is observed on the executable model against the real code.
//! * `chk_interp`    — `FillVertex::interpolated_attributes` on a REUSED tessellator (its attribute
//!   buffer holds the leftovers of a call with another attribute count): for every vertex of a real
//!   fill the harness records the source list and the attributes lyon computed; the Lean model
//!   (`Reset.interpAll`, started from a buffer full of junk) must reproduce them bit for bit
//!   (checker family: the model's verdict is a second oracle).
//! * `sweep_reuse:32` — the COMPLETE sweep model on a USED object (`Model/Tess/ResetSweep.lean`): one
//!   real `FillTessellator` goes through a history of 2–5 calls on polygonal input (five entry points,
//!   invalid tolerances, intersections ignored on intersecting input, a NaN / infinite coordinate in a
//!   call of the history — `Err(PositionIsNaN)` / `Err(Internal(..))` part-way —, a geometry builder
//!   refusing the k-th vertex, a `FillBuilder` dropped without `build`); IMPL is every call's complete
//!   emission sequence (outcome, vertices with their sibling edge records through hook H1, triangles,
//!   in order), MODEL is `Sweep.fillObj` run over the same history, each call started from the state
//!   the model of the previous call left behind.  Its oracle clause `sweep_reuse/fresh-equal` compares
//!   every call on the reused object with a fresh real object at that level of detail.
//! * `sweepc_reuse:32` — the same on CURVED input with CUSTOM ATTRIBUTES
//!   (`Model/Tess/ResetSweepCurves.lean`): histories of 2–5 calls on one real `FillTessellator` mixing the
//!   polygonal calls of `sweep_reuse` with calls on paths with quadratic / cubic edges and 0–3 attributes
//!   per endpoint through `tessellate`, `tessellate_path`, `tessellate_with_ids` (without / with the
//!   store), `builder()` / `builder_with_attributes(n)` (also dropped), refused vertices, invalid
//!   tolerances, paths that yield no event; IMPL additionally carries the bits of
//!   `FillVertex::interpolated_attributes()` of every vertex; MODEL is `SweepCurves.fillObjC` over the
//!   history (sweep state, recycled queue and attribute buffer carried from call to call).  Oracle
//!   clauses `sweepc_reuse/fresh-equal`, `sweepc_reuse/attr-count`.
//! * `chk_stroke_attrs` — `StrokeVertex::interpolated_attributes` on a REUSED `StrokeTessellator` whose
//!   calls change the attribute count (checker family, `Model/Tess/StrokeAttrBuffer.lean`: the buffer as
//!   each entry point's prologue leaves it, the interpolation loop over `buffer.len()`); oracle clause
//!   `stroke_attrs/attr-count`.

use lyon_path::math::{point, vector, Angle, Box2D, Point};
use lyon_path::traits::{Build, PathBuilder};
use lyon_path::{Path, Polygon, Winding};
use lyon_tessellation::geometry_builder::{BuffersBuilder, VertexBuffers};
use lyon_tessellation::{
    FillGeometryBuilder, FillOptions, FillRule, FillTessellator, FillVertex, FillVertexConstructor, GeometryBuilder,
    GeometryBuilderError, LineCap, LineJoin, Orientation, StrokeGeometryBuilder, StrokeOptions, StrokeTessellator,
    StrokeVertex, StrokeVertexConstructor, VertexId, VertexSource,
};
use vh::fillgen::gen_poly;
use vh::{guarded, CaseOut, Ctx, Oracle, Out, Rng};

// family `stroke_reuse:32` (the complete stroker model on a reused object)
#[path = "../c08_stroke_reuse.rs"]
mod stroke_reuse;

// ---------------------------------------------------------------------------------------------
// Paths with curves and attributes

#[derive(Clone, Debug)]
enum Seg {
    Line(Point),
    Quad(Point, Point),
    Cubic(Point, Point, Point),
}

impl Seg {
    fn to(&self) -> Point {
        match self {
            Seg::Line(p) | Seg::Quad(_, p) | Seg::Cubic(_, _, p) => *p,
        }
    }
}

#[derive(Clone, Debug)]
struct Sub {
    start: Point,
    segs: Vec<Seg>,
    closed: bool,
}

#[derive(Clone, Debug)]
struct PathSpec {
    subs: Vec<Sub>,
    nattr: usize,
    /// one attribute vector per endpoint, in path order
    attrs: Vec<Vec<f32>>,
    kind: String,
    curved: bool,
}

impl PathSpec {
    fn gen(rng: &mut Rng, nattr: usize, allow_curves: bool) -> PathSpec {
        let poly = gen_poly(rng, 10);
        let curve_mode = if allow_curves { rng.below(4) } else { 0 }; // 0,1: lines; 2: some; 3: many
        let mut subs = Vec::new();
        let mut curved = false;
        for (pts, closed) in &poly.subs {
            if pts.is_empty() {
                continue;
            }
            let mut segs = Vec::new();
            let mut prev = pts[0];
            for p in &pts[1..] {
                let want = match curve_mode {
                    2 => rng.chance(1, 4),
                    3 => rng.chance(3, 4),
                    _ => false,
                };
                if want {
                    curved = true;
                    let d = *p - prev;
                    let n = vector(-d.y, d.x);
                    let m = prev + d * 0.5;
                    if rng.chance(1, 2) {
                        segs.push(Seg::Quad(m + n * (rng.uniform(-0.6, 0.6) as f32), *p));
                    } else {
                        let c1 = prev + d * 0.3 + n * (rng.uniform(-0.6, 0.6) as f32);
                        let c2 = prev + d * 0.7 + n * (rng.uniform(-0.6, 0.6) as f32);
                        segs.push(Seg::Cubic(c1, c2, *p));
                    }
                } else {
                    segs.push(Seg::Line(*p));
                }
                prev = *p;
            }
            subs.push(Sub { start: pts[0], segs, closed: *closed });
        }
        let n_end: usize = subs.iter().map(|s| 1 + s.segs.len()).sum();
        let attrs = (0..n_end)
            .map(|_| {
                (0..nattr)
                    .map(|j| if j == 0 { rng.uniform(0.25, 3.0) as f32 } else { rng.range(-8, 8) as f32 * 0.5 })
                    .collect()
            })
            .collect();
        PathSpec { subs, nattr, attrs, kind: poly.kind.to_string(), curved }
    }

    fn drive<B: PathBuilder>(&self, b: &mut B) {
        let mut ai = 0;
        for s in &self.subs {
            b.begin(s.start, &self.attrs[ai]);
            ai += 1;
            for seg in &s.segs {
                match seg {
                    Seg::Line(p) => {
                        b.line_to(*p, &self.attrs[ai]);
                    }
                    Seg::Quad(c, p) => {
                        b.quadratic_bezier_to(*c, *p, &self.attrs[ai]);
                    }
                    Seg::Cubic(c1, c2, p) => {
                        b.cubic_bezier_to(*c1, *c2, *p, &self.attrs[ai]);
                    }
                }
                ai += 1;
            }
            b.end(s.closed);
        }
    }

    fn to_path(&self) -> Path {
        let mut b = Path::builder_with_attributes(self.nattr);
        self.drive(&mut b);
        b.build()
    }

    fn single_polygon(&self) -> Option<Vec<Point>> {
        if self.subs.len() != 1 || self.curved {
            return None;
        }
        let s = &self.subs[0];
        let mut v = vec![s.start];
        v.extend(s.segs.iter().map(|g| g.to()));
        Some(v)
    }

    fn bbox(&self) -> Box2D {
        let mut pts = Vec::new();
        for s in &self.subs {
            pts.push(s.start);
            pts.extend(s.segs.iter().map(|g| g.to()));
        }
        if pts.is_empty() {
            return Box2D { min: point(0.0, 0.0), max: point(1.0, 1.0) };
        }
        Box2D::from_points(pts)
    }

    fn describe(&self) -> String {
        let n: usize = self.subs.iter().map(|s| 1 + s.segs.len()).sum();
        format!("{}{}:{}sub/{}pt/a{}", self.kind, if self.curved { "+curves" } else { "" }, self.subs.len(), n, self.nattr)
    }
}

// ---------------------------------------------------------------------------------------------
// Captured vertices (everything the tessellator tells the vertex constructor, as bit patterns)

#[derive(Clone, PartialEq, Debug)]
struct V {
    w: Vec<u32>,
}

fn src_words(w: &mut Vec<u32>, s: VertexSource) {
    match s {
        VertexSource::Endpoint { id } => {
            w.push(0xE0E0);
            w.push(id.0);
        }
        VertexSource::Edge { from, to, t } => {
            w.push(0xED6E);
            w.push(from.0);
            w.push(to.0);
            w.push(t.to_bits());
        }
    }
}

/// vertex constructor; panics at the `panic_at`-th vertex (1-based; 0 = never)
struct Ctor {
    seen: usize,
    panic_at: usize,
    /// read sources / attributes (they are only meaningful with ids)
    with_src: bool,
}

impl FillVertexConstructor<V> for Ctor {
    fn new_vertex(&mut self, mut v: FillVertex) -> V {
        self.seen += 1;
        if self.seen == self.panic_at {
            panic!("C08-injected-ctor-panic");
        }
        let p = v.position();
        let mut w = vec![p.x.to_bits(), p.y.to_bits()];
        if self.with_src {
            for s in v.sources() {
                src_words(&mut w, s);
            }
        }
        w.push(0xA77);
        for a in v.interpolated_attributes() {
            w.push(a.to_bits());
        }
        V { w }
    }
}

impl StrokeVertexConstructor<V> for Ctor {
    fn new_vertex(&mut self, mut v: StrokeVertex) -> V {
        self.seen += 1;
        if self.seen == self.panic_at {
            panic!("C08-injected-ctor-panic");
        }
        let p = v.position();
        let n = v.normal();
        let q = v.position_on_path();
        let mut w = vec![
            p.x.to_bits(),
            p.y.to_bits(),
            n.x.to_bits(),
            n.y.to_bits(),
            q.x.to_bits(),
            q.y.to_bits(),
            v.line_width().to_bits(),
            v.advancement().to_bits(),
            v.side().is_positive() as u32,
        ];
        src_words(&mut w, v.source());
        w.push(0xA77);
        for a in v.interpolated_attributes() {
            w.push(a.to_bits());
        }
        V { w }
    }
}

type Bufs = VertexBuffers<V, u32>;

/// refuses the `k`-th vertex (1-based; 0 = never)
struct Faulty<B> {
    inner: B,
    k: usize,
    seen: usize,
}

impl<B: GeometryBuilder> GeometryBuilder for Faulty<B> {
    fn begin_geometry(&mut self) {
        self.inner.begin_geometry()
    }
    fn end_geometry(&mut self) {
        self.inner.end_geometry()
    }
    fn add_triangle(&mut self, a: VertexId, b: VertexId, c: VertexId) {
        self.inner.add_triangle(a, b, c)
    }
    fn abort_geometry(&mut self) {
        self.inner.abort_geometry()
    }
}
impl<B: FillGeometryBuilder> FillGeometryBuilder for Faulty<B> {
    fn add_fill_vertex(&mut self, v: FillVertex) -> Result<VertexId, GeometryBuilderError> {
        self.seen += 1;
        if self.seen == self.k {
            return Err(GeometryBuilderError::InvalidVertex);
        }
        self.inner.add_fill_vertex(v)
    }
}
impl<B: StrokeGeometryBuilder> StrokeGeometryBuilder for Faulty<B> {
    fn add_stroke_vertex(&mut self, v: StrokeVertex) -> Result<VertexId, GeometryBuilderError> {
        self.seen += 1;
        if self.seen == self.k {
            return Err(GeometryBuilderError::InvalidVertex);
        }
        self.inner.add_stroke_vertex(v)
    }
}

#[derive(Clone, Copy, Debug, PartialEq)]
enum Fault {
    None,
    Refuse(usize),
    Panic(usize),
}

impl Fault {
    fn gen(rng: &mut Rng) -> Fault {
        match rng.below(10) {
            0 | 1 | 2 => Fault::Refuse(rng.range(1, 12) as usize),
            3 => Fault::Panic(rng.range(1, 10) as usize),
            _ => Fault::None,
        }
    }
    fn describe(&self) -> String {
        match self {
            Fault::None => "-".into(),
            Fault::Refuse(k) => format!("refuse@{}", k),
            Fault::Panic(k) => format!("panic@{}", k),
        }
    }
}

// ---------------------------------------------------------------------------------------------
// Fill calls

const FILL_ENTRIES: [&str; 11] = [
    "tessellate", "tessellate_path", "with_ids", "polygon", "builder", "builder_attrs", "rectangle", "circle", "ellipse",
    "builder_dropped", "with_ids_noattr",
];

#[derive(Clone, Debug)]
struct FillCall {
    path: PathSpec,
    rule: FillRule,
    orient: Orientation,
    tol: f32,
    intersections: bool,
    entry: usize,
    fault: Fault,
}

impl FillCall {
    fn gen(rng: &mut Rng) -> FillCall {
        let entry = match rng.below(16) {
            0 | 1 | 2 => 0,
            3 | 4 => 1,
            5 | 6 | 7 => 2,
            8 => 3,
            9 | 10 => 4,
            11 | 12 => 5,
            13 => 6 + rng.below(3) as usize,
            14 => 9,
            _ => 10,
        };
        let nattr = match entry {
            1 | 2 | 5 => rng.below(4) as usize,
            _ => 0,
        };
        // the shape fast paths (6..8) do not validate the tolerance at all (tessellate_circle with
        // tolerance 0 recurses until the stack overflows — not this property): valid tolerances there
        let tol = match rng.below(12) {
            0 if !(6..=8).contains(&entry) => 0.0,
            1 if !(6..=8).contains(&entry) => f32::NAN,
            2 if !(6..=8).contains(&entry) => -0.5,
            _ => *rng.pick(&[0.001f32, 0.01, 0.1, 0.25, 1.0]),
        };
        // an invalid tolerance reaches the flattener of the event-queue builder before it is
        // rejected: keep those paths polygonal (curve flattening at tolerance 0 is not this property)
        let allow_curves = tol > 0.0;
        FillCall {
            path: PathSpec::gen(rng, nattr, allow_curves),
            rule: if rng.chance(1, 2) { FillRule::EvenOdd } else { FillRule::NonZero },
            orient: if rng.chance(1, 2) { Orientation::Vertical } else { Orientation::Horizontal },
            tol,
            intersections: !rng.chance(1, 10),
            entry,
            fault: Fault::gen(rng),
        }
    }
    fn options(&self) -> FillOptions {
        FillOptions::DEFAULT
            .with_tolerance(self.tol)
            .with_fill_rule(self.rule)
            .with_sweep_orientation(self.orient)
            .with_intersections(self.intersections)
    }
    fn describe(&self) -> String {
        format!(
            "[{} {} {} {} tol={} {} fault={}]",
            FILL_ENTRIES[self.entry],
            self.path.describe(),
            if self.rule == FillRule::EvenOdd { "eo" } else { "nz" },
            if self.orient == Orientation::Vertical { "v" } else { "h" },
            self.tol,
            if self.intersections { "" } else { "noint" },
            self.fault.describe()
        )
    }
    fn tag(&self) -> String {
        let tol = if self.tol.is_nan() || self.tol <= 0.0 { "badtol" } else { "tol" };
        let f = match self.fault {
            Fault::None => "nofault",
            Fault::Refuse(_) => "refuse",
            Fault::Panic(_) => "unwind",
        };
        format!("{}/{}/{}/a{}", FILL_ENTRIES[self.entry], tol, f, self.path.nattr)
    }
}

/// Outcome of one call: result text, or "panic"
fn run_fill(tess: &mut FillTessellator, c: &FillCall, bufs: &mut Bufs) -> String {
    let opts = c.options();
    let path = c.path.to_path();
    let (k, pk) = match c.fault {
        Fault::None => (0, 0),
        Fault::Refuse(k) => (k, 0),
        Fault::Panic(k) => (0, k),
    };
    let with_src = true;
    let r = guarded(|| {
        let bb = BuffersBuilder::new(bufs, Ctor { seen: 0, panic_at: pk, with_src });
        let mut out = Faulty { inner: bb, k, seen: 0 };
        match c.entry {
            0 => tess.tessellate(path.iter(), &opts, &mut out),
            1 => tess.tessellate_path(&path, &opts, &mut out),
            2 => {
                if c.path.nattr > 0 {
                    tess.tessellate_with_ids(path.id_iter(), &path, Some(&path), &opts, &mut out)
                } else {
                    tess.tessellate_with_ids(path.id_iter(), &path, None, &opts, &mut out)
                }
            }
            10 => tess.tessellate_with_ids(path.id_iter(), &path, None, &opts, &mut out),
            3 => match c.path.single_polygon() {
                Some(pts) => tess.tessellate_polygon(Polygon { points: &pts[..], closed: c.path.subs[0].closed }, &opts, &mut out),
                None => tess.tessellate(path.iter(), &opts, &mut out),
            },
            4 => {
                let mut b = tess.builder(&opts, &mut out);
                c.path.drive(&mut b);
                b.build()
            }
            5 => {
                let mut b = tess.builder_with_attributes(c.path.nattr, &opts, &mut out);
                c.path.drive(&mut b);
                b.build()
            }
            6 => tess.tessellate_rectangle(&c.path.bbox(), &opts, &mut out),
            7 => {
                let bx = c.path.bbox();
                tess.tessellate_circle(bx.center(), bx.width().max(bx.height()) * 0.5, &opts, &mut out)
            }
            8 => {
                let bx = c.path.bbox();
                tess.tessellate_ellipse(
                    bx.center(),
                    vector(bx.width() * 0.5 + 0.5, bx.height() * 0.5 + 0.25),
                    Angle::radians(0.3),
                    Winding::Positive,
                    &opts,
                    &mut out,
                )
            }
            _ => {
                // a builder that is given the whole path and then dropped without `build`
                let mut b = tess.builder(&opts, &mut out);
                c.path.drive(&mut b);
                drop(b);
                Ok(())
            }
        }
    });
    match r {
        None => "panic".to_string(),
        Some(Ok(())) => "ok".to_string(),
        Some(Err(e)) => format!("err:{:?}", e).replace(' ', ""),
    }
}

// ---------------------------------------------------------------------------------------------
// Stroke calls

const STROKE_ENTRIES: [&str; 10] =
    ["tessellate", "tessellate_path", "with_ids", "polygon", "builder", "builder_attrs", "rectangle", "circle", "ellipse", "builder_dropped"];

#[derive(Clone, Debug)]
struct StrokeCall {
    path: PathSpec,
    join: LineJoin,
    start_cap: LineCap,
    end_cap: LineCap,
    width: f32,
    miter_limit: f32,
    tol: f32,
    var_width: Option<usize>,
    entry: usize,
    fault: Fault,
}

impl StrokeCall {
    fn gen(rng: &mut Rng) -> StrokeCall {
        let entry = match rng.below(16) {
            0 | 1 | 2 => 0,
            3 | 4 => 1,
            5 | 6 | 7 => 2,
            8 => 3,
            9 | 10 => 4,
            11 | 12 | 13 => 5,
            14 => 6 + rng.below(3) as usize,
            _ => 9,
        };
        let nattr = match entry {
            1 | 2 | 5 => rng.below(4) as usize,
            _ => 0,
        };
        let var_width = if nattr > 0 && rng.chance(1, 2) { Some(0) } else { None };
        let caps = [LineCap::Butt, LineCap::Square, LineCap::Round];
        StrokeCall {
            path: PathSpec::gen(rng, nattr, true),
            join: *rng.pick(&[LineJoin::Miter, LineJoin::MiterClip, LineJoin::Round, LineJoin::Bevel]),
            start_cap: *rng.pick(&caps),
            end_cap: *rng.pick(&caps),
            width: *rng.pick(&[0.1f32, 0.5, 1.0, 2.0, 5.0]),
            miter_limit: *rng.pick(&[1.0f32, 2.0, 4.0, 10.0]),
            tol: *rng.pick(&[0.01f32, 0.1, 0.25, 1.0]),
            var_width,
            entry,
            fault: Fault::gen(rng),
        }
    }
    fn options(&self) -> StrokeOptions {
        let mut o = StrokeOptions::DEFAULT
            .with_tolerance(self.tol)
            .with_line_join(self.join)
            .with_start_cap(self.start_cap)
            .with_end_cap(self.end_cap)
            .with_line_width(self.width)
            .with_miter_limit(self.miter_limit);
        if let Some(i) = self.var_width {
            o = o.with_variable_line_width(i);
        }
        o
    }
    fn describe(&self) -> String {
        format!(
            "[{} {} {:?} {:?}/{:?} w={} ml={} tol={} vw={:?} fault={}]",
            STROKE_ENTRIES[self.entry],
            self.path.describe(),
            self.join,
            self.start_cap,
            self.end_cap,
            self.width,
            self.miter_limit,
            self.tol,
            self.var_width,
            self.fault.describe()
        )
    }
    fn tag(&self) -> String {
        let f = match self.fault {
            Fault::None => "nofault",
            Fault::Refuse(_) => "refuse",
            Fault::Panic(_) => "unwind",
        };
        format!("{}/{:?}/{}/a{}{}", STROKE_ENTRIES[self.entry], self.join, f, self.path.nattr, if self.var_width.is_some() { "vw" } else { "" })
    }
}

fn run_stroke(tess: &mut StrokeTessellator, c: &StrokeCall, bufs: &mut Bufs) -> String {
    let opts = c.options();
    let path = c.path.to_path();
    let (k, pk) = match c.fault {
        Fault::None => (0, 0),
        Fault::Refuse(k) => (k, 0),
        Fault::Panic(k) => (0, k),
    };
    let r = guarded(|| {
        let bb = BuffersBuilder::new(bufs, Ctor { seen: 0, panic_at: pk, with_src: true });
        let mut out = Faulty { inner: bb, k, seen: 0 };
        match c.entry {
            0 => tess.tessellate(path.iter(), &opts, &mut out),
            1 => tess.tessellate_path(&path, &opts, &mut out),
            2 => {
                if c.path.nattr > 0 {
                    tess.tessellate_with_ids(path.id_iter(), &path, Some(&path), &opts, &mut out)
                } else {
                    tess.tessellate_with_ids(path.id_iter(), &path, None, &opts, &mut out)
                }
            }
            3 => match c.path.single_polygon() {
                Some(pts) => tess.tessellate_polygon(Polygon { points: &pts[..], closed: c.path.subs[0].closed }, &opts, &mut out),
                None => tess.tessellate(path.iter(), &opts, &mut out),
            },
            4 => {
                let mut b = tess.builder(&opts, &mut out);
                c.path.drive(&mut b);
                b.build()
            }
            5 => {
                let mut b = tess.builder_with_attributes(c.path.nattr, &opts, &mut out);
                c.path.drive(&mut b);
                b.build()
            }
            6 => tess.tessellate_rectangle(&c.path.bbox(), &opts, &mut out),
            7 => {
                let bx = c.path.bbox();
                tess.tessellate_circle(bx.center(), bx.width().max(bx.height()) * 0.5, &opts, &mut out)
            }
            8 => {
                let bx = c.path.bbox();
                tess.tessellate_ellipse(
                    bx.center(),
                    vector(bx.width() * 0.5 + 0.5, bx.height() * 0.5 + 0.25),
                    Angle::radians(0.3),
                    Winding::Positive,
                    &opts,
                    &mut out,
                )
            }
            _ => {
                let mut b = tess.builder(&opts, &mut out);
                c.path.drive(&mut b);
                drop(b);
                Ok(())
            }
        }
    });
    match r {
        None => "panic".to_string(),
        Some(Ok(())) => "ok".to_string(),
        Some(Err(e)) => format!("err:{:?}", e).replace(' ', ""),
    }
}

// ---------------------------------------------------------------------------------------------
// Histories (generic over fill / stroke)

trait Kind {
    type Tess;
    type Call: Clone;
    const NAME: &'static str;
    fn new_tess() -> Self::Tess;
    fn run(t: &mut Self::Tess, c: &Self::Call, b: &mut Bufs) -> String;
    fn describe(c: &Self::Call) -> String;
    fn fault(c: &Self::Call) -> Fault;
}

struct FillK;
impl Kind for FillK {
    type Tess = FillTessellator;
    type Call = FillCall;
    const NAME: &'static str = "fill";
    fn new_tess() -> FillTessellator {
        FillTessellator::new()
    }
    fn run(t: &mut FillTessellator, c: &FillCall, b: &mut Bufs) -> String {
        run_fill(t, c, b)
    }
    fn describe(c: &FillCall) -> String {
        c.describe()
    }
    fn fault(c: &FillCall) -> Fault {
        c.fault
    }
}

struct StrokeK;
impl Kind for StrokeK {
    type Tess = StrokeTessellator;
    type Call = StrokeCall;
    const NAME: &'static str = "stroke";
    fn new_tess() -> StrokeTessellator {
        StrokeTessellator::new()
    }
    fn run(t: &mut StrokeTessellator, c: &StrokeCall, b: &mut Bufs) -> String {
        run_stroke(t, c, b)
    }
    fn describe(c: &StrokeCall) -> String {
        c.describe()
    }
    fn fault(c: &StrokeCall) -> Fault {
        c.fault
    }
}

#[derive(Clone, Copy, PartialEq, Debug)]
enum BufMode {
    /// every call writes into new empty buffers
    Fresh,
    /// all calls append to one buffer
    Shared,
    /// one buffer that already holds unrelated vertices and indices
    Prefilled,
}

fn junk_bufs(rng: &mut Rng) -> Bufs {
    let mut b: Bufs = VertexBuffers::new();
    let nv = rng.range(1, 40) as usize;
    for i in 0..nv {
        b.vertices.push(V { w: vec![0xDEAD_0000 + i as u32, rng.next() as u32] });
    }
    let ni = rng.range(0, 20) as usize * 3;
    for _ in 0..ni {
        b.indices.push(rng.below(nv as u64) as u32);
    }
    b
}

struct Difference {
    clause: &'static str,
    what: String,
}

/// Run the history on one tessellator; compare call `i` (all calls when `only_last` is false)
/// with a fresh tessellator on empty buffers.  Returns the index of the first differing call.
fn run_history<K: Kind>(calls: &[K::Call], mode: BufMode, junk: &Bufs, only_last: bool, stats: &mut Stats) -> Option<(usize, Difference)> {
    let mut tess = K::new_tess();
    let mut shared: Bufs = match mode {
        BufMode::Prefilled => junk.clone(),
        _ => VertexBuffers::new(),
    };
    for (i, c) in calls.iter().enumerate() {
        if mode == BufMode::Fresh {
            shared = VertexBuffers::new();
        }
        let prior = shared.clone();
        let r_reused = K::run(&mut tess, c, &mut shared);
        if only_last && i + 1 != calls.len() {
            if r_reused == "panic" {
                // an unwound call never reached abort_geometry: drop what it left in the buffers
                shared = prior;
            }
            continue;
        }
        let mut fresh_t = K::new_tess();
        let mut fresh_b: Bufs = VertexBuffers::new();
        let r_fresh = K::run(&mut fresh_t, c, &mut fresh_b);
        stats.calls += 1;
        if r_fresh != "ok" {
            stats.failed_calls += 1;
        }
        if !fresh_b.vertices.is_empty() {
            stats.nonempty += 1;
        }
        let site: &'static str = if K::NAME == "fill" { "fill.history" } else { "stroke.history" };
        let _ = site;
        let mk = |clause: &'static str, what: String| Some((i, Difference { clause, what }));
        if r_reused != r_fresh {
            return mk("result", format!("call {} returned {} on the reused tessellator, {} on a fresh one", i, r_reused, r_fresh));
        }
        let (pv, pi) = (prior.vertices.len(), prior.indices.len());
        if shared.vertices.len() < pv || shared.indices.len() < pi || shared.vertices[..pv] != prior.vertices[..] || shared.indices[..pi] != prior.indices[..] {
            return mk("prior-content", format!("call {} changed the {} vertices / {} indices that were already in the buffers", i, pv, pi));
        }
        let newv = &shared.vertices[pv..];
        let newi = &shared.indices[pi..];
        if newv.len() != fresh_b.vertices.len() || newi.len() != fresh_b.indices.len() {
            return mk(
                "geometry",
                format!("call {}: {} vertices / {} indices, fresh tessellator {} / {}", i, newv.len(), newi.len(), fresh_b.vertices.len(), fresh_b.indices.len()),
            );
        }
        if let Some(j) = (0..newv.len()).find(|&j| newv[j] != fresh_b.vertices[j]) {
            return mk("geometry", format!("call {}: vertex {} differs from the fresh tessellator's: {:x?} vs {:x?}", i, j, newv[j].w, fresh_b.vertices[j].w));
        }
        if let Some(j) = (0..newi.len()).find(|&j| newi[j] != fresh_b.indices[j].wrapping_add(pv as u32)) {
            return mk(
                "index-offset",
                format!("call {}: index {} is {} but fresh {} + offset {}", i, j, newi[j], fresh_b.indices[j], pv),
            );
        }
        if r_reused == "panic" {
            shared = prior;
        }
    }
    None
}

#[derive(Default)]
struct Stats {
    calls: usize,
    failed_calls: usize,
    nonempty: usize,
}

fn history_case<K: Kind>(ctx: &mut Ctx, family: &str, gen_call: fn(&mut Rng) -> K::Call, tag_of: fn(&K::Call) -> String) {
    ctx.case(family, |rng| {
        let n = rng.range(2, 12) as usize;
        let calls: Vec<K::Call> = (0..n).map(|_| gen_call(rng)).collect();
        let mode = *rng.pick(&[BufMode::Fresh, BufMode::Fresh, BufMode::Shared, BufMode::Prefilled]);
        let junk = junk_bufs(rng);
        let mut args = Out::new();
        args.u(n as u64).t(&format!("{:?}", mode));
        // digest of the whole history (so that distinct histories are distinct CASE lines) + its last call
        let mut h: u64 = 0xcbf29ce484222325;
        for c in &calls {
            for b in K::describe(c).bytes() {
                h = (h ^ b as u64).wrapping_mul(0x100000001b3);
            }
        }
        args.t(&format!("h{:016x}", h)).t(&K::describe(&calls[n - 1]).replace(' ', "_"));
        // distribution tag: entry/fault mix of the LAST two calls + length + buffer mode
        let tag = format!("{} n={} {:?} {} <- {}", K::NAME, n, mode, tag_of(&calls[n - 1]), tag_of(&calls[n - 2]));
        (args, tag, move || {
            let mut stats = Stats::default();
            let mut orc = Oracle::new();
            let mut o = Out::new();
            let d = run_history::<K>(&calls, mode, &junk, false, &mut stats);
            o.t("calls").u(stats.calls as u64).t("failed").u(stats.failed_calls as u64).t("nonempty").u(stats.nonempty as u64);
            if let Some((i, diff)) = d {
                // shrink: keep calls[..=i], drop earlier calls while the last call still differs
                let mut hist: Vec<K::Call> = calls[..=i].to_vec();
                let mut changed = true;
                while changed && hist.len() > 1 {
                    changed = false;
                    for j in 0..hist.len() - 1 {
                        let mut h2 = hist.clone();
                        h2.remove(j);
                        let mut st = Stats::default();
                        if run_history::<K>(&h2, mode, &junk, true, &mut st).is_some() {
                            hist = h2;
                            changed = true;
                            break;
                        }
                    }
                }
                let after_unwind = hist[..hist.len() - 1].iter().any(|c| matches!(K::fault(c), Fault::Panic(_)));
                let class = if hist.len() == 1 {
                    // differs on a brand-new tessellator: only the buffers can be responsible
                    "buffers-only"
                } else if after_unwind {
                    "after-unwind"
                } else {
                    "generic"
                };
                let clause = format!("{}.history/{}", K::NAME, diff.clause);
                let text = format!(
                    "{} | buffers={:?} | shortest history ({} calls): {}",
                    diff.what,
                    mode,
                    hist.len(),
                    hist.iter().map(|c| K::describe(c)).collect::<Vec<_>>().join(" ; ")
                );
                orc.check(false, &clause, class, || text);
                o.t("differs");
            } else {
                o.t("same");
            }
            CaseOut { imp: o, orcl: orc.verdict }
        })
    });
}

// ---------------------------------------------------------------------------------------------
// Tie: pooled monotone tessellator (model: `Adv.begin old`; implementation: fresh object, hook H2)

fn gen_mono_seq(rng: &mut Rng, n_mid: usize, valid: bool) -> Vec<(Point, bool)> {
    let lattice = rng.chance(1, 2);
    let c = |rng: &mut Rng, lo: f64, hi: f64| -> f32 {
        if lattice {
            rng.range(lo as i64, hi as i64) as f32
        } else {
            rng.uniform(lo, hi) as f32
        }
    };
    let mut seq = Vec::new();
    let mut y = rng.range(-3, 3) as f32;
    seq.push((point(c(rng, -1.0, 1.0), y), true));
    for _ in 0..n_mid {
        y += if lattice { rng.range(0, 3) as f32 } else { rng.uniform(0.1, 3.0) as f32 };
        let left = rng.chance(1, 2);
        let x = if !valid {
            rng.range(-6, 6) as f32
        } else if left {
            -c(rng, 2.0, 10.0)
        } else {
            c(rng, 2.0, 10.0)
        };
        seq.push((point(x, y), left));
    }
    y += 1.0;
    seq.push((point(c(rng, -1.0, 1.0), y), true));
    seq
}

fn put_seq(o: &mut Out, seq: &[(Point, bool)]) {
    o.u(seq.len() as u64);
    for (p, l) in seq {
        o.p(*p).u(*l as u64);
    }
}

fn mono_reuse_case(ctx: &mut Ctx) {
    ctx.case("mono_reuse:32", |rng| {
        let na = rng.range(0, 14) as usize;
        let nb = if rng.chance(1, 8) { rng.range(15, 40) } else { rng.range(0, 12) } as usize;
        let (va, vb) = (rng.chance(3, 4), rng.chance(3, 4));
        let a = gen_mono_seq(rng, na, va);
        let b = gen_mono_seq(rng, nb, vb);
        // how much of A the old object saw: `cut` vertex calls after begin; `ended` = its end was called too
        let ended = rng.chance(1, 2);
        let cut = if ended { na } else { rng.range(0, na as i64) as usize };
        let mut args = Out::new();
        put_seq(&mut args, &a);
        args.u(cut as u64).u(ended as u64);
        put_seq(&mut args, &b);
        let tag = format!("mono_reuse old={}{} new={} {}", cut, if ended { "+end" } else { "(aborted)" }, nb, if nb == 0 { "trivial" } else { "" });
        (args, tag, move || {
            let tris = lyon_tessellation::verif_monotone(&b, false);
            let mut o = Out::new();
            o.u(tris.len() as u64);
            for t in &tris {
                o.u(t.0 as u64).u(t.1 as u64).u(t.2 as u64);
            }
            // the real code has no public way to reuse the crate-private object; the real reuse path
            // (Spans::pool) is exercised by `hist_fill`.
            CaseOut { imp: o, orcl: Oracle::new().verdict }
        })
    });
}

// ---------------------------------------------------------------------------------------------
// Tie (checker family): interpolated_attributes, model vs implementation, on a reused tessellator

struct AttrRec {
    verts: Vec<(Vec<VertexSource>, Vec<f32>)>,
}
impl GeometryBuilder for AttrRec {
    fn add_triangle(&mut self, _: VertexId, _: VertexId, _: VertexId) {}
}
impl FillGeometryBuilder for AttrRec {
    fn add_fill_vertex(&mut self, mut v: FillVertex) -> Result<VertexId, GeometryBuilderError> {
        let src: Vec<VertexSource> = v.sources().collect();
        let at = v.interpolated_attributes().to_vec();
        self.verts.push((src, at));
        Ok(VertexId(self.verts.len() as u32 - 1))
    }
}

fn interp_case(ctx: &mut Ctx) {
    ctx.case_check("chk_interp", |rng| {
        let nattr = rng.range(1, 3) as usize;
        let spec = PathSpec::gen(rng, nattr, true);
        let prev = FillCall::gen(rng);
        let rule = if rng.chance(1, 2) { FillRule::EvenOdd } else { FillRule::NonZero };
        let tol = *rng.pick(&[0.01f32, 0.1, 1.0]);
        let mut args = Out::new();
        args.u(nattr as u64).t(&spec.describe());
        let tag = format!("chk_interp a{} {} after {}", nattr, spec.kind, FILL_ENTRIES[prev.entry]);
        (args, tag, move || {
            let mut tess = FillTessellator::new();
            // leave something in the tessellator (attrib_buffer of another length, pool, queue)
            let mut scratch: Bufs = VertexBuffers::new();
            let _ = run_fill(&mut tess, &prev, &mut scratch);
            let path = spec.to_path();
            let opts = FillOptions::DEFAULT.with_tolerance(tol).with_fill_rule(rule);
            let mut rec = AttrRec { verts: Vec::new() };
            let r = tess.tessellate_with_ids(path.id_iter(), &path, Some(&path), &opts, &mut rec);
            let mut o = Out::new();
            o.t(if r.is_ok() { "ok" } else { "err" }).u(rec.verts.len() as u64);
            let mut chk = Out::new();
            // the attribute store as the tessellator sees it: endpoint id -> attributes
            let mut ids: Vec<lyon_path::EndpointId> = Vec::new();
            for e in path.id_iter() {
                match e {
                    lyon_path::IdEvent::Begin { at } => ids.push(at),
                    lyon_path::IdEvent::Line { to, .. } | lyon_path::IdEvent::Quadratic { to, .. } | lyon_path::IdEvent::Cubic { to, .. } => ids.push(to),
                    lyon_path::IdEvent::End { .. } => {}
                }
            }
            chk.u(nattr as u64).u(ids.len() as u64);
            for id in &ids {
                chk.u(id.0 as u64);
                for x in path.attributes(*id) {
                    chk.f(*x);
                }
            }
            chk.u(rec.verts.len() as u64);
            let mut multi = 0;
            for (src, at) in &rec.verts {
                chk.u(src.len() as u64);
                if src.len() > 1 {
                    multi += 1;
                }
                for s in src {
                    match s {
                        VertexSource::Endpoint { id } => {
                            chk.t("e").u(id.0 as u64);
                        }
                        VertexSource::Edge { from, to, t } => {
                            chk.t("g").u(from.0 as u64).u(to.0 as u64).f(*t);
                        }
                    }
                }
                chk.u(at.len() as u64);
                for x in at {
                    chk.f(*x);
                }
            }
            o.t("multi").u(multi);
            (CaseOut { imp: o, orcl: Oracle::new().verdict }, Some(chk))
        })
    });
}

// ---------------------------------------------------------------------------------------------
// Family `sweep_reuse:32`: the sweep model on a USED object (`Model/Tess/ResetSweep.lean`).
//
// ONE real `FillTessellator` goes through a history of 2–5 calls on polygonal input: any of the five
// entry points, both rules and orientations, valid and invalid tolerances, `handle_intersections`
// off on inputs that do intersect (the sweep returns `Err(Internal(..))` or panics part-way and
// leaves spans, edges and a half-processed event behind), a geometry builder that refuses the k-th
// vertex (the call is aborted part-way), a `FillBuilder` dropped without `build`.  IMPL is, call by
// call, the COMPLETE emission sequence the geometry builder saw (outcome, every `add_fill_vertex`
// with its output position and sibling edge records — hook H1 —, every `add_triangle`, in order).
// MODEL is `Sweep.fillObj` run over the same history from `St.fresh`: every call starts from the
// state the MODEL of the previous call left behind (`tessellateFrom`: pooled monotone tessellators,
// spans, edges, queue), not from a fresh state.  Oracle `sweep_reuse/fresh-equal`: each call's
// emission on the reused real object equals that of a fresh real object, token for token.

struct ReuseLog {
    o: Out,
    nv: u32,
    /// the k-th vertex offered is refused (1-based; 0 = never)
    refuse_at: u32,
}

impl GeometryBuilder for ReuseLog {
    fn add_triangle(&mut self, a: VertexId, b: VertexId, c: VertexId) {
        self.o.t("t").u(a.0 as u64).u(b.0 as u64).u(c.0 as u64);
    }
    // abort_geometry: what was emitted stays in the log (the model predicts it as well)
}

impl FillGeometryBuilder for ReuseLog {
    fn add_fill_vertex(&mut self, v: FillVertex) -> Result<VertexId, GeometryBuilderError> {
        if self.refuse_at != 0 && self.nv + 1 == self.refuse_at {
            return Err(GeometryBuilderError::InvalidVertex);
        }
        let recs = v.verif_sibling_records();
        self.o.t("v").p(v.position()).u(recs.len() as u64);
        for r in &recs {
            self.o.t(if r.is_edge { "e" } else { "p" }).p(r.position);
            if r.is_edge {
                self.o.p(r.to);
            }
            self.o.f(r.range.start).f(r.range.end).i(r.winding as i64).u(r.from_id.0 as u64).u(r.to_id.0 as u64);
        }
        self.nv += 1;
        Ok(VertexId(self.nv - 1))
    }
}

// (copy of `gen_sweep_stress` of `c01.rs`: the inputs on which the sweep fails or recovers)
/// Inputs aimed at the rarely taken branches of the sweep (flipped intersections, the
/// `next_after` fix-up, snapping, coincident edges, merge vertices during error recovery).
fn gen_sweep_stress(rng: &mut Rng) -> vh::fillgen::Poly {
    use vh::fillgen::Poly;
    use lyon_path::math::point;
    match rng.below(6) {
        0 => {
            // near-level: wide in x, ordinates a few ulps apart -> crossings of almost horizontal edges
            let n = rng.range(4, 9) as usize;
            let base = *rng.pick(&[0.0f32, 1.0, 100.0, 1000.0, 4096.0]);
            let ulp = (base.max(1.0e-3)) * f32::EPSILON;
            let pts = (0..n)
                .map(|_| point(rng.uniform(-50.0, 50.0) as f32, base + rng.range(-6, 6) as f32 * ulp * *rng.pick(&[1.0f32, 1.0, 8.0, 1000.0])))
                .collect();
            Poly { subs: vec![(pts, true)], kind: "near-level" }
        }
        1 => {
            // large fractional coordinates: intersection points round coarsely
            let n = rng.range(4, 9) as usize;
            let s = *rng.pick(&[1.0e3f64, 1.0e4, 1.0e5]);
            let pts = (0..n).map(|_| point(rng.uniform(-s, s) as f32, rng.uniform(-s, s) as f32)).collect();
            Poly { subs: vec![(pts, true)], kind: "big-coords" }
        }
        2 => {
            // several overlapping random triangles / quads: many crossings and merge vertices
            let k = rng.range(2, 5) as usize;
            let mut subs = Vec::new();
            for _ in 0..k {
                let n = rng.range(3, 4) as usize;
                subs.push(((0..n).map(|_| point(rng.uniform(0.0, 10.0) as f32, rng.uniform(0.0, 10.0) as f32)).collect(), true));
            }
            Poly { subs, kind: "overlap-many" }
        }
        3 => {
            // fans of almost equal slopes from a shared apex, ends at different heights
            let apex = point(rng.uniform(-1.0, 1.0) as f32, 0.0);
            let k = rng.range(2, 4) as usize;
            let dir = rng.uniform(-2.0, 2.0);
            let mut subs = Vec::new();
            for _ in 0..k {
                let len = rng.uniform(2.0, 10.0);
                let d = dir + rng.uniform(-1.0, 1.0) * *rng.pick(&[1.0e-3f64, 1.0e-4, 3.0e-5, 1.0e-6, 0.0]);
                let far = if rng.chance(1, 4) {
                    // almost horizontal fan: slope through the inverse branch of the angle test
                    point(apex.x + len as f32, (len * 1.0e-3 * d) as f32)
                } else {
                    point(apex.x + (d * len) as f32, len as f32)
                };
                let third = point(far.x + rng.uniform(-3.0, 3.0) as f32, far.y + rng.uniform(-1.0, 3.0) as f32);
                subs.push((vec![apex, far, third], true));
            }
            Poly { subs, kind: "near-coincident" }
        }
        4 => {
            // comb: many merge and split vertices, then a bar across (merge vertices + crossings)
            let teeth = rng.range(2, 4) as usize;
            let mut pts = vec![point(0.0, 0.0)];
            let up = rng.chance(1, 2);
            for i in 0..teeth {
                let x = i as f32 * 2.0;
                let h = rng.uniform(2.0, 6.0) as f32;
                pts.push(point(x + 0.5 + rng.uniform(-0.3, 0.3) as f32, if up { -h } else { h }));
                pts.push(point(x + 2.0, rng.uniform(-0.5, 0.5) as f32));
            }
            pts.push(point(teeth as f32 * 2.0, if up { 3.0 } else { -3.0 }));
            pts.push(point(0.0, if up { 3.0 } else { -3.0 }));
            let y = rng.uniform(-5.0, 5.0) as f32;
            let bar = vec![
                point(-1.0, y),
                point(teeth as f32 * 2.0 + 1.0, y + rng.uniform(-1.0, 1.0) as f32),
                point(teeth as f32 + rng.uniform(-2.0, 2.0) as f32, y + rng.uniform(0.5, 2.0) as f32),
            ];
            let mut p = Poly { subs: vec![(pts, true), (bar, true)], kind: "comb" };
            if rng.chance(1, 2) {
                p.transform(|q| point(q.y, q.x));
            }
            p
        }
        _ => {
            // lattice zig-zags sharing many vertices and collinear overlapping edges
            let k = rng.range(2, 3) as usize;
            let mut subs = Vec::new();
            for _ in 0..k {
                let n = rng.range(4, 7) as usize;
                subs.push(((0..n).map(|_| point(rng.range(0, 4) as f32, rng.range(0, 4) as f32)).collect(), true));
            }
            Poly { subs, kind: "small-lattice" }
        }
    }
}

/// (copy of four arms of `gen_sweep_directed` of `c01.rs`) inputs on which — with
/// `handle_intersections` off — the sweep returns `Err(Internal(..))`, panics part-way or ends with
/// spans left over: the calls that leave the most behind in the object.  Returns the polygon and the
/// share (in eighths) of calls to run with intersections ignored.
fn gen_sweep_broken(rng: &mut Rng) -> (vh::fillgen::Poly, Option<f32>, u64) {
    use vh::fillgen::Poly;
    let j = |rng: &mut Rng, a: f64| rng.uniform(-a, a) as f32;
    match rng.below(4) {
        0 => {
            // a notch (merge vertex) whose enclosing walls are crossed, below the merge vertex and
            // before it is resolved, by another sub-path: with handle_intersections off the sort of
            // the recovery leaves the merge vertex outside and it has to be moved back
            let h1 = rng.uniform(0.5, 2.0) as f32;
            let hh = rng.uniform(4.0, 8.0) as f32;
            let notch = vec![point(0.0, 0.0), point(1.0 + j(rng, 0.3), h1), point(2.0, j(rng, 0.3)), point(2.0 + j(rng, 0.5), hh), point(j(rng, 0.5), hh + j(rng, 0.5))];
            let y0 = rng.uniform(-1.0, (h1 + 1.0) as f64) as f32;
            let zx = rng.uniform(0.2, 1.8) as f32;
            let zy = rng.uniform(h1 as f64 + 0.3, hh as f64 - 0.3) as f32;
            let mut z = vec![point(-3.0, y0), point(-1.0, y0 + j(rng, 0.5)), point(zx, zy)];
            if rng.chance(1, 2) {
                z.push(point(-3.0 + j(rng, 1.0), zy + rng.uniform(0.2, 2.0) as f32));
            }
            if rng.chance(1, 2) {
                z.reverse();
            }
            let mut p = Poly { subs: if rng.chance(1, 2) { vec![(notch, true), (z, true)] } else { vec![(z, true), (notch, true)] }, kind: "merge-cross" };
            if rng.chance(1, 2) {
                p.transform(|q| point(2.0 - q.x, q.y));
            }
            (p, None, 6)
        }
        1 => {
            // a notch whose walls cross each other below the merge vertex (bow-tie)
            let h1 = rng.uniform(0.3, 1.5) as f32;
            let hh = rng.uniform(3.0, 8.0) as f32;
            let xr = rng.uniform(-3.0, 1.0) as f32;
            let xl = xr + rng.uniform(0.5, 4.0) as f32;
            let mut pts = vec![point(0.0, 0.0), point(1.0 + j(rng, 0.3), h1), point(2.0, j(rng, 0.2)), point(xr, hh), point(xl, hh + j(rng, 1.0))];
            if rng.chance(1, 3) {
                // a second notch next to the first
                pts.insert(3, point(3.0, h1 + j(rng, 0.5)));
                pts.insert(4, point(4.0, j(rng, 0.2)));
            }
            let mut subs = vec![(pts, true)];
            if rng.chance(1, 2) {
                subs.push((vec![point(j(rng, 4.0), j(rng, 4.0) + 3.0), point(j(rng, 4.0), j(rng, 4.0) + 3.0), point(j(rng, 4.0), j(rng, 4.0) + 3.0)], true));
            }
            (Poly { subs, kind: "merge-bowtie" }, None, 6)
        }
        2 => {
            // chaos with intersections ignored: overlapping slivers and triangles on a tiny lattice with
            // ulp-sized jitter (broken sweep states: errors that survive the recovery, spans left over)
            let k = rng.range(3, 6) as usize;
            let mut subs = Vec::new();
            let jit = *rng.pick(&[0.0f64, 1.0e-6, 1.0e-3, 0.2]);
            for _ in 0..k {
                let n = rng.range(3, 5) as usize;
                subs.push(((0..n).map(|_| point(rng.range(0, 5) as f32 + j(rng, jit), rng.range(0, 5) as f32 + j(rng, jit))).collect(), true));
            }
            (Poly { subs, kind: "chaos" }, None, 7)
        }
        _ => {
            // several notches (a comb) with teeth of nearly equal depth, crossed by thin slivers
            let teeth = rng.range(2, 5) as usize;
            let depth = rng.uniform(1.0, 4.0) as f32;
            let mut pts = vec![point(-1.0, -1.0)];
            for i in 0..teeth {
                let x = i as f32 * 2.0;
                pts.push(point(x, depth + j(rng, 1.0e-3) * *rng.pick(&[0.0f32, 1.0, 1000.0])));
                pts.push(point(x + 1.0, j(rng, 0.5)));
            }
            let w = teeth as f32 * 2.0;
            pts.push(point(w, -1.0));
            pts.push(point(w + j(rng, 1.0), depth + rng.uniform(1.0, 5.0) as f32));
            pts.push(point(-1.0 + j(rng, 1.0), depth + rng.uniform(1.0, 5.0) as f32));
            let mut subs = vec![(pts, true)];
            for _ in 0..rng.range(1, 3) {
                let y = depth + rng.uniform(-0.5, 3.0) as f32;
                subs.push((vec![point(-2.0, y), point(w + 1.0, y + j(rng, 2.0)), point(w + 1.0, y + j(rng, 2.0) + 0.3)], true));
            }
            let mut p = Poly { subs, kind: "comb-slivers" };
            if rng.chance(1, 2) {
                p.transform(|q| point(q.x, -q.y));
            }
            (p, None, 5)
        }
    }
}

#[derive(Clone)]
struct RCall {
    poly: vh::fillgen::Poly,
    cfg: vh::fillgen::FillCfg,
    handle_ix: bool,
    refuse: u32,
    dropped: bool,
}

impl RCall {
    fn gen(rng: &mut Rng, last: bool) -> RCall {
        let mut tol_override = None;
        let mut noix_share = 0u64;
        let poly = if rng.chance(1, 12) {
            let (p, tol) = vh::fillgen::gen_poly_extreme(rng);
            tol_override = Some(tol);
            p
        } else if rng.chance(1, 3) {
            gen_sweep_stress(rng)
        } else if rng.chance(1, 3) {
            let (p, _, share) = gen_sweep_broken(rng);
            noix_share = share;
            p
        } else {
            gen_poly(rng, 14)
        };
        let mut poly = poly;
        let mut cfg = vh::fillgen::FillCfg::gen(rng);
        if let Some(t) = tol_override {
            cfg.tolerance = t;
        }
        // a call of the HISTORY may be given a path with one NaN / infinite coordinate: the sweep then
        // returns `Err(PositionIsNaN)` or `Err(Internal(..))` part-way, with spans and edges alive
        let mut nonfinite = false;
        if !last && rng.chance(1, 6) {
            let bad = *rng.pick(&[f32::NAN, f32::NAN, f32::INFINITY, f32::NEG_INFINITY]);
            let n: usize = poly.subs.iter().map(|s| s.0.len()).sum();
            if n > 0 {
                let mut k = rng.below(n as u64) as usize;
                for s in &mut poly.subs {
                    if k < s.0.len() {
                        if rng.chance(1, 2) {
                            s.0[k].x = bad;
                        } else {
                            s.0[k].y = bad;
                        }
                        break;
                    }
                    k -= s.0.len();
                }
                nonfinite = true;
                poly.kind = "nonfinite";
            }
        }
        if !last && rng.chance(1, 10) {
            cfg.tolerance = *rng.pick(&[0.0f32, f32::NAN, -0.5]);
        }
        // the calls of the history often break the precondition of `handle_intersections = false`:
        // that is what leaves the most behind
        let handle_ix = if noix_share > 0 {
            !rng.chance(noix_share, 8)
        } else if last {
            !rng.chance(1, 8)
        } else {
            !rng.chance(1, 3)
        };
        let normal = last && rng.chance(3, 4);
        let refuse = if !normal && rng.chance(3, 10) { rng.range(1, 9) as u32 } else { 0 };
        let dropped = !normal && cfg.entry == 4 && rng.chance(1, 5);
        let mut c = RCall { poly, cfg, handle_ix, refuse, dropped };
        if nonfinite && !c.returns_in_time() {
            // on a few NaN inputs the real code loops forever or panics inside the queue's sort; those
            // are not part of the stream — the coordinate is zeroed
            c.poly.transform(|q| point(if q.x.is_finite() { q.x } else { 0.0 }, if q.y.is_finite() { q.y } else { 0.0 }));
            c.poly.kind = "nonfinite-screened";
        }
        c
    }

    fn put(&self, o: &mut Out) {
        self.cfg.put(o);
        o.b(self.handle_ix).u(self.refuse as u64).b(self.dropped);
        o.u(self.poly.subs.len() as u64);
        for (pts, closed) in &self.poly.subs {
            o.u(pts.len() as u64).b(*closed);
            for p in pts {
                o.p(*p);
            }
        }
    }

    /// one call on `tess`; returns the tokens of the call and whether it panicked
    fn run(&self, tess: &mut FillTessellator) -> (String, bool) {
        let opts = self.cfg.options().with_intersections(self.handle_ix);
        let path = self.poly.to_path();
        let mut log = ReuseLog { o: Out::new(), nv: 0, refuse_at: self.refuse };
        let r = guarded(|| match self.cfg.entry {
            0 => tess.tessellate(path.iter(), &opts, &mut log),
            1 => tess.tessellate_path(&path, &opts, &mut log),
            2 => tess.tessellate_with_ids(path.id_iter(), &path, None, &opts, &mut log),
            3 if self.poly.subs.len() == 1 && !self.poly.subs[0].0.is_empty() => {
                let (pts, closed) = &self.poly.subs[0];
                tess.tessellate_polygon(Polygon { points: &pts[..], closed: *closed }, &opts, &mut log)
            }
            3 => tess.tessellate(path.iter(), &opts, &mut log),
            _ => {
                let mut b = tess.builder(&opts, &mut log);
                for (pts, closed) in &self.poly.subs {
                    if pts.is_empty() {
                        continue;
                    }
                    b.begin(pts[0]);
                    for p in &pts[1..] {
                        b.line_to(*p);
                    }
                    b.end(*closed);
                }
                if self.dropped {
                    drop(b);
                    Ok(())
                } else {
                    b.build()
                }
            }
        });
        match r {
            None => ("call panic".to_string(), true),
            Some(Ok(())) => (format!("call ok {}", log.o.0).trim_end().to_string(), false),
            Some(Err(e)) => (format!("call err {} {}", format!("{:?}", e).replace(' ', "_"), log.o.0).trim_end().to_string(), false),
        }
    }

    /// does the call return (no hang, no panic) on a fresh tessellator within two seconds?  Used only
    /// to screen non-finite inputs; a hung run is left behind in its thread.
    fn returns_in_time(&self) -> bool {
        let (tx, rx) = std::sync::mpsc::channel();
        let c = self.clone();
        std::thread::spawn(move || {
            let (_, panicked) = c.run(&mut FillTessellator::new());
            let _ = tx.send(!panicked);
        });
        matches!(rx.recv_timeout(std::time::Duration::from_secs(2)), Ok(true))
    }

    fn tag(&self) -> &'static str {
        if self.poly.kind == "nonfinite" {
            "nonfinite"
        } else if self.dropped {
            "dropped"
        } else if self.refuse != 0 {
            "refuse"
        } else if self.cfg.tolerance.is_nan() || self.cfg.tolerance <= 0.0 {
            "badtol"
        } else if !self.handle_ix {
            "noix"
        } else {
            "plain"
        }
    }
}

fn sweep_reuse_case(ctx: &mut Ctx) {
    ctx.case("sweep_reuse:32", |rng| {
        let n = rng.range(2, 5) as usize;
        let calls: Vec<RCall> = (0..n).map(|i| RCall::gen(rng, i + 1 == n)).collect();
        let mut args = Out::new();
        args.u(n as u64);
        for c in &calls {
            c.put(&mut args);
        }
        let hist: Vec<&str> = calls[..n - 1].iter().map(|c| c.tag()).collect();
        let tag = format!(
            "sweep_reuse n={} hist={} last={}/{}",
            n,
            hist.join("+"),
            vh::fillgen::ENTRY_NAMES[calls[n - 1].cfg.entry],
            calls[n - 1].tag()
        );
        (args, tag, move || {
            let mut tess = FillTessellator::new();
            let mut o = Out::new();
            let mut orc = Oracle::new();
            let mut unwound = false;
            let mut known_last: Option<(usize, String, String)> = None;
            for (i, c) in calls.iter().enumerate() {
                let (toks, panicked) = c.run(&mut tess);
                let (fresh, _) = c.run(&mut FillTessellator::new());
                o.t(&toks);
                if toks != fresh {
                    if unwound {
                        // registered last so that it cannot mask a difference without a prior unwind
                        known_last.get_or_insert((i, toks.clone(), fresh.clone()));
                    } else {
                        orc.check(false, "sweep_reuse/fresh-equal", "generic", || {
                            format!("call {} of the history differs from a fresh tessellator: reused `{}` fresh `{}`", i, toks, fresh)
                        });
                    }
                }
                unwound |= panicked;
            }
            if let Some((i, a, b)) = known_last {
                orc.check(false, "sweep_reuse/fresh-equal", "after-unwind", || {
                    format!("call {} (after a call that panicked) differs: reused `{}` fresh `{}`", i, a, b)
                });
            }
            CaseOut { imp: o, orcl: orc.verdict }
        })
    });
}


// ---------------------------------------------------------------------------------------------
// Family `sweepc_reuse:32`: the sweep model on a USED object, CURVED input and CUSTOM ATTRIBUTES
// (`Model/Tess/ResetSweepCurves.lean`).
//
// ONE real `FillTessellator` goes through a history of 2–5 calls.  A call is either a polygonal
// call of `sweep_reuse` (`RCall`: the inputs that leave the most behind — `Err` / panics part-way,
// NaN coordinates, refused vertices, dropped builders) or a call on a path with line / quadratic /
// cubic edges and 0–3 custom attributes per endpoint through `tessellate(path.iter())`,
// `tessellate_path`, `tessellate_with_ids` without / with the path as attribute store, `builder()` /
// `builder_with_attributes(n)` (optionally dropped without `build`), with a geometry builder that may
// refuse the k-th vertex, valid and invalid tolerances, `handle_intersections` on / off.  IMPL is,
// call by call, the COMPLETE emission sequence: outcome, every `add_fill_vertex` with its output
// position, ALL sibling edge records (hook H1) and — when the call carries an attribute store — the
// value of `FillVertex::interpolated_attributes()`, every `add_triangle`, in order.  MODEL is
// `SweepCurves.fillObjC` run over the same history from `Obj.fresh`: every call starts from the object
// the MODEL of the previous call left behind (pool, spans, edges, queue, attribute buffer with the
// last interpolated values).  Oracle `sweepc_reuse/fresh-equal`: each call on the reused real object
// equals the same call on a fresh real object, token for token; `sweepc_reuse/attr-count`.

/// (port of `gen_cpath` of `c01.rs` onto this file's `Sub` / `Seg`) curved paths: blobs, lattice /
/// random control polygons, shared curved edges walked in both directions, holes, degenerate
/// curves, monotone curves, several sub-paths, open and closed.
fn gen_csubs(rng: &mut Rng) -> (Vec<Sub>, &'static str) {
    fn cpt(rng: &mut Rng, mode: u64, span: f64) -> Point {
        match mode {
            0 => point(rng.range(0, 8) as f32, rng.range(0, 8) as f32),
            1 => point(rng.range(0, 32) as f32 * 0.25, rng.range(0, 32) as f32 * 0.25),
            _ => point(rng.uniform(-span, span) as f32, rng.uniform(-span, span) as f32),
        }
    }
    fn cseg(rng: &mut Rng, mode: u64, span: f64, curve_bias: u64) -> Seg {
        match rng.below(2 + curve_bias) {
            0 => Seg::Line(cpt(rng, mode, span)),
            k if k % 2 == 1 => Seg::Quad(cpt(rng, mode, span), cpt(rng, mode, span)),
            _ => Seg::Cubic(cpt(rng, mode, span), cpt(rng, mode, span), cpt(rng, mode, span)),
        }
    }
    fn map_seg(g: &Seg, f: &dyn Fn(Point) -> Point) -> Seg {
        match g {
            Seg::Line(p) => Seg::Line(f(*p)),
            Seg::Quad(c, p) => Seg::Quad(f(*c), f(*p)),
            Seg::Cubic(a, b, p) => Seg::Cubic(f(*a), f(*b), f(*p)),
        }
    }
    fn reversed_first(start: Point, e: &Seg) -> Seg {
        match e {
            Seg::Line(_) => Seg::Line(start),
            Seg::Quad(c, _) => Seg::Quad(*c, start),
            Seg::Cubic(a, b, _) => Seg::Cubic(*b, *a, start),
        }
    }
    let kind = rng.below(11);
    let (mut subs, name): (Vec<Sub>, &'static str) = match kind {
        0 | 1 => {
            let mut subs = Vec::new();
            let m = rng.range(1, 3);
            for _ in 0..m {
                let c = point(rng.uniform(-3.0, 3.0) as f32, rng.uniform(-3.0, 3.0) as f32);
                let r = rng.uniform(1.0, 6.0);
                let n = rng.range(2, 5) as usize;
                let ccw = rng.chance(1, 2);
                let ph = rng.uniform(0.0, 6.283);
                let mut k = 0.0f64;
                let at = |rng: &mut Rng, k: f64| {
                    let a = ph + (if ccw { 1.0 } else { -1.0 }) * k * 6.283185307 / (3.0 * n as f64);
                    let rr = r * rng.uniform(0.7, 1.3);
                    point(c.x + (rr * a.cos()) as f32, c.y + (rr * a.sin()) as f32)
                };
                let start = at(rng, 0.0);
                let mut segs = Vec::new();
                for i in 0..n {
                    let last = i + 1 == n;
                    let end = if last && rng.chance(1, 2) { start } else { at(rng, k + 3.0) };
                    segs.push(match rng.below(3) {
                        0 => Seg::Line(end),
                        1 => Seg::Quad(at(rng, k + 1.5), end),
                        _ => Seg::Cubic(at(rng, k + 1.0), at(rng, k + 2.0), end),
                    });
                    k += 3.0;
                }
                subs.push(Sub { start, segs, closed: rng.chance(3, 4) });
            }
            (subs, "blob")
        }
        2 | 3 => {
            let mode = rng.below(2);
            let mut subs = Vec::new();
            for _ in 0..rng.range(1, 3) {
                let start = cpt(rng, mode, 0.0);
                let segs = (0..rng.range(1, 4)).map(|_| cseg(rng, mode, 0.0, 3)).collect();
                subs.push(Sub { start, segs, closed: rng.chance(3, 4) });
            }
            (subs, "lattice")
        }
        4 => {
            let span = *rng.pick(&[1.0f64, 10.0, 10.0, 100.0]);
            let mut subs = Vec::new();
            for _ in 0..rng.range(1, 3) {
                let start = cpt(rng, 2, span);
                let segs = (0..rng.range(1, 4)).map(|_| cseg(rng, 2, span, 4)).collect();
                subs.push(Sub { start, segs, closed: rng.chance(3, 4) });
            }
            (subs, "random")
        }
        5 | 6 => {
            // a curved edge shared by two sub-paths, walked in opposite (or the same) directions
            let mode = rng.below(3);
            let a = cpt(rng, mode, 8.0);
            let e = cseg(rng, mode, 8.0, 6);
            let b = e.to();
            let s1 = Sub { start: a, segs: vec![e.clone(), Seg::Line(cpt(rng, mode, 8.0))], closed: true };
            let s2 = if rng.chance(3, 4) {
                Sub { start: b, segs: vec![reversed_first(a, &e), cseg(rng, mode, 8.0, 2)], closed: true }
            } else {
                Sub { start: a, segs: vec![e, cseg(rng, mode, 8.0, 2)], closed: true }
            };
            (if rng.chance(1, 2) { vec![s1, s2] } else { vec![s2, s1] }, "shared-curve")
        }
        7 => {
            // a shape with a curved hole (either orientation)
            let r = rng.uniform(3.0, 6.0) as f32;
            let ring = |r: f32, ccw: bool, quad: bool| -> Sub {
                let k = if quad { 1.0 } else { 0.5522848 };
                let s = if ccw { 1.0 } else { -1.0 };
                let p = |x: f32, y: f32| point(x * r, s * y * r);
                let mut segs = Vec::new();
                let q = [(1.0, 0.0), (0.0, 1.0), (-1.0, 0.0), (0.0, -1.0), (1.0, 0.0)];
                for i in 0..4 {
                    let (x0, y0) = q[i];
                    let (x1, y1) = q[i + 1];
                    if quad {
                        segs.push(Seg::Quad(p(x0 + x1, y0 + y1), p(x1, y1)));
                    } else {
                        segs.push(Seg::Cubic(p(x0 + k * x1, y0 + k * y1), p(x1 + k * x0, y1 + k * y0), p(x1, y1)));
                    }
                }
                Sub { start: p(1.0, 0.0), segs, closed: true }
            };
            let mut subs = vec![ring(r, rng.chance(1, 2), rng.chance(1, 2))];
            let mut hole = ring(r * rng.uniform(0.2, 0.9) as f32, rng.chance(1, 2), rng.chance(1, 2));
            let off = point(rng.uniform(-1.0, 1.0) as f32, rng.uniform(-1.0, 1.0) as f32);
            hole.start = point(hole.start.x + off.x, hole.start.y + off.y);
            hole.segs = hole.segs.iter().map(|g| map_seg(g, &|q| point(q.x + off.x, q.y + off.y))).collect();
            subs.push(hole);
            (subs, "rings")
        }
        8 => {
            // degenerate curves: coincident / collinear control points, zero-length, from == to loops
            let mode = rng.below(2);
            let start = cpt(rng, mode, 0.0);
            let mut cur = start;
            let mut segs = Vec::new();
            for _ in 0..rng.range(2, 4) {
                let to = cpt(rng, mode, 0.0);
                let mid = point((cur.x + to.x) * 0.5, (cur.y + to.y) * 0.5);
                let g = match rng.below(9) {
                    0 => Seg::Quad(cur, to),
                    1 => Seg::Quad(to, to),
                    2 => Seg::Quad(mid, to),
                    3 => Seg::Quad(cpt(rng, mode, 0.0), cur),
                    4 => Seg::Cubic(cur, to, to),
                    5 => Seg::Cubic(cur, cur, cur),
                    6 => Seg::Cubic(mid, mid, to),
                    7 => Seg::Cubic(cpt(rng, mode, 0.0), cpt(rng, mode, 0.0), cur),
                    _ => Seg::Cubic(to, cur, to),
                };
                cur = g.to();
                segs.push(g);
            }
            (vec![Sub { start, segs, closed: rng.chance(1, 2) }], "degenerate-curves")
        }
        9 => {
            // upward and downward monotone curves side by side, plus tiny sub-paths
            let mut subs = Vec::new();
            let n = rng.range(1, 3);
            for i in 0..n {
                let x = i as f32 * 3.0;
                let h = rng.uniform(2.0, 8.0) as f32;
                let w = rng.uniform(0.5, 3.0) as f32;
                let bulge = rng.uniform(-4.0, 4.0) as f32;
                let up = rng.chance(1, 2);
                let (y0, y1) = if up { (h, 0.0) } else { (0.0, h) };
                subs.push(Sub {
                    start: point(x, y0),
                    segs: vec![
                        Seg::Cubic(point(x + bulge, y0 + (y1 - y0) * 0.3), point(x - bulge, y0 + (y1 - y0) * 0.7), point(x, y1)),
                        Seg::Line(point(x + w, y1)),
                        Seg::Quad(point(x + w + bulge * 0.5, (y0 + y1) * 0.5), point(x + w, y0)),
                    ],
                    closed: rng.chance(1, 2),
                });
            }
            if rng.chance(1, 2) {
                subs.push(Sub { start: point(1.0, 1.0), segs: vec![], closed: rng.chance(1, 2) });
            }
            (subs, "monotone-curves")
        }
        _ => {
            // many overlapping curved sub-paths (crossings between flattened curves)
            let mut subs = Vec::new();
            for _ in 0..rng.range(2, 4) {
                let start = cpt(rng, 2, 5.0);
                let segs = (0..rng.range(2, 3)).map(|_| cseg(rng, 2, 5.0, 2)).collect();
                subs.push(Sub { start, segs, closed: true });
            }
            (subs, "overlap-curves")
        }
    };
    let xf: Option<Box<dyn Fn(Point) -> Point>> = match rng.below(14) {
        0 => Some(Box::new(|q: Point| point(q.x * 1000.0, q.y * 1000.0))),
        1 => Some(Box::new(|q: Point| point(q.x * 0.125, q.y * 0.125))),
        2 => Some(Box::new(|q: Point| point(q.x + 1000.0, q.y - 500.0))),
        3 => Some(Box::new(|q: Point| point(q.x * 0.37 + 0.11, q.y * 1.93 - 0.7))),
        4 => Some(Box::new(|q: Point| point(q.y, q.x))),
        5 => Some(Box::new(|q: Point| point(-q.x, -q.y))),
        _ => None,
    };
    if let Some(f) = xf {
        for s in &mut subs {
            s.start = f(s.start);
            s.segs = s.segs.iter().map(|g| map_seg(g, &*f)).collect();
        }
    }
    (subs, name)
}

const CENTRY_NAMES: [&str; 5] = ["events", "path", "ids", "idsattr", "builder"];

struct ReuseLogC {
    o: Out,
    nv: u32,
    /// the k-th vertex offered is refused (1-based; 0 = never)
    refuse_at: u32,
    /// expected length of `interpolated_attributes()`
    nattr: usize,
    show_attrs: bool,
    bad_count: Option<usize>,
}

impl GeometryBuilder for ReuseLogC {
    fn add_triangle(&mut self, a: VertexId, b: VertexId, c: VertexId) {
        self.o.t("t").u(a.0 as u64).u(b.0 as u64).u(c.0 as u64);
    }
}

impl FillGeometryBuilder for ReuseLogC {
    fn add_fill_vertex(&mut self, mut v: FillVertex) -> Result<VertexId, GeometryBuilderError> {
        if self.refuse_at != 0 && self.nv + 1 == self.refuse_at {
            // the refused vertex is not constructed: `interpolated_attributes` is not called
            return Err(GeometryBuilderError::InvalidVertex);
        }
        let recs = v.verif_sibling_records();
        self.o.t("v").p(v.position()).u(recs.len() as u64);
        for r in &recs {
            self.o.t(if r.is_edge { "e" } else { "p" }).p(r.position);
            if r.is_edge {
                self.o.p(r.to);
            }
            self.o.f(r.range.start).f(r.range.end).i(r.winding as i64).u(r.from_id.0 as u64).u(r.to_id.0 as u64);
        }
        let attrs = v.interpolated_attributes().to_vec();
        if attrs.len() != self.nattr {
            self.bad_count.get_or_insert(attrs.len());
        }
        if self.show_attrs {
            self.o.t("a");
            for x in &attrs {
                self.o.f(*x);
            }
        }
        self.nv += 1;
        Ok(VertexId(self.nv - 1))
    }
}

#[derive(Clone)]
struct CCall {
    subs: Vec<Sub>,
    kind: String,
    /// one attribute vector per endpoint, in command order
    attrs: Vec<Vec<f32>>,
    nattr: usize,
    rule: FillRule,
    orient: Orientation,
    tol: f32,
    entry: usize,
    handle_ix: bool,
    refuse: u32,
    dropped: bool,
}

impl CCall {
    fn gen(rng: &mut Rng, last: bool) -> CCall {
        let entry = rng.below(5) as usize;
        let nattr = if rng.chance(1, 4) { 0 } else { rng.range(1, 3) as usize };
        let mut tol = *rng.pick(&[0.001f32, 0.01, 0.1, 1.0]);
        let badtol = !last && rng.chance(1, 10);
        // an invalid tolerance reaches the flattener of the queue builder before `tessellate_impl`
        // rejects it (flattening at tolerance 0 / NaN is not this property): those paths are polygonal
        let (subs, kind): (Vec<Sub>, String) = if rng.chance(1, 10) {
            // a path that yields NO event (nothing, a lone `begin`/`end`, every edge degenerate): `sort`
            // returns early and `first` is whatever `EventQueue::reset` left in the recycled queue
            let p = point(rng.range(-4, 4) as f32, rng.range(-4, 4) as f32);
            let subs = match rng.below(4) {
                0 => vec![],
                1 => vec![Sub { start: p, segs: vec![], closed: rng.chance(1, 2) }],
                2 => vec![Sub { start: p, segs: vec![Seg::Line(p), Seg::Line(p)], closed: true }],
                _ if badtol => vec![Sub { start: p, segs: vec![Seg::Line(p)], closed: false }],
                _ => vec![Sub { start: p, segs: vec![Seg::Quad(p, p), Seg::Cubic(p, p, p)], closed: true }],
            };
            (subs, "no-events".to_string())
        } else if badtol || rng.chance(1, 4) {
            let p = PathSpec::gen(rng, 0, !badtol);
            (p.subs, format!("poly-{}{}", p.kind, if p.curved { "+curves" } else { "" }))
        } else {
            let (s, k) = gen_csubs(rng);
            (s, k.to_string())
        };
        let scale = subs
            .iter()
            .flat_map(|s| std::iter::once(s.start).chain(s.segs.iter().map(|g| g.to())))
            .fold(1.0e-30f32, |m, p| m.max(p.x.abs()).max(p.y.abs()));
        if scale > 100.0 || scale < 1.0 {
            tol = tol * scale / 10.0;
        }
        if badtol {
            tol = *rng.pick(&[0.0f32, f32::NAN, -0.5]);
        }
        let n_end: usize = subs.iter().map(|s| 1 + s.segs.len()).sum();
        let attrs = (0..n_end).map(|_| (0..nattr).map(|_| rng.range(-64, 64) as f32 * 0.25).collect()).collect();
        let normal = last && rng.chance(3, 4);
        let refuse = if !normal && rng.chance(3, 10) { rng.range(1, 9) as u32 } else { 0 };
        let dropped = !normal && entry == 4 && rng.chance(1, 5);
        CCall {
            subs,
            kind,
            attrs,
            nattr,
            rule: if rng.chance(1, 2) { FillRule::EvenOdd } else { FillRule::NonZero },
            orient: if rng.chance(1, 2) { Orientation::Vertical } else { Orientation::Horizontal },
            tol,
            entry,
            handle_ix: !rng.chance(1, if last { 8 } else { 4 }),
            refuse,
            dropped,
        }
    }

    fn has_store(&self) -> bool {
        match self.entry {
            0 | 2 => false,
            3 => true,
            _ => self.nattr > 0,
        }
    }

    fn put(&self, o: &mut Out) {
        o.u(if self.rule == FillRule::EvenOdd { 0 } else { 1 });
        o.u(if self.orient == Orientation::Vertical { 0 } else { 1 });
        o.f(self.tol);
        o.t(CENTRY_NAMES[self.entry]);
        o.b(self.handle_ix).u(self.nattr as u64).u(self.refuse as u64).b(self.dropped);
        o.u(self.subs.iter().map(|s| 2 + s.segs.len()).sum::<usize>() as u64);
        let mut k = 0usize;
        for s in &self.subs {
            o.t("B").p(s.start);
            for a in &self.attrs[k] {
                o.f(*a);
            }
            k += 1;
            for g in &s.segs {
                match g {
                    Seg::Line(p) => {
                        o.t("L").p(*p);
                    }
                    Seg::Quad(c, p) => {
                        o.t("Q").p(*c).p(*p);
                    }
                    Seg::Cubic(c1, c2, p) => {
                        o.t("C").p(*c1).p(*c2).p(*p);
                    }
                }
                for a in &self.attrs[k] {
                    o.f(*a);
                }
                k += 1;
            }
            o.t("E").b(s.closed);
        }
    }

    fn drive<B: PathBuilder>(&self, b: &mut B) {
        let mut k = 0;
        for s in &self.subs {
            b.begin(s.start, &self.attrs[k]);
            k += 1;
            for g in &s.segs {
                match g {
                    Seg::Line(p) => b.line_to(*p, &self.attrs[k]),
                    Seg::Quad(c, p) => b.quadratic_bezier_to(*c, *p, &self.attrs[k]),
                    Seg::Cubic(c1, c2, p) => b.cubic_bezier_to(*c1, *c2, *p, &self.attrs[k]),
                };
                k += 1;
            }
            b.end(s.closed);
        }
    }

    /// one call on `tess`: the tokens of the call, whether it panicked, and an unexpected attribute count
    fn run(&self, tess: &mut FillTessellator) -> (String, bool, Option<usize>) {
        let opts = FillOptions::tolerance(self.tol)
            .with_fill_rule(self.rule)
            .with_sweep_orientation(self.orient)
            .with_intersections(self.handle_ix);
        let has_store = self.has_store();
        let mut log = ReuseLogC {
            o: Out::new(),
            nv: 0,
            refuse_at: self.refuse,
            nattr: if has_store { self.nattr } else { 0 },
            show_attrs: has_store && self.nattr > 0,
            bad_count: None,
        };
        let n_end: usize = self.subs.iter().map(|s| 1 + s.segs.len()).sum();
        let r = guarded(|| {
            if self.entry == 4 {
                if self.nattr == 0 && n_end % 2 == 0 {
                    // `builder()` is `NoAttributes::wrap` of the same `FillBuilder`
                    let mut b = tess.builder(&opts, &mut log);
                    for s in &self.subs {
                        b.begin(s.start);
                        for g in &s.segs {
                            match g {
                                Seg::Line(p) => b.line_to(*p),
                                Seg::Quad(c, p) => b.quadratic_bezier_to(*c, *p),
                                Seg::Cubic(c1, c2, p) => b.cubic_bezier_to(*c1, *c2, *p),
                            };
                        }
                        b.end(s.closed);
                    }
                    if self.dropped {
                        drop(b);
                        Ok(())
                    } else {
                        b.build()
                    }
                } else {
                    let mut b = tess.builder_with_attributes(self.nattr, &opts, &mut log);
                    self.drive(&mut b);
                    if self.dropped {
                        drop(b);
                        Ok(())
                    } else {
                        b.build()
                    }
                }
            } else {
                let mut b = Path::builder_with_attributes(self.nattr);
                self.drive(&mut b);
                let p = b.build();
                match self.entry {
                    0 => tess.tessellate(p.iter(), &opts, &mut log),
                    1 => tess.tessellate_path(&p, &opts, &mut log),
                    2 => tess.tessellate_with_ids(p.id_iter(), &p, None, &opts, &mut log),
                    _ => tess.tessellate_with_ids(p.id_iter(), &p, Some(&p), &opts, &mut log),
                }
            }
        });
        let bad = log.bad_count;
        match r {
            None => ("call panic".to_string(), true, bad),
            Some(Ok(())) => (format!("call ok {}", log.o.0).trim_end().to_string(), false, bad),
            Some(Err(e)) => (format!("call err {} {}", format!("{:?}", e).replace(' ', "_"), log.o.0).trim_end().to_string(), false, bad),
        }
    }

    fn tag(&self) -> String {
        let what = if self.dropped {
            "dropped"
        } else if self.refuse != 0 {
            "refuse"
        } else if self.tol.is_nan() || self.tol <= 0.0 {
            "badtol"
        } else if !self.handle_ix {
            "noix"
        } else {
            "plain"
        };
        format!("{}/a{}/{}", CENTRY_NAMES[self.entry], self.nattr, what)
    }
}

#[derive(Clone)]
enum ACall {
    P(RCall),
    C(CCall),
}

impl ACall {
    fn run(&self, tess: &mut FillTessellator) -> (String, bool, Option<usize>) {
        match self {
            ACall::P(c) => {
                let (t, p) = c.run(tess);
                (t, p, None)
            }
            ACall::C(c) => c.run(tess),
        }
    }
    fn tag(&self) -> String {
        match self {
            ACall::P(c) => format!("P:{}", c.tag()),
            ACall::C(c) => format!("C:{}", c.tag()),
        }
    }
}

fn sweepc_reuse_case(ctx: &mut Ctx) {
    ctx.case("sweepc_reuse:32", |rng| {
        let n = rng.range(2, 5) as usize;
        let calls: Vec<ACall> = (0..n)
            .map(|i| {
                let last = i + 1 == n;
                if rng.chance(if last { 1 } else { 3 }, 8) {
                    ACall::P(RCall::gen(rng, last))
                } else {
                    ACall::C(CCall::gen(rng, last))
                }
            })
            .collect();
        let mut args = Out::new();
        args.u(n as u64);
        for c in &calls {
            match c {
                ACall::P(c) => {
                    args.t("P");
                    c.put(&mut args);
                }
                ACall::C(c) => {
                    args.t("C");
                    c.put(&mut args);
                }
            }
        }
        let hist: Vec<String> = calls[..n - 1].iter().map(|c| c.tag()).collect();
        let kind = match &calls[n - 1] {
            ACall::C(c) => c.kind.clone(),
            ACall::P(c) => c.poly.kind.to_string(),
        };
        let tag = format!("sweepc_reuse n={} hist={} last={} {}", n, hist.join("+"), calls[n - 1].tag(), kind);
        (args, tag, move || {
            let mut tess = FillTessellator::new();
            let mut o = Out::new();
            let mut orc = Oracle::new();
            let mut unwound = false;
            let mut known_last: Option<(usize, String, String)> = None;
            for (i, c) in calls.iter().enumerate() {
                let (toks, panicked, bad) = c.run(&mut tess);
                let (fresh, _, _) = c.run(&mut FillTessellator::new());
                o.t(&toks);
                orc.check(bad.is_none(), "sweepc_reuse/attr-count", "generic", || {
                    format!("call {}: interpolated_attributes() returned {} values", i, bad.unwrap_or(0))
                });
                if toks != fresh {
                    if unwound {
                        known_last.get_or_insert((i, toks.clone(), fresh.clone()));
                    } else {
                        orc.check(false, "sweepc_reuse/fresh-equal", "generic", || {
                            format!("call {} of the history differs from a fresh tessellator: reused `{}` fresh `{}`", i, toks, fresh)
                        });
                    }
                }
                unwound |= panicked;
            }
            if let Some((i, a, b)) = known_last {
                orc.check(false, "sweepc_reuse/fresh-equal", "after-unwind", || {
                    format!("call {} (after a call that panicked) differs: reused `{}` fresh `{}`", i, a, b)
                });
            }
            CaseOut { imp: o, orcl: orc.verdict }
        })
    });
}


// ---------------------------------------------------------------------------------------------
// Tie (checker family) `chk_stroke_attrs`: `StrokeVertex::interpolated_attributes` on a REUSED
// `StrokeTessellator` (`Model/Tess/StrokeAttrBuffer.lean`).  A history of 2–4 calls with changing
// attribute counts (growing AND shrinking) through `tessellate`, `tessellate_path`,
// `tessellate_with_ids`, `builder()`, `builder_with_attributes(n)` on paths with curves (vertices with
// `VertexSource::Edge`); per call the harness records the attribute store as the stroker sees it and,
// per vertex, its source and the attributes lyon computed.  The Lean model threads the object's
// buffer through the history (`prologueBuffer`: local `Vec` / `clear` + `push(0.0)` × n; `attrsSeqB`:
// the interpolation loop over `buffer.len()`; `bufferAfter`) and must reproduce every attribute bit
// for bit (the model's verdict is a second oracle).

struct StrokeAttrRec {
    verts: Vec<(VertexSource, Vec<f32>)>,
}
impl GeometryBuilder for StrokeAttrRec {
    fn add_triangle(&mut self, _: VertexId, _: VertexId, _: VertexId) {}
}
impl StrokeGeometryBuilder for StrokeAttrRec {
    fn add_stroke_vertex(&mut self, mut v: StrokeVertex) -> Result<VertexId, GeometryBuilderError> {
        let s = v.source();
        let at = v.interpolated_attributes().to_vec();
        self.verts.push((s, at));
        Ok(VertexId(self.verts.len() as u32 - 1))
    }
}

fn stroke_attrs_case(ctx: &mut Ctx) {
    ctx.case_check("chk_stroke_attrs", |rng| {
        let n = rng.range(2, 4) as usize;
        let calls: Vec<StrokeCall> = (0..n)
            .map(|_| loop {
                let mut c = StrokeCall::gen(rng);
                c.fault = Fault::None;
                if matches!(c.entry, 0 | 1 | 2 | 4 | 5) {
                    break c;
                }
            })
            .collect();
        let mut args = Out::new();
        args.u(n as u64);
        for c in &calls {
            args.t(&c.describe().replace(' ', "_"));
        }
        let tag = format!("chk_stroke_attrs {}", calls.iter().map(|c| format!("{}/a{}", STROKE_ENTRIES[c.entry], c.path.nattr)).collect::<Vec<_>>().join("+"));
        (args, tag, move || {
            let mut tess = StrokeTessellator::new();
            let mut o = Out::new();
            let mut chk = Out::new();
            let mut orc = Oracle::new();
            chk.u(n as u64);
            let mut edges = 0u64;
            for c in &calls {
                let opts = c.options();
                let path = c.path.to_path();
                let mut rec = StrokeAttrRec { verts: Vec::new() };
                let nattr = c.path.nattr;
                let r = match c.entry {
                    0 => tess.tessellate(path.iter(), &opts, &mut rec),
                    1 => tess.tessellate_path(&path, &opts, &mut rec),
                    2 if nattr > 0 => tess.tessellate_with_ids(path.id_iter(), &path, Some(&path), &opts, &mut rec),
                    2 => tess.tessellate_with_ids(path.id_iter(), &path, None, &opts, &mut rec),
                    4 => {
                        let mut b = tess.builder(&opts, &mut rec);
                        c.path.drive(&mut b);
                        b.build()
                    }
                    _ => {
                        let mut b = tess.builder_with_attributes(nattr, &opts, &mut rec);
                        c.path.drive(&mut b);
                        b.build()
                    }
                };
                o.t(if r.is_ok() { "ok" } else { "err" }).u(rec.verts.len() as u64);
                // the entry point as the model names it, and the attribute store the stroker sees
                let (kind, n_store): (&str, usize) = match c.entry {
                    0 => ("ev", 0),
                    1 if nattr == 0 => ("ev", 0),
                    1 | 2 => ("ids", nattr),
                    4 => ("bld", 0),
                    _ => ("bld", nattr),
                };
                let mut store: Vec<(u32, Vec<f32>)> = Vec::new();
                if kind == "ids" && n_store > 0 {
                    for e in path.id_iter() {
                        let id = match e {
                            lyon_path::IdEvent::Begin { at } => Some(at),
                            lyon_path::IdEvent::Line { to, .. } | lyon_path::IdEvent::Quadratic { to, .. } | lyon_path::IdEvent::Cubic { to, .. } => Some(to),
                            lyon_path::IdEvent::End { .. } => None,
                        };
                        if let Some(id) = id {
                            store.push((id.0, path.attributes(id).to_vec()));
                        }
                    }
                } else if kind == "bld" && n_store > 0 {
                    // `SimpleAttributeStore::add`: the k-th endpoint gets id k
                    for (k, a) in c.path.attrs.iter().enumerate() {
                        store.push((k as u32, a.clone()));
                    }
                }
                chk.t(kind).u(n_store as u64).u(store.len() as u64);
                for (id, a) in &store {
                    chk.u(*id as u64);
                    for x in a {
                        chk.f(*x);
                    }
                }
                chk.u(rec.verts.len() as u64);
                for (src, at) in &rec.verts {
                    match src {
                        VertexSource::Endpoint { id } => {
                            chk.t("e").u(id.0 as u64);
                        }
                        VertexSource::Edge { from, to, t } => {
                            edges += 1;
                            chk.t("g").u(from.0 as u64).u(to.0 as u64).f(*t);
                        }
                    }
                    chk.u(at.len() as u64);
                    for x in at {
                        chk.f(*x);
                    }
                    orc.check(at.len() == n_store, "stroke_attrs/attr-count", "generic", || {
                        format!("{} [{}]: interpolated_attributes() returned {} values, the store has {}", STROKE_ENTRIES[c.entry], kind, at.len(), n_store)
                    });
                }
            }
            o.t("edges").u(edges);
            (CaseOut { imp: o, orcl: orc.verdict }, Some(chk))
        })
    });
}


fn main() {
    let mut ctx = Ctx::from_args("C08");
    let n_hist_fill = ctx.n(12_000, 400_000);
    let n_hist_stroke = ctx.n(6000, 200_000);
    let n_mono = ctx.n(2000, 60_000);
    let n_interp = ctx.n(1500, 40_000);
    let n_reuse = ctx.n(700, 25_000);
    for _ in 0..n_mono {
        mono_reuse_case(&mut ctx);
    }
    for _ in 0..n_interp {
        interp_case(&mut ctx);
    }
    for _ in 0..n_hist_fill {
        history_case::<FillK>(&mut ctx, "hist_fill", FillCall::gen, FillCall::tag);
    }
    for _ in 0..n_hist_stroke {
        history_case::<StrokeK>(&mut ctx, "hist_stroke", StrokeCall::gen, StrokeCall::tag);
    }
    // the sweep model on a reused object (ids after the older families, so those keep their ids)
    for _ in 0..n_reuse {
        sweep_reuse_case(&mut ctx);
    }
    // the same on curved input with custom attributes (ids after all the older families)
    let n_reuse_c = ctx.n(500, 20_000);
    for _ in 0..n_reuse_c {
        sweepc_reuse_case(&mut ctx);
    }
    // the stroke tessellator's attribute buffer on a reused object (checker family)
    let n_sattr = ctx.n(600, 20_000);
    for _ in 0..n_sattr {
        stroke_attrs_case(&mut ctx);
    }
    // the complete stroker model on a reused object (ids after all the older families)
    let n_sreuse = ctx.n(400, 15_000);
    for _ in 0..n_sreuse {
        stroke_reuse::stroke_reuse_case(&mut ctx);
    }
    ctx.finish();
}
