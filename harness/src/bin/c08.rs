//! C08 — tessellators carry no state from one call to the next.
//!
//! Oracle families (REAL code, end to end; not compared with the model — listed under
//! `conf.compare.oracle_only_families`):
//!
//! * `hist_fill`   — a history of 2–12 calls on ONE `FillTessellator`: paths (polygons from
//!   `vh::fillgen::gen_poly`, some edges turned into quadratic / cubic curves), fill rules,
//!   orientations, attribute counts, tolerances (including the invalid 0 / NaN / negative ones that
//!   return early — after the event queue has been rebuilt), every entry point (`tessellate`,
//!   `tessellate_path`, `tessellate_with_ids`, `tessellate_polygon`, `builder`,
//!   `builder_with_attributes`, `tessellate_rectangle/circle/ellipse`, a builder that is dropped
//!   without `build`), builder faults injected at a random k-th vertex (the call fails part-way) and
//!   a vertex constructor that panics at the k-th vertex (the call unwinds part-way).  After EACH call
//!   the result, the new vertices (position, interpolated attributes, sources — as bit patterns) and
//!   the new indices are compared bit for bit with those of a FRESH tessellator writing into EMPTY
//!   buffers.  Per history the reused tessellator writes either into fresh buffers, into one shared
//!   growing buffer, or into a buffer pre-filled with unrelated content: the new indices must be the
//!   fresh ones plus the number of prior vertices, and the prior content must be untouched.
//! * `hist_stroke` — the same for `StrokeTessellator` (all joins, caps, variable width, entry points).
//!
//! A difference is shrunk (calls are dropped from the history while the difference at the last call
//! persists) and reported with the shortest history.
//!
//! Tie family (compared token by token with the Lean model):
//!
//! * `mono_reuse:32` — the pooled monotone tessellator: IMPL is the crate-private
//!   `AdvancedMonotoneTessellator` on a FRESH object (hook H2 `verif_monotone`) for sequence B;
//!   MODEL is `Adv.begin old` for the state `old` left behind by sequence A (cut at a random point
//!   or run to its end), then sequence B.  Equality is exactly what `monotone_begin_fresh` proves;
//!   here it is observed on the executable model against the real code.
//! * `chk_interp`    — `FillVertex::interpolated_attributes` on a REUSED tessellator (its attribute
//!   buffer holds the leftovers of a call with another attribute count): for every vertex of a real
//!   fill the harness records the source list and the attributes lyon computed; the Lean model
//!   (`Reset.interpAll`, started from a buffer full of junk) must reproduce them bit for bit
//!   (checker family: the model's verdict is a second oracle).

use lyon_path::math::{point, vector, Angle, Box2D, Point};
use lyon_path::traits::{Build, PathBuilder};
use lyon_path::{Path, Polygon, Winding};
use lyon_tessellation::geometry_builder::{BuffersBuilder, VertexBuffers};
use lyon_tessellation::{
    FillGeometryBuilder, FillOptions, FillRule, FillTessellator, FillVertex, FillVertexConstructor, GeometryBuilder,
    GeometryBuilderError, LineCap, LineJoin, Orientation, StrokeGeometryBuilder, StrokeOptions, StrokeTessellator,
    StrokeVertex, StrokeVertexConstructor, VertexId, VertexSource,
};
use vh::fillgen::gen_poly;
use vh::{guarded, CaseOut, Ctx, Oracle, Out, Rng};

// ---------------------------------------------------------------------------------------------
// Paths with curves and attributes

#[derive(Clone, Debug)]
enum Seg {
    Line(Point),
    Quad(Point, Point),
    Cubic(Point, Point, Point),
}

impl Seg {
    fn to(&self) -> Point {
        match self {
            Seg::Line(p) | Seg::Quad(_, p) | Seg::Cubic(_, _, p) => *p,
        }
    }
}

#[derive(Clone, Debug)]
struct Sub {
    start: Point,
    segs: Vec<Seg>,
    closed: bool,
}

#[derive(Clone, Debug)]
struct PathSpec {
    subs: Vec<Sub>,
    nattr: usize,
    /// one attribute vector per endpoint, in path order
    attrs: Vec<Vec<f32>>,
    kind: String,
    curved: bool,
}

impl PathSpec {
    fn gen(rng: &mut Rng, nattr: usize, allow_curves: bool) -> PathSpec {
        let poly = gen_poly(rng, 10);
        let curve_mode = if allow_curves { rng.below(4) } else { 0 }; // 0,1: lines; 2: some; 3: many
        let mut subs = Vec::new();
        let mut curved = false;
        for (pts, closed) in &poly.subs {
            if pts.is_empty() {
                continue;
            }
            let mut segs = Vec::new();
            let mut prev = pts[0];
            for p in &pts[1..] {
                let want = match curve_mode {
                    2 => rng.chance(1, 4),
                    3 => rng.chance(3, 4),
                    _ => false,
                };
                if want {
                    curved = true;
                    let d = *p - prev;
                    let n = vector(-d.y, d.x);
                    let m = prev + d * 0.5;
                    if rng.chance(1, 2) {
                        segs.push(Seg::Quad(m + n * (rng.uniform(-0.6, 0.6) as f32), *p));
                    } else {
                        let c1 = prev + d * 0.3 + n * (rng.uniform(-0.6, 0.6) as f32);
                        let c2 = prev + d * 0.7 + n * (rng.uniform(-0.6, 0.6) as f32);
                        segs.push(Seg::Cubic(c1, c2, *p));
                    }
                } else {
                    segs.push(Seg::Line(*p));
                }
                prev = *p;
            }
            subs.push(Sub { start: pts[0], segs, closed: *closed });
        }
        let n_end: usize = subs.iter().map(|s| 1 + s.segs.len()).sum();
        let attrs = (0..n_end)
            .map(|_| {
                (0..nattr)
                    .map(|j| if j == 0 { rng.uniform(0.25, 3.0) as f32 } else { rng.range(-8, 8) as f32 * 0.5 })
                    .collect()
            })
            .collect();
        PathSpec { subs, nattr, attrs, kind: poly.kind.to_string(), curved }
    }

    fn drive<B: PathBuilder>(&self, b: &mut B) {
        let mut ai = 0;
        for s in &self.subs {
            b.begin(s.start, &self.attrs[ai]);
            ai += 1;
            for seg in &s.segs {
                match seg {
                    Seg::Line(p) => {
                        b.line_to(*p, &self.attrs[ai]);
                    }
                    Seg::Quad(c, p) => {
                        b.quadratic_bezier_to(*c, *p, &self.attrs[ai]);
                    }
                    Seg::Cubic(c1, c2, p) => {
                        b.cubic_bezier_to(*c1, *c2, *p, &self.attrs[ai]);
                    }
                }
                ai += 1;
            }
            b.end(s.closed);
        }
    }

    fn to_path(&self) -> Path {
        let mut b = Path::builder_with_attributes(self.nattr);
        self.drive(&mut b);
        b.build()
    }

    fn single_polygon(&self) -> Option<Vec<Point>> {
        if self.subs.len() != 1 || self.curved {
            return None;
        }
        let s = &self.subs[0];
        let mut v = vec![s.start];
        v.extend(s.segs.iter().map(|g| g.to()));
        Some(v)
    }

    fn bbox(&self) -> Box2D {
        let mut pts = Vec::new();
        for s in &self.subs {
            pts.push(s.start);
            pts.extend(s.segs.iter().map(|g| g.to()));
        }
        if pts.is_empty() {
            return Box2D { min: point(0.0, 0.0), max: point(1.0, 1.0) };
        }
        Box2D::from_points(pts)
    }

    fn describe(&self) -> String {
        let n: usize = self.subs.iter().map(|s| 1 + s.segs.len()).sum();
        format!("{}{}:{}sub/{}pt/a{}", self.kind, if self.curved { "+curves" } else { "" }, self.subs.len(), n, self.nattr)
    }
}

// ---------------------------------------------------------------------------------------------
// Captured vertices (everything the tessellator tells the vertex constructor, as bit patterns)

#[derive(Clone, PartialEq, Debug)]
struct V {
    w: Vec<u32>,
}

fn src_words(w: &mut Vec<u32>, s: VertexSource) {
    match s {
        VertexSource::Endpoint { id } => {
            w.push(0xE0E0);
            w.push(id.0);
        }
        VertexSource::Edge { from, to, t } => {
            w.push(0xED6E);
            w.push(from.0);
            w.push(to.0);
            w.push(t.to_bits());
        }
    }
}

/// vertex constructor; panics at the `panic_at`-th vertex (1-based; 0 = never)
struct Ctor {
    seen: usize,
    panic_at: usize,
    /// read sources / attributes (they are only meaningful with ids)
    with_src: bool,
}

impl FillVertexConstructor<V> for Ctor {
    fn new_vertex(&mut self, mut v: FillVertex) -> V {
        self.seen += 1;
        if self.seen == self.panic_at {
            panic!("C08-injected-ctor-panic");
        }
        let p = v.position();
        let mut w = vec![p.x.to_bits(), p.y.to_bits()];
        if self.with_src {
            for s in v.sources() {
                src_words(&mut w, s);
            }
        }
        w.push(0xA77);
        for a in v.interpolated_attributes() {
            w.push(a.to_bits());
        }
        V { w }
    }
}

impl StrokeVertexConstructor<V> for Ctor {
    fn new_vertex(&mut self, mut v: StrokeVertex) -> V {
        self.seen += 1;
        if self.seen == self.panic_at {
            panic!("C08-injected-ctor-panic");
        }
        let p = v.position();
        let n = v.normal();
        let q = v.position_on_path();
        let mut w = vec![
            p.x.to_bits(),
            p.y.to_bits(),
            n.x.to_bits(),
            n.y.to_bits(),
            q.x.to_bits(),
            q.y.to_bits(),
            v.line_width().to_bits(),
            v.advancement().to_bits(),
            v.side().is_positive() as u32,
        ];
        src_words(&mut w, v.source());
        w.push(0xA77);
        for a in v.interpolated_attributes() {
            w.push(a.to_bits());
        }
        V { w }
    }
}

type Bufs = VertexBuffers<V, u32>;

/// refuses the `k`-th vertex (1-based; 0 = never)
struct Faulty<B> {
    inner: B,
    k: usize,
    seen: usize,
}

impl<B: GeometryBuilder> GeometryBuilder for Faulty<B> {
    fn begin_geometry(&mut self) {
        self.inner.begin_geometry()
    }
    fn end_geometry(&mut self) {
        self.inner.end_geometry()
    }
    fn add_triangle(&mut self, a: VertexId, b: VertexId, c: VertexId) {
        self.inner.add_triangle(a, b, c)
    }
    fn abort_geometry(&mut self) {
        self.inner.abort_geometry()
    }
}
impl<B: FillGeometryBuilder> FillGeometryBuilder for Faulty<B> {
    fn add_fill_vertex(&mut self, v: FillVertex) -> Result<VertexId, GeometryBuilderError> {
        self.seen += 1;
        if self.seen == self.k {
            return Err(GeometryBuilderError::InvalidVertex);
        }
        self.inner.add_fill_vertex(v)
    }
}
impl<B: StrokeGeometryBuilder> StrokeGeometryBuilder for Faulty<B> {
    fn add_stroke_vertex(&mut self, v: StrokeVertex) -> Result<VertexId, GeometryBuilderError> {
        self.seen += 1;
        if self.seen == self.k {
            return Err(GeometryBuilderError::InvalidVertex);
        }
        self.inner.add_stroke_vertex(v)
    }
}

#[derive(Clone, Copy, Debug, PartialEq)]
enum Fault {
    None,
    Refuse(usize),
    Panic(usize),
}

impl Fault {
    fn gen(rng: &mut Rng) -> Fault {
        match rng.below(10) {
            0 | 1 | 2 => Fault::Refuse(rng.range(1, 12) as usize),
            3 => Fault::Panic(rng.range(1, 10) as usize),
            _ => Fault::None,
        }
    }
    fn describe(&self) -> String {
        match self {
            Fault::None => "-".into(),
            Fault::Refuse(k) => format!("refuse@{}", k),
            Fault::Panic(k) => format!("panic@{}", k),
        }
    }
}

// ---------------------------------------------------------------------------------------------
// Fill calls

const FILL_ENTRIES: [&str; 11] = [
    "tessellate", "tessellate_path", "with_ids", "polygon", "builder", "builder_attrs", "rectangle", "circle", "ellipse",
    "builder_dropped", "with_ids_noattr",
];

#[derive(Clone, Debug)]
struct FillCall {
    path: PathSpec,
    rule: FillRule,
    orient: Orientation,
    tol: f32,
    intersections: bool,
    entry: usize,
    fault: Fault,
}

impl FillCall {
    fn gen(rng: &mut Rng) -> FillCall {
        let entry = match rng.below(16) {
            0 | 1 | 2 => 0,
            3 | 4 => 1,
            5 | 6 | 7 => 2,
            8 => 3,
            9 | 10 => 4,
            11 | 12 => 5,
            13 => 6 + rng.below(3) as usize,
            14 => 9,
            _ => 10,
        };
        let nattr = match entry {
            1 | 2 | 5 => rng.below(4) as usize,
            _ => 0,
        };
        // the shape fast paths (6..8) do not validate the tolerance at all (tessellate_circle with
        // tolerance 0 recurses until the stack overflows — not this property): valid tolerances there
        let tol = match rng.below(12) {
            0 if !(6..=8).contains(&entry) => 0.0,
            1 if !(6..=8).contains(&entry) => f32::NAN,
            2 if !(6..=8).contains(&entry) => -0.5,
            _ => *rng.pick(&[0.001f32, 0.01, 0.1, 0.25, 1.0]),
        };
        // an invalid tolerance reaches the flattener of the event-queue builder before it is
        // rejected: keep those paths polygonal (curve flattening at tolerance 0 is not this property)
        let allow_curves = tol > 0.0;
        FillCall {
            path: PathSpec::gen(rng, nattr, allow_curves),
            rule: if rng.chance(1, 2) { FillRule::EvenOdd } else { FillRule::NonZero },
            orient: if rng.chance(1, 2) { Orientation::Vertical } else { Orientation::Horizontal },
            tol,
            intersections: !rng.chance(1, 10),
            entry,
            fault: Fault::gen(rng),
        }
    }
    fn options(&self) -> FillOptions {
        FillOptions::DEFAULT
            .with_tolerance(self.tol)
            .with_fill_rule(self.rule)
            .with_sweep_orientation(self.orient)
            .with_intersections(self.intersections)
    }
    fn describe(&self) -> String {
        format!(
            "[{} {} {} {} tol={} {} fault={}]",
            FILL_ENTRIES[self.entry],
            self.path.describe(),
            if self.rule == FillRule::EvenOdd { "eo" } else { "nz" },
            if self.orient == Orientation::Vertical { "v" } else { "h" },
            self.tol,
            if self.intersections { "" } else { "noint" },
            self.fault.describe()
        )
    }
    fn tag(&self) -> String {
        let tol = if self.tol.is_nan() || self.tol <= 0.0 { "badtol" } else { "tol" };
        let f = match self.fault {
            Fault::None => "nofault",
            Fault::Refuse(_) => "refuse",
            Fault::Panic(_) => "unwind",
        };
        format!("{}/{}/{}/a{}", FILL_ENTRIES[self.entry], tol, f, self.path.nattr)
    }
}

/// Outcome of one call: result text, or "panic"
fn run_fill(tess: &mut FillTessellator, c: &FillCall, bufs: &mut Bufs) -> String {
    let opts = c.options();
    let path = c.path.to_path();
    let (k, pk) = match c.fault {
        Fault::None => (0, 0),
        Fault::Refuse(k) => (k, 0),
        Fault::Panic(k) => (0, k),
    };
    let with_src = true;
    let r = guarded(|| {
        let bb = BuffersBuilder::new(bufs, Ctor { seen: 0, panic_at: pk, with_src });
        let mut out = Faulty { inner: bb, k, seen: 0 };
        match c.entry {
            0 => tess.tessellate(path.iter(), &opts, &mut out),
            1 => tess.tessellate_path(&path, &opts, &mut out),
            2 => {
                if c.path.nattr > 0 {
                    tess.tessellate_with_ids(path.id_iter(), &path, Some(&path), &opts, &mut out)
                } else {
                    tess.tessellate_with_ids(path.id_iter(), &path, None, &opts, &mut out)
                }
            }
            10 => tess.tessellate_with_ids(path.id_iter(), &path, None, &opts, &mut out),
            3 => match c.path.single_polygon() {
                Some(pts) => tess.tessellate_polygon(Polygon { points: &pts[..], closed: c.path.subs[0].closed }, &opts, &mut out),
                None => tess.tessellate(path.iter(), &opts, &mut out),
            },
            4 => {
                let mut b = tess.builder(&opts, &mut out);
                c.path.drive(&mut b);
                b.build()
            }
            5 => {
                let mut b = tess.builder_with_attributes(c.path.nattr, &opts, &mut out);
                c.path.drive(&mut b);
                b.build()
            }
            6 => tess.tessellate_rectangle(&c.path.bbox(), &opts, &mut out),
            7 => {
                let bx = c.path.bbox();
                tess.tessellate_circle(bx.center(), bx.width().max(bx.height()) * 0.5, &opts, &mut out)
            }
            8 => {
                let bx = c.path.bbox();
                tess.tessellate_ellipse(
                    bx.center(),
                    vector(bx.width() * 0.5 + 0.5, bx.height() * 0.5 + 0.25),
                    Angle::radians(0.3),
                    Winding::Positive,
                    &opts,
                    &mut out,
                )
            }
            _ => {
                // a builder that is given the whole path and then dropped without `build`
                let mut b = tess.builder(&opts, &mut out);
                c.path.drive(&mut b);
                drop(b);
                Ok(())
            }
        }
    });
    match r {
        None => "panic".to_string(),
        Some(Ok(())) => "ok".to_string(),
        Some(Err(e)) => format!("err:{:?}", e).replace(' ', ""),
    }
}

// ---------------------------------------------------------------------------------------------
// Stroke calls

const STROKE_ENTRIES: [&str; 10] =
    ["tessellate", "tessellate_path", "with_ids", "polygon", "builder", "builder_attrs", "rectangle", "circle", "ellipse", "builder_dropped"];

#[derive(Clone, Debug)]
struct StrokeCall {
    path: PathSpec,
    join: LineJoin,
    start_cap: LineCap,
    end_cap: LineCap,
    width: f32,
    miter_limit: f32,
    tol: f32,
    var_width: Option<usize>,
    entry: usize,
    fault: Fault,
}

impl StrokeCall {
    fn gen(rng: &mut Rng) -> StrokeCall {
        let entry = match rng.below(16) {
            0 | 1 | 2 => 0,
            3 | 4 => 1,
            5 | 6 | 7 => 2,
            8 => 3,
            9 | 10 => 4,
            11 | 12 | 13 => 5,
            14 => 6 + rng.below(3) as usize,
            _ => 9,
        };
        let nattr = match entry {
            1 | 2 | 5 => rng.below(4) as usize,
            _ => 0,
        };
        let var_width = if nattr > 0 && rng.chance(1, 2) { Some(0) } else { None };
        let caps = [LineCap::Butt, LineCap::Square, LineCap::Round];
        StrokeCall {
            path: PathSpec::gen(rng, nattr, true),
            join: *rng.pick(&[LineJoin::Miter, LineJoin::MiterClip, LineJoin::Round, LineJoin::Bevel]),
            start_cap: *rng.pick(&caps),
            end_cap: *rng.pick(&caps),
            width: *rng.pick(&[0.1f32, 0.5, 1.0, 2.0, 5.0]),
            miter_limit: *rng.pick(&[1.0f32, 2.0, 4.0, 10.0]),
            tol: *rng.pick(&[0.01f32, 0.1, 0.25, 1.0]),
            var_width,
            entry,
            fault: Fault::gen(rng),
        }
    }
    fn options(&self) -> StrokeOptions {
        let mut o = StrokeOptions::DEFAULT
            .with_tolerance(self.tol)
            .with_line_join(self.join)
            .with_start_cap(self.start_cap)
            .with_end_cap(self.end_cap)
            .with_line_width(self.width)
            .with_miter_limit(self.miter_limit);
        if let Some(i) = self.var_width {
            o = o.with_variable_line_width(i);
        }
        o
    }
    fn describe(&self) -> String {
        format!(
            "[{} {} {:?} {:?}/{:?} w={} ml={} tol={} vw={:?} fault={}]",
            STROKE_ENTRIES[self.entry],
            self.path.describe(),
            self.join,
            self.start_cap,
            self.end_cap,
            self.width,
            self.miter_limit,
            self.tol,
            self.var_width,
            self.fault.describe()
        )
    }
    fn tag(&self) -> String {
        let f = match self.fault {
            Fault::None => "nofault",
            Fault::Refuse(_) => "refuse",
            Fault::Panic(_) => "unwind",
        };
        format!("{}/{:?}/{}/a{}{}", STROKE_ENTRIES[self.entry], self.join, f, self.path.nattr, if self.var_width.is_some() { "vw" } else { "" })
    }
}

fn run_stroke(tess: &mut StrokeTessellator, c: &StrokeCall, bufs: &mut Bufs) -> String {
    let opts = c.options();
    let path = c.path.to_path();
    let (k, pk) = match c.fault {
        Fault::None => (0, 0),
        Fault::Refuse(k) => (k, 0),
        Fault::Panic(k) => (0, k),
    };
    let r = guarded(|| {
        let bb = BuffersBuilder::new(bufs, Ctor { seen: 0, panic_at: pk, with_src: true });
        let mut out = Faulty { inner: bb, k, seen: 0 };
        match c.entry {
            0 => tess.tessellate(path.iter(), &opts, &mut out),
            1 => tess.tessellate_path(&path, &opts, &mut out),
            2 => {
                if c.path.nattr > 0 {
                    tess.tessellate_with_ids(path.id_iter(), &path, Some(&path), &opts, &mut out)
                } else {
                    tess.tessellate_with_ids(path.id_iter(), &path, None, &opts, &mut out)
                }
            }
            3 => match c.path.single_polygon() {
                Some(pts) => tess.tessellate_polygon(Polygon { points: &pts[..], closed: c.path.subs[0].closed }, &opts, &mut out),
                None => tess.tessellate(path.iter(), &opts, &mut out),
            },
            4 => {
                let mut b = tess.builder(&opts, &mut out);
                c.path.drive(&mut b);
                b.build()
            }
            5 => {
                let mut b = tess.builder_with_attributes(c.path.nattr, &opts, &mut out);
                c.path.drive(&mut b);
                b.build()
            }
            6 => tess.tessellate_rectangle(&c.path.bbox(), &opts, &mut out),
            7 => {
                let bx = c.path.bbox();
                tess.tessellate_circle(bx.center(), bx.width().max(bx.height()) * 0.5, &opts, &mut out)
            }
            8 => {
                let bx = c.path.bbox();
                tess.tessellate_ellipse(
                    bx.center(),
                    vector(bx.width() * 0.5 + 0.5, bx.height() * 0.5 + 0.25),
                    Angle::radians(0.3),
                    Winding::Positive,
                    &opts,
                    &mut out,
                )
            }
            _ => {
                let mut b = tess.builder(&opts, &mut out);
                c.path.drive(&mut b);
                drop(b);
                Ok(())
            }
        }
    });
    match r {
        None => "panic".to_string(),
        Some(Ok(())) => "ok".to_string(),
        Some(Err(e)) => format!("err:{:?}", e).replace(' ', ""),
    }
}

// ---------------------------------------------------------------------------------------------
// Histories (generic over fill / stroke)

trait Kind {
    type Tess;
    type Call: Clone;
    const NAME: &'static str;
    fn new_tess() -> Self::Tess;
    fn run(t: &mut Self::Tess, c: &Self::Call, b: &mut Bufs) -> String;
    fn describe(c: &Self::Call) -> String;
    fn fault(c: &Self::Call) -> Fault;
}

struct FillK;
impl Kind for FillK {
    type Tess = FillTessellator;
    type Call = FillCall;
    const NAME: &'static str = "fill";
    fn new_tess() -> FillTessellator {
        FillTessellator::new()
    }
    fn run(t: &mut FillTessellator, c: &FillCall, b: &mut Bufs) -> String {
        run_fill(t, c, b)
    }
    fn describe(c: &FillCall) -> String {
        c.describe()
    }
    fn fault(c: &FillCall) -> Fault {
        c.fault
    }
}

struct StrokeK;
impl Kind for StrokeK {
    type Tess = StrokeTessellator;
    type Call = StrokeCall;
    const NAME: &'static str = "stroke";
    fn new_tess() -> StrokeTessellator {
        StrokeTessellator::new()
    }
    fn run(t: &mut StrokeTessellator, c: &StrokeCall, b: &mut Bufs) -> String {
        run_stroke(t, c, b)
    }
    fn describe(c: &StrokeCall) -> String {
        c.describe()
    }
    fn fault(c: &StrokeCall) -> Fault {
        c.fault
    }
}

#[derive(Clone, Copy, PartialEq, Debug)]
enum BufMode {
    /// every call writes into new empty buffers
    Fresh,
    /// all calls append to one buffer
    Shared,
    /// one buffer that already holds unrelated vertices and indices
    Prefilled,
}

fn junk_bufs(rng: &mut Rng) -> Bufs {
    let mut b: Bufs = VertexBuffers::new();
    let nv = rng.range(1, 40) as usize;
    for i in 0..nv {
        b.vertices.push(V { w: vec![0xDEAD_0000 + i as u32, rng.next() as u32] });
    }
    let ni = rng.range(0, 20) as usize * 3;
    for _ in 0..ni {
        b.indices.push(rng.below(nv as u64) as u32);
    }
    b
}

struct Difference {
    clause: &'static str,
    what: String,
}

/// Run the history on one tessellator; compare call `i` (all calls when `only_last` is false)
/// with a fresh tessellator on empty buffers.  Returns the index of the first differing call.
fn run_history<K: Kind>(calls: &[K::Call], mode: BufMode, junk: &Bufs, only_last: bool, stats: &mut Stats) -> Option<(usize, Difference)> {
    let mut tess = K::new_tess();
    let mut shared: Bufs = match mode {
        BufMode::Prefilled => junk.clone(),
        _ => VertexBuffers::new(),
    };
    for (i, c) in calls.iter().enumerate() {
        if mode == BufMode::Fresh {
            shared = VertexBuffers::new();
        }
        let prior = shared.clone();
        let r_reused = K::run(&mut tess, c, &mut shared);
        if only_last && i + 1 != calls.len() {
            if r_reused == "panic" {
                // an unwound call never reached abort_geometry: drop what it left in the buffers
                shared = prior;
            }
            continue;
        }
        let mut fresh_t = K::new_tess();
        let mut fresh_b: Bufs = VertexBuffers::new();
        let r_fresh = K::run(&mut fresh_t, c, &mut fresh_b);
        stats.calls += 1;
        if r_fresh != "ok" {
            stats.failed_calls += 1;
        }
        if !fresh_b.vertices.is_empty() {
            stats.nonempty += 1;
        }
        let site: &'static str = if K::NAME == "fill" { "fill.history" } else { "stroke.history" };
        let _ = site;
        let mk = |clause: &'static str, what: String| Some((i, Difference { clause, what }));
        if r_reused != r_fresh {
            return mk("result", format!("call {} returned {} on the reused tessellator, {} on a fresh one", i, r_reused, r_fresh));
        }
        let (pv, pi) = (prior.vertices.len(), prior.indices.len());
        if shared.vertices.len() < pv || shared.indices.len() < pi || shared.vertices[..pv] != prior.vertices[..] || shared.indices[..pi] != prior.indices[..] {
            return mk("prior-content", format!("call {} changed the {} vertices / {} indices that were already in the buffers", i, pv, pi));
        }
        let newv = &shared.vertices[pv..];
        let newi = &shared.indices[pi..];
        if newv.len() != fresh_b.vertices.len() || newi.len() != fresh_b.indices.len() {
            return mk(
                "geometry",
                format!("call {}: {} vertices / {} indices, fresh tessellator {} / {}", i, newv.len(), newi.len(), fresh_b.vertices.len(), fresh_b.indices.len()),
            );
        }
        if let Some(j) = (0..newv.len()).find(|&j| newv[j] != fresh_b.vertices[j]) {
            return mk("geometry", format!("call {}: vertex {} differs from the fresh tessellator's: {:x?} vs {:x?}", i, j, newv[j].w, fresh_b.vertices[j].w));
        }
        if let Some(j) = (0..newi.len()).find(|&j| newi[j] != fresh_b.indices[j].wrapping_add(pv as u32)) {
            return mk(
                "index-offset",
                format!("call {}: index {} is {} but fresh {} + offset {}", i, j, newi[j], fresh_b.indices[j], pv),
            );
        }
        if r_reused == "panic" {
            shared = prior;
        }
    }
    None
}

#[derive(Default)]
struct Stats {
    calls: usize,
    failed_calls: usize,
    nonempty: usize,
}

fn history_case<K: Kind>(ctx: &mut Ctx, family: &str, gen_call: fn(&mut Rng) -> K::Call, tag_of: fn(&K::Call) -> String) {
    ctx.case(family, |rng| {
        let n = rng.range(2, 12) as usize;
        let calls: Vec<K::Call> = (0..n).map(|_| gen_call(rng)).collect();
        let mode = *rng.pick(&[BufMode::Fresh, BufMode::Fresh, BufMode::Shared, BufMode::Prefilled]);
        let junk = junk_bufs(rng);
        let mut args = Out::new();
        args.u(n as u64).t(&format!("{:?}", mode));
        // digest of the whole history (so that distinct histories are distinct CASE lines) + its last call
        let mut h: u64 = 0xcbf29ce484222325;
        for c in &calls {
            for b in K::describe(c).bytes() {
                h = (h ^ b as u64).wrapping_mul(0x100000001b3);
            }
        }
        args.t(&format!("h{:016x}", h)).t(&K::describe(&calls[n - 1]).replace(' ', "_"));
        // distribution tag: entry/fault mix of the LAST two calls + length + buffer mode
        let tag = format!("{} n={} {:?} {} <- {}", K::NAME, n, mode, tag_of(&calls[n - 1]), tag_of(&calls[n - 2]));
        (args, tag, move || {
            let mut stats = Stats::default();
            let mut orc = Oracle::new();
            let mut o = Out::new();
            let d = run_history::<K>(&calls, mode, &junk, false, &mut stats);
            o.t("calls").u(stats.calls as u64).t("failed").u(stats.failed_calls as u64).t("nonempty").u(stats.nonempty as u64);
            if let Some((i, diff)) = d {
                // shrink: keep calls[..=i], drop earlier calls while the last call still differs
                let mut hist: Vec<K::Call> = calls[..=i].to_vec();
                let mut changed = true;
                while changed && hist.len() > 1 {
                    changed = false;
                    for j in 0..hist.len() - 1 {
                        let mut h2 = hist.clone();
                        h2.remove(j);
                        let mut st = Stats::default();
                        if run_history::<K>(&h2, mode, &junk, true, &mut st).is_some() {
                            hist = h2;
                            changed = true;
                            break;
                        }
                    }
                }
                let after_unwind = hist[..hist.len() - 1].iter().any(|c| matches!(K::fault(c), Fault::Panic(_)));
                let class = if hist.len() == 1 {
                    // differs on a brand-new tessellator: only the buffers can be responsible
                    "buffers-only"
                } else if after_unwind {
                    "after-unwind"
                } else {
                    "generic"
                };
                let clause = format!("{}.history/{}", K::NAME, diff.clause);
                let text = format!(
                    "{} | buffers={:?} | shortest history ({} calls): {}",
                    diff.what,
                    mode,
                    hist.len(),
                    hist.iter().map(|c| K::describe(c)).collect::<Vec<_>>().join(" ; ")
                );
                orc.check(false, &clause, class, || text);
                o.t("differs");
            } else {
                o.t("same");
            }
            CaseOut { imp: o, orcl: orc.verdict }
        })
    });
}

// ---------------------------------------------------------------------------------------------
// Tie: pooled monotone tessellator (model: `Adv.begin old`; implementation: fresh object, hook H2)

fn gen_mono_seq(rng: &mut Rng, n_mid: usize, valid: bool) -> Vec<(Point, bool)> {
    let lattice = rng.chance(1, 2);
    let c = |rng: &mut Rng, lo: f64, hi: f64| -> f32 {
        if lattice {
            rng.range(lo as i64, hi as i64) as f32
        } else {
            rng.uniform(lo, hi) as f32
        }
    };
    let mut seq = Vec::new();
    let mut y = rng.range(-3, 3) as f32;
    seq.push((point(c(rng, -1.0, 1.0), y), true));
    for _ in 0..n_mid {
        y += if lattice { rng.range(0, 3) as f32 } else { rng.uniform(0.1, 3.0) as f32 };
        let left = rng.chance(1, 2);
        let x = if !valid {
            rng.range(-6, 6) as f32
        } else if left {
            -c(rng, 2.0, 10.0)
        } else {
            c(rng, 2.0, 10.0)
        };
        seq.push((point(x, y), left));
    }
    y += 1.0;
    seq.push((point(c(rng, -1.0, 1.0), y), true));
    seq
}

fn put_seq(o: &mut Out, seq: &[(Point, bool)]) {
    o.u(seq.len() as u64);
    for (p, l) in seq {
        o.p(*p).u(*l as u64);
    }
}

fn mono_reuse_case(ctx: &mut Ctx) {
    ctx.case("mono_reuse:32", |rng| {
        let na = rng.range(0, 14) as usize;
        let nb = if rng.chance(1, 8) { rng.range(15, 40) } else { rng.range(0, 12) } as usize;
        let (va, vb) = (rng.chance(3, 4), rng.chance(3, 4));
        let a = gen_mono_seq(rng, na, va);
        let b = gen_mono_seq(rng, nb, vb);
        // how much of A the old object saw: `cut` vertex calls after begin; `ended` = its end was called too
        let ended = rng.chance(1, 2);
        let cut = if ended { na } else { rng.range(0, na as i64) as usize };
        let mut args = Out::new();
        put_seq(&mut args, &a);
        args.u(cut as u64).u(ended as u64);
        put_seq(&mut args, &b);
        let tag = format!("mono_reuse old={}{} new={} {}", cut, if ended { "+end" } else { "(aborted)" }, nb, if nb == 0 { "trivial" } else { "" });
        (args, tag, move || {
            let tris = lyon_tessellation::verif_monotone(&b, false);
            let mut o = Out::new();
            o.u(tris.len() as u64);
            for t in &tris {
                o.u(t.0 as u64).u(t.1 as u64).u(t.2 as u64);
            }
            // the real code has no public way to reuse the crate-private object; the real reuse path
            // (Spans::pool) is exercised by `hist_fill`.
            CaseOut { imp: o, orcl: Oracle::new().verdict }
        })
    });
}

// ---------------------------------------------------------------------------------------------
// Tie (checker family): interpolated_attributes, model vs implementation, on a reused tessellator

struct AttrRec {
    verts: Vec<(Vec<VertexSource>, Vec<f32>)>,
}
impl GeometryBuilder for AttrRec {
    fn add_triangle(&mut self, _: VertexId, _: VertexId, _: VertexId) {}
}
impl FillGeometryBuilder for AttrRec {
    fn add_fill_vertex(&mut self, mut v: FillVertex) -> Result<VertexId, GeometryBuilderError> {
        let src: Vec<VertexSource> = v.sources().collect();
        let at = v.interpolated_attributes().to_vec();
        self.verts.push((src, at));
        Ok(VertexId(self.verts.len() as u32 - 1))
    }
}

fn interp_case(ctx: &mut Ctx) {
    ctx.case_check("chk_interp", |rng| {
        let nattr = rng.range(1, 3) as usize;
        let spec = PathSpec::gen(rng, nattr, true);
        let prev = FillCall::gen(rng);
        let rule = if rng.chance(1, 2) { FillRule::EvenOdd } else { FillRule::NonZero };
        let tol = *rng.pick(&[0.01f32, 0.1, 1.0]);
        let mut args = Out::new();
        args.u(nattr as u64).t(&spec.describe());
        let tag = format!("chk_interp a{} {} after {}", nattr, spec.kind, FILL_ENTRIES[prev.entry]);
        (args, tag, move || {
            let mut tess = FillTessellator::new();
            // leave something in the tessellator (attrib_buffer of another length, pool, queue)
            let mut scratch: Bufs = VertexBuffers::new();
            let _ = run_fill(&mut tess, &prev, &mut scratch);
            let path = spec.to_path();
            let opts = FillOptions::DEFAULT.with_tolerance(tol).with_fill_rule(rule);
            let mut rec = AttrRec { verts: Vec::new() };
            let r = tess.tessellate_with_ids(path.id_iter(), &path, Some(&path), &opts, &mut rec);
            let mut o = Out::new();
            o.t(if r.is_ok() { "ok" } else { "err" }).u(rec.verts.len() as u64);
            let mut chk = Out::new();
            // the attribute store as the tessellator sees it: endpoint id -> attributes
            let mut ids: Vec<lyon_path::EndpointId> = Vec::new();
            for e in path.id_iter() {
                match e {
                    lyon_path::IdEvent::Begin { at } => ids.push(at),
                    lyon_path::IdEvent::Line { to, .. } | lyon_path::IdEvent::Quadratic { to, .. } | lyon_path::IdEvent::Cubic { to, .. } => ids.push(to),
                    lyon_path::IdEvent::End { .. } => {}
                }
            }
            chk.u(nattr as u64).u(ids.len() as u64);
            for id in &ids {
                chk.u(id.0 as u64);
                for x in path.attributes(*id) {
                    chk.f(*x);
                }
            }
            chk.u(rec.verts.len() as u64);
            let mut multi = 0;
            for (src, at) in &rec.verts {
                chk.u(src.len() as u64);
                if src.len() > 1 {
                    multi += 1;
                }
                for s in src {
                    match s {
                        VertexSource::Endpoint { id } => {
                            chk.t("e").u(id.0 as u64);
                        }
                        VertexSource::Edge { from, to, t } => {
                            chk.t("g").u(from.0 as u64).u(to.0 as u64).f(*t);
                        }
                    }
                }
                chk.u(at.len() as u64);
                for x in at {
                    chk.f(*x);
                }
            }
            o.t("multi").u(multi);
            (CaseOut { imp: o, orcl: Oracle::new().verdict }, Some(chk))
        })
    });
}

fn main() {
    let mut ctx = Ctx::from_args("C08");
    let n_hist_fill = ctx.n(12_000, 400_000);
    let n_hist_stroke = ctx.n(6000, 200_000);
    let n_mono = ctx.n(2000, 60_000);
    let n_interp = ctx.n(1500, 40_000);
    for _ in 0..n_mono {
        mono_reuse_case(&mut ctx);
    }
    for _ in 0..n_interp {
        interp_case(&mut ctx);
    }
    for _ in 0..n_hist_fill {
        history_case::<FillK>(&mut ctx, "hist_fill", FillCall::gen, FillCall::tag);
    }
    for _ in 0..n_hist_stroke {
        history_case::<StrokeK>(&mut ctx, "hist_stroke", StrokeCall::gen, StrokeCall::tag);
    }
    ctx.finish();
}
