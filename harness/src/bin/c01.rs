//! C01 — fill tessellation covers exactly the fill-rule interior of a polygonal path.
//!
//! Family `chk_fill`: a generated polygon is tessellated by the real `FillTessellator` through
//! one of the five entry points; the CHECK line hands the outline edges and the output triangles
//! (exact f32 bit patterns) to the Lean slab checker, which decides for EVERY generic point of
//! the plane whether coverage agrees with the fill rule outside the tolerance band.
//! The in-harness oracle checks termination/no panic, index validity and finiteness.
//!
//! Families `sweep:32` / `sweepc:32`: the sweep-line tessellator itself against its Lean model
//! (`Model/Tess/Sweep.lean`, `Model/Tess/SweepCurves.lean`): the COMPLETE emission sequence of the
//! real `FillTessellator` (every vertex with all its sibling edge records, interpolated
//! attributes, every triangle, ok / err / panic) on polygonal resp. curved input, compared bit for
//! bit.  Case ids: `chk_fill` first, then `sweep` (random + stress), `sweepc` (curved), and the
//! directed `sweep` inputs (`gen_sweep_directed`) last, so that earlier families keep their ids.

use lyon_path::math::Point;
use lyon_path::Polygon;
use lyon_tessellation::{
    FillGeometryBuilder, FillTessellator, FillVertex, GeometryBuilder, GeometryBuilderError, VerifEdgeRecord, VertexId,
};
use vh::fillgen::*;
use vh::{CaseOut, Ctx, Oracle, Out};

#[path = "../data/c01_lyon_tests.rs"]
mod lyon_tests;

fn fill_case(ctx: &mut Ctx, max_edges: usize) {
    ctx.case_check("chk_fill", |rng| {
        // one case in eight: a y-monotone polygon whose chains interleave in x (the shape the
        // monotone stage's heuristics are sensitive to), with its sweep sequence kept for attribution
        let mut mono_seq: Option<Vec<(lyon_path::math::Point, bool)>> = None;
        let mut tol_override: Option<f32> = None;
        let poly = if rng.chance(1, 8) {
            let n_mid = rng.range(3, 14) as usize;
            let lattice = rng.chance(1, 4);
            let seq = gen_monotone(rng, n_mid, None, lattice);
            let p = Poly { subs: vec![(monotone_outline(&seq), true)], kind: "monotone" };
            mono_seq = Some(seq);
            p
        } else if rng.chance(1, 10) {
            let (p, tol) = gen_poly_extreme(rng);
            tol_override = Some(tol);
            p
        } else {
            gen_poly(rng, max_edges)
        };
        let mut cfg = FillCfg::gen(rng);
        if let Some(t) = tol_override {
            cfg.tolerance = t;
        }
        let mut args = Out::new();
        cfg.put(&mut args);
        let edges = poly.edges();
        put_edges(&mut args, &edges);
        // the object's history (drawn last: case ids keep their polygons); not part of the CASE line,
        // replayable from (seed, case id)
        let hist = History::gen(rng);
        let tag = format!("fill {} {} n={} {}", poly.kind, ENTRY_NAMES[cfg.entry], edges.len().min(30), hist.tag());
        (args, tag, move || {
            let mut tess = hist.tessellator();
            let mut mesh = Mesh::new();
            let res = run_fill(&mut tess, &poly, &cfg, &mut mesh);
            let mut o = Out::new();
            let mut orc = Oracle::new();
            match res {
                Err(e) => {
                    o.t("err").t(&e.replace(' ', "_"));
                    // the property conditions on success; an error on finite polygonal input is recorded
                    orc.skip("tessellation-error");
                    (CaseOut { imp: o, orcl: orc.verdict }, None)
                }
                Ok(()) => {
                    o.t("ok").u(mesh.vertices.len() as u64).u((mesh.indices.len() / 3) as u64);
                    let nv = mesh.vertices.len() as u32;
                    orc.check(mesh.indices.len() % 3 == 0, "fill/index-count", "generic", || "indices not a multiple of 3".into());
                    orc.check(mesh.indices.iter().all(|&i| i < nv), "fill/index-valid", "generic", || "index out of range".into());
                    orc.check(
                        mesh.vertices.iter().all(|p| p.x.is_finite() && p.y.is_finite()),
                        "fill/finite",
                        "generic",
                        || "non-finite vertex".into(),
                    );
                    // known defect of the advanced monotone tessellator, attributed exactly through
                    // hook H2 (advanced misbehaves on this very sweep sequence, basic does not)
                    if let Some(seq) = &mono_seq {
                        if cfg.orientation == lyon_tessellation::Orientation::Vertical && advanced_monotone_misbehaves(seq) {
                            orc.check(false, "fill/fill", "advanced-chain-fan", || {
                                "advanced monotone tessellator misbehaves on this monotone polygon (basic is correct)".into()
                            });
                        }
                    }
                    if orc.failed() {
                        return (CaseOut { imp: o, orcl: orc.verdict }, None);
                    }
                    // checker input: rule, mode 0 (fill iff), band half-width, edges, triangles
                    let mut c = Out::new();
                    c.u(if cfg.rule == lyon_tessellation::FillRule::EvenOdd { 0 } else { 1 });
                    c.u(0);
                    let delta = cfg.tolerance + poly.scale() * 1.0e-5;
                    c.f(delta);
                    put_edges(&mut c, &edges);
                    put_tris(&mut c, &mesh);
                    (CaseOut { imp: o, orcl: orc.verdict }, Some(c))
                }
            }
        })
    });
}

// ---------------------------------------------------------------------------------------------
// Family `sweep:32`: the sweep-line tessellator itself against its Lean model
// (`lean/LyonVerif/Model/Tess/Sweep.lean`).  IMPL is the COMPLETE output of the real
// `FillTessellator` as its geometry builder sees it, in call order: every `add_fill_vertex`
// (output position + the sibling edge records of the event, hook H1) and every `add_triangle`,
// preceded by `ok` / `err <Debug of the error>` (what was emitted before an error is kept).

enum Emit {
    V(Point, Vec<VerifEdgeRecord>),
    T(u32, u32, u32),
}

#[derive(Default)]
struct SweepLog {
    ems: Vec<Emit>,
    nv: u32,
}

impl GeometryBuilder for SweepLog {
    fn add_triangle(&mut self, a: VertexId, b: VertexId, c: VertexId) {
        self.ems.push(Emit::T(a.0, b.0, c.0));
    }
    // abort_geometry: keep what was emitted (the model predicts it as well)
}

impl FillGeometryBuilder for SweepLog {
    fn add_fill_vertex(&mut self, v: FillVertex) -> Result<VertexId, GeometryBuilderError> {
        self.ems.push(Emit::V(v.position(), v.verif_sibling_records()));
        self.nv += 1;
        Ok(VertexId(self.nv - 1))
    }
}

/// the five entry points on a polygonal input, into the logging builder
fn run_fill_log(tess: &mut FillTessellator, poly: &Poly, cfg: &FillCfg, handle_ix: bool, log: &mut SweepLog) -> Result<(), String> {
    let opts = cfg.options().with_intersections(handle_ix);
    let path = poly.to_path();
    let r = match cfg.entry {
        0 => tess.tessellate(path.iter(), &opts, log),
        1 => tess.tessellate_path(&path, &opts, log),
        2 => tess.tessellate_with_ids(path.id_iter(), &path, None, &opts, log),
        3 if poly.subs.len() == 1 && !poly.subs[0].0.is_empty() => {
            let (pts, closed) = &poly.subs[0];
            tess.tessellate_polygon(Polygon { points: &pts[..], closed: *closed }, &opts, log)
        }
        3 => tess.tessellate(path.iter(), &opts, log),
        _ => {
            use lyon_path::builder::PathBuilder;
            let mut b = tess.builder(&opts, log);
            for (pts, closed) in &poly.subs {
                if pts.is_empty() {
                    continue;
                }
                b.begin(pts[0]);
                for p in &pts[1..] {
                    b.line_to(*p);
                }
                b.end(*closed);
            }
            b.build()
        }
    };
    r.map_err(|e| format!("{:?}", e))
}

/// Inputs aimed at the rarely taken branches of the sweep (flipped intersections, the
/// `next_after` fix-up, snapping, coincident edges, merge vertices during error recovery).
fn gen_sweep_stress(rng: &mut vh::Rng) -> Poly {
    use lyon_path::math::point;
    match rng.below(6) {
        0 => {
            // near-level: wide in x, ordinates a few ulps apart -> crossings of almost horizontal edges
            let n = rng.range(4, 9) as usize;
            let base = *rng.pick(&[0.0f32, 1.0, 100.0, 1000.0, 4096.0]);
            let ulp = (base.max(1.0e-3)) * f32::EPSILON;
            let pts = (0..n)
                .map(|_| point(rng.uniform(-50.0, 50.0) as f32, base + rng.range(-6, 6) as f32 * ulp * *rng.pick(&[1.0f32, 1.0, 8.0, 1000.0])))
                .collect();
            Poly { subs: vec![(pts, true)], kind: "near-level" }
        }
        1 => {
            // large fractional coordinates: intersection points round coarsely
            let n = rng.range(4, 9) as usize;
            let s = *rng.pick(&[1.0e3f64, 1.0e4, 1.0e5]);
            let pts = (0..n).map(|_| point(rng.uniform(-s, s) as f32, rng.uniform(-s, s) as f32)).collect();
            Poly { subs: vec![(pts, true)], kind: "big-coords" }
        }
        2 => {
            // several overlapping random triangles / quads: many crossings and merge vertices
            let k = rng.range(2, 5) as usize;
            let mut subs = Vec::new();
            for _ in 0..k {
                let n = rng.range(3, 4) as usize;
                subs.push(((0..n).map(|_| point(rng.uniform(0.0, 10.0) as f32, rng.uniform(0.0, 10.0) as f32)).collect(), true));
            }
            Poly { subs, kind: "overlap-many" }
        }
        3 => {
            // fans of almost equal slopes from a shared apex, ends at different heights
            let apex = point(rng.uniform(-1.0, 1.0) as f32, 0.0);
            let k = rng.range(2, 4) as usize;
            let dir = rng.uniform(-2.0, 2.0);
            let mut subs = Vec::new();
            for _ in 0..k {
                let len = rng.uniform(2.0, 10.0);
                let d = dir + rng.uniform(-1.0, 1.0) * *rng.pick(&[1.0e-3f64, 1.0e-4, 3.0e-5, 1.0e-6, 0.0]);
                let far = if rng.chance(1, 4) {
                    // almost horizontal fan: slope through the inverse branch of the angle test
                    point(apex.x + len as f32, (len * 1.0e-3 * d) as f32)
                } else {
                    point(apex.x + (d * len) as f32, len as f32)
                };
                let third = point(far.x + rng.uniform(-3.0, 3.0) as f32, far.y + rng.uniform(-1.0, 3.0) as f32);
                subs.push((vec![apex, far, third], true));
            }
            Poly { subs, kind: "near-coincident" }
        }
        4 => {
            // comb: many merge and split vertices, then a bar across (merge vertices + crossings)
            let teeth = rng.range(2, 4) as usize;
            let mut pts = vec![point(0.0, 0.0)];
            let up = rng.chance(1, 2);
            for i in 0..teeth {
                let x = i as f32 * 2.0;
                let h = rng.uniform(2.0, 6.0) as f32;
                pts.push(point(x + 0.5 + rng.uniform(-0.3, 0.3) as f32, if up { -h } else { h }));
                pts.push(point(x + 2.0, rng.uniform(-0.5, 0.5) as f32));
            }
            pts.push(point(teeth as f32 * 2.0, if up { 3.0 } else { -3.0 }));
            pts.push(point(0.0, if up { 3.0 } else { -3.0 }));
            let y = rng.uniform(-5.0, 5.0) as f32;
            let bar = vec![
                point(-1.0, y),
                point(teeth as f32 * 2.0 + 1.0, y + rng.uniform(-1.0, 1.0) as f32),
                point(teeth as f32 + rng.uniform(-2.0, 2.0) as f32, y + rng.uniform(0.5, 2.0) as f32),
            ];
            let mut p = Poly { subs: vec![(pts, true), (bar, true)], kind: "comb" };
            if rng.chance(1, 2) {
                p.transform(|q| point(q.y, q.x));
            }
            p
        }
        _ => {
            // lattice zig-zags sharing many vertices and collinear overlapping edges
            let k = rng.range(2, 3) as usize;
            let mut subs = Vec::new();
            for _ in 0..k {
                let n = rng.range(4, 7) as usize;
                subs.push(((0..n).map(|_| point(rng.range(0, 4) as f32, rng.range(0, 4) as f32)).collect(), true));
            }
            Poly { subs, kind: "small-lattice" }
        }
    }
}

/// Inputs constructed to reach the branches of the sweep that the random streams do not reach
/// (measured with the model's `sweepcov` instrumentation): error recovery while a merge vertex is
/// pending, an intersection that rounds onto the current position, errors that survive the
/// recovery.  Returns the polygon, an optional tolerance, and the share (in eighths) of cases run
/// with `handle_intersections = false`.
fn gen_sweep_directed(rng: &mut vh::Rng) -> (Poly, Option<f32>, u64) {
    use lyon_path::math::point;
    let j = |rng: &mut vh::Rng, a: f64| rng.uniform(-a, a) as f32;
    match rng.below(8) {
        7 => {
            // not finite: one coordinate NaN or infinite (outside the property; the modelled outcome is
            // `Err(UnsupportedParamater(PositionIsNaN))` after the vertices before it, or a sweep over infinities)
            let mut p = gen_poly(rng, 8);
            let bad = *rng.pick(&[f32::NAN, f32::NAN, f32::INFINITY, f32::NEG_INFINITY]);
            let n: usize = p.subs.iter().map(|s| s.0.len()).sum();
            if n > 0 {
                let mut k = rng.below(n as u64) as usize;
                for s in &mut p.subs {
                    if k < s.0.len() {
                        if rng.chance(1, 2) {
                            s.0[k].x = bad;
                        } else {
                            s.0[k].y = bad;
                        }
                        break;
                    }
                    k -= s.0.len();
                }
            }
            p.kind = "nonfinite";
            (p, None, 1)
        }
        6 => {
            // finite but huge coordinates: differences and products overflow f32 inside the sweep
            let s = *rng.pick(&[1.0e19f64, 1.0e30, 1.0e37, 1.5e38, 3.0e38]);
            let k = rng.range(1, 3) as usize;
            let mut subs = Vec::new();
            for _ in 0..k {
                let n = rng.range(3, 6) as usize;
                subs.push(((0..n).map(|_| point(rng.uniform(-s, s) as f32, rng.uniform(-s, s) as f32)).collect(), true));
            }
            (Poly { subs, kind: "huge" }, None, 1)
        }
        0 => {
            // a notch (merge vertex) whose enclosing walls are crossed, below the merge vertex and
            // before it is resolved, by another sub-path: with handle_intersections off the sort of
            // the recovery leaves the merge vertex outside and it has to be moved back
            let h1 = rng.uniform(0.5, 2.0) as f32;
            let hh = rng.uniform(4.0, 8.0) as f32;
            let notch = vec![point(0.0, 0.0), point(1.0 + j(rng, 0.3), h1), point(2.0, j(rng, 0.3)), point(2.0 + j(rng, 0.5), hh), point(j(rng, 0.5), hh + j(rng, 0.5))];
            let y0 = rng.uniform(-1.0, (h1 + 1.0) as f64) as f32;
            let zx = rng.uniform(0.2, 1.8) as f32;
            let zy = rng.uniform(h1 as f64 + 0.3, hh as f64 - 0.3) as f32;
            let mut z = vec![point(-3.0, y0), point(-1.0, y0 + j(rng, 0.5)), point(zx, zy)];
            if rng.chance(1, 2) {
                z.push(point(-3.0 + j(rng, 1.0), zy + rng.uniform(0.2, 2.0) as f32));
            }
            if rng.chance(1, 2) {
                z.reverse();
            }
            let mut p = Poly { subs: if rng.chance(1, 2) { vec![(notch, true), (z, true)] } else { vec![(z, true), (notch, true)] }, kind: "merge-cross" };
            if rng.chance(1, 2) {
                p.transform(|q| point(2.0 - q.x, q.y));
            }
            (p, None, 6)
        }
        1 => {
            // a notch whose walls cross each other below the merge vertex (bow-tie)
            let h1 = rng.uniform(0.3, 1.5) as f32;
            let hh = rng.uniform(3.0, 8.0) as f32;
            let xr = rng.uniform(-3.0, 1.0) as f32;
            let xl = xr + rng.uniform(0.5, 4.0) as f32;
            let mut pts = vec![point(0.0, 0.0), point(1.0 + j(rng, 0.3), h1), point(2.0, j(rng, 0.2)), point(xr, hh), point(xl, hh + j(rng, 1.0))];
            if rng.chance(1, 3) {
                // a second notch next to the first
                pts.insert(3, point(3.0, h1 + j(rng, 0.5)));
                pts.insert(4, point(4.0, j(rng, 0.2)));
            }
            let mut subs = vec![(pts, true)];
            if rng.chance(1, 2) {
                subs.push((vec![point(j(rng, 4.0), j(rng, 4.0) + 3.0), point(j(rng, 4.0), j(rng, 4.0) + 3.0), point(j(rng, 4.0), j(rng, 4.0) + 3.0)], true));
            }
            (Poly { subs, kind: "merge-bowtie" }, None, 6)
        }
        2 => {
            // an intersection that rounds onto the current position: a nearly level active edge passes
            // less than half an ulp below the current vertex, several ulps away at the vertex' own
            // ordinate, and the edge leaving the vertex runs into it
            let m = *rng.pick(&[1.0e3f64, 1.0e4, 1.0e5, 1.0e6]);
            let cx = (m * rng.uniform(0.5, 1.0)) as f32;
            let cy = (m * rng.uniform(0.5, 1.0)) as f32;
            let ux = (cx as f64) * (f32::EPSILON as f64);
            let uy = (cy as f64) * (f32::EPSILON as f64);
            let dx = rng.uniform(-0.5, 0.5) * ux;
            let dy = rng.uniform(0.0, 0.5) * uy;
            // the active edge: through I = cur + (dx, dy), slope `sl` (|sl| small)
            let sl = rng.uniform(0.002, 0.06) * if rng.chance(1, 2) { 1.0 } else { -1.0 };
            let (ix, iy) = (cx as f64 + dx, cy as f64 + dy);
            let la = rng.uniform(1.0, 50.0) * m * 1.0e-3;
            let lb = rng.uniform(1.0, 50.0) * m * 1.0e-3;
            // upper end has the smaller ordinate
            let (a, b) = if sl > 0.0 {
                (point((ix - la) as f32, (iy - la * sl) as f32), point((ix + lb) as f32, (iy + lb * sl) as f32))
            } else {
                (point((ix + la) as f32, (iy + la * sl) as f32), point((ix - lb) as f32, (iy - lb * sl) as f32))
            };
            // the edge leaving the current vertex through I and beyond
            let k = rng.uniform(10.0, 1000.0) * m * 1.0e-3 / (dx * dx + dy * dy).sqrt().max(1.0e-30);
            let c = point((cx as f64 + dx * k) as f32, (cy as f64 + dy * k).max(cy as f64) as f32);
            let cur = point(cx, cy);
            let third = point(cx + j(rng, 1.0) * (m as f32) * 0.01, cy - rng.uniform(0.001, 0.02) as f32 * m as f32);
            let q = point(a.x + j(rng, 1.0) * (m as f32) * 0.01, a.y - rng.uniform(0.001, 0.02) as f32 * m as f32);
            let t1 = vec![cur, c, third];
            let t2 = vec![a, b, q];
            let subs = if rng.chance(1, 2) { vec![(t1, true), (t2, true)] } else { vec![(t2, true), (t1, true)] };
            (Poly { subs, kind: "touch-at-current" }, Some(0.001), 0)
        }
        3 => {
            // chaos with intersections ignored: overlapping slivers and triangles on a tiny lattice with
            // ulp-sized jitter (broken sweep states: errors that survive the recovery, spans left over)
            let k = rng.range(3, 6) as usize;
            let mut subs = Vec::new();
            let jit = *rng.pick(&[0.0f64, 1.0e-6, 1.0e-3, 0.2]);
            for _ in 0..k {
                let n = rng.range(3, 5) as usize;
                subs.push(((0..n).map(|_| point(rng.range(0, 5) as f32 + j(rng, jit), rng.range(0, 5) as f32 + j(rng, jit))).collect(), true));
            }
            (Poly { subs, kind: "chaos" }, None, 7)
        }
        4 => {
            // several notches (a comb) with teeth of nearly equal depth, crossed by thin slivers
            let teeth = rng.range(2, 5) as usize;
            let depth = rng.uniform(1.0, 4.0) as f32;
            let mut pts = vec![point(-1.0, -1.0)];
            for i in 0..teeth {
                let x = i as f32 * 2.0;
                pts.push(point(x, depth + j(rng, 1.0e-3) * *rng.pick(&[0.0f32, 1.0, 1000.0])));
                pts.push(point(x + 1.0, j(rng, 0.5)));
            }
            let w = teeth as f32 * 2.0;
            pts.push(point(w, -1.0));
            pts.push(point(w + j(rng, 1.0), depth + rng.uniform(1.0, 5.0) as f32));
            pts.push(point(-1.0 + j(rng, 1.0), depth + rng.uniform(1.0, 5.0) as f32));
            let mut subs = vec![(pts, true)];
            for _ in 0..rng.range(1, 3) {
                let y = depth + rng.uniform(-0.5, 3.0) as f32;
                subs.push((vec![point(-2.0, y), point(w + 1.0, y + j(rng, 2.0)), point(w + 1.0, y + j(rng, 2.0) + 0.3)], true));
            }
            let mut p = Poly { subs, kind: "comb-slivers" };
            if rng.chance(1, 2) {
                p.transform(|q| point(q.x, -q.y));
            }
            (p, None, 5)
        }
        _ => {
            // lyon's own regression inputs (polygonal ones), exactly or with their points nudged by an ulp
            // (not `fuzzing_test_case_01`: its 108 points repeat many edges, and at one vertex 34 pending edges
            // with TIED sort keys reach `sort_unstable_by`; the order ipnsort leaves ties in is not modelled —
            // the model answers `unmodelled sort-gt20-inconsistent` there)
            let polys: Vec<&(&str, &[(u8, [f32; 6])])> =
                lyon_tests::LYON_TESTS.iter().filter(|t| t.1.len() <= 100 && t.1.iter().all(|c| c.0 != 2 && c.0 != 3)).collect();
            let t = *rng.pick(&polys);
            let nudge = rng.chance(1, 3);
            let mut subs: Vec<(Vec<Point>, bool)> = Vec::new();
            for c in t.1 {
                match c.0 {
                    0 | 1 => {
                        let mut p = point(c.1[0], c.1[1]);
                        if nudge && rng.chance(1, 4) {
                            let nd = |v: f32, d: i64| -> f32 {
                                let w = f32::from_bits((v.to_bits() as i64 + d) as u32);
                                if v != 0.0 && w.is_finite() && (w - v).abs() <= v.abs() * 1.0e-6 {
                                    w
                                } else {
                                    v
                                }
                            };
                            p.x = nd(p.x, rng.range(-1, 1));
                            p.y = nd(p.y, rng.range(-1, 1));
                        }
                        if c.0 == 0 {
                            subs.push((vec![p], false));
                        } else {
                            subs.last_mut().unwrap().0.push(p);
                        }
                    }
                    e => {
                        subs.last_mut().unwrap().1 = e == 5;
                    }
                }
            }
            let mut p = Poly { subs, kind: "lyon-tests" };
            match rng.below(6) {
                0 => p.transform(|q| point(q.y, q.x)),
                1 => p.transform(|q| point(-q.x, -q.y)),
                2 => p.transform(|q| point(q.x * 0.5, q.y * 0.5)),
                _ => {}
            }
            (p, if rng.chance(1, 2) { Some(0.05) } else { None }, 3)
        }
    }
}

/// Near-lattice polygons with ulp-sized perturbations plus a nearly retraced twin (growth task ga-c01):
/// the input class on which the merge-vertex fix-up of `sort_active_edges` runs off the front of the
/// active list (finding C01-sort-active-edges-merge-underflow, fixed by lyon 747d7f78: now Err(MergeVertexOutside)).  One case in 16 is the stored witness
/// itself (default `FillOptions`: even-odd, vertical, tolerance 0.1, intersections handled).
fn gen_ulp_twin(rng: &mut vh::Rng) -> (Poly, Option<f32>, Option<FillCfg>) {
    use lyon_path::math::point;
    let fb = |b: u32| f32::from_bits(b);
    if rng.chance(1, 16) {
        let a: [(u32, u32); 7] = [
            (0xbec49ba6, 0x3f03126f), (0xbec49ba6, 0x3e03126e), (0xbe03126f, 0x3ec49ba4), (0xbe03126f, 0x3f03126e),
            (0xbec49ba7, 0x3ec49ba6), (0xbe03126f, 0x3ec49ba8), (0xbe03126f, 0x3e83126f),
        ];
        let b: [(u32, u32); 8] = [
            (0xbe031270, 0x3e83126f), (0xbe031270, 0x3ec49ba7), (0xbec49ba6, 0x3ec49ba5), (0xbe03126e, 0x3f03126e),
            (0xbec49ba7, 0x3f031272), (0xbe03126f, 0x3ec49ba5), (0xbec49ba7, 0x3e03126f), (0xbec49ba6, 0x3f03126f),
        ];
        let subs = vec![
            (a.iter().map(|p| point(fb(p.0), fb(p.1))).collect(), false),
            (b.iter().map(|p| point(fb(p.0), fb(p.1))).collect(), false),
        ];
        let cfg = FillCfg { rule: lyon_tessellation::FillRule::EvenOdd, orientation: lyon_tessellation::Orientation::Vertical, tolerance: 0.1, entry: rng.below(5) as usize };
        return (Poly { subs, kind: "ulp-twin-witness" }, None, Some(cfg));
    }
    let nudge = |rng: &mut vh::Rng, v: f32, span: i64| -> f32 {
        if v == 0.0 {
            return v;
        }
        let d = if rng.chance(1, 2) { 0 } else { rng.range(-span, span) };
        f32::from_bits((v.to_bits() as i64 + d) as u32)
    };
    let m = *rng.pick(&[2i64, 3, 3, 4]);
    let n = rng.range(3, 8) as usize;
    let sc = *rng.pick(&[1.0f32, 1.0, 0.001, 0.125, 128.0, 1024.0]);
    let base: Vec<Point> = (0..n).map(|_| point((rng.range(0, m) as f32 + 1.0) * sc, (rng.range(0, m) as f32 + 1.0) * sc)).collect();
    let first: Vec<Point> = base.iter().map(|p| point(nudge(rng, p.x, 2), nudge(rng, p.y, 3))).collect();
    let mut subs = vec![(first.clone(), rng.chance(1, 2))];
    if rng.chance(2, 3) {
        let mut twin: Vec<Point> = first.iter().map(|p| point(nudge(rng, p.x, 1), nudge(rng, p.y, 1))).collect();
        twin.reverse();
        if rng.chance(1, 2) {
            twin.push(base[0]);
        }
        subs.push((twin, rng.chance(1, 2)));
    }
    let tol = *rng.pick(&[0.0001f32, 0.001, 0.01, 0.1, 1.0]) * sc;
    (Poly { subs, kind: "ulp-twin" }, Some(tol), None)
}

/// does the real tessellator return (Ok or Err, no panic) within two seconds on this input?
/// Used only to screen NON-FINITE inputs; a hung run is left behind in its thread.
fn returns_in_time(poly: &Poly, cfg: &FillCfg, handle_ix: bool) -> bool {
    if std::env::var("C01_NO_SCREEN").is_ok() {
        return true; // development aid: show the unscreened stream
    }
    let (tx, rx) = std::sync::mpsc::channel();
    let (poly, cfg) = (poly.clone(), *cfg);
    std::thread::spawn(move || {
        let r = vh::guarded(|| {
            let mut tess = FillTessellator::new();
            let mut log = SweepLog::default();
            let _ = run_fill_log(&mut tess, &poly, &cfg, handle_ix, &mut log);
        });
        let _ = tx.send(r.is_some());
    });
    matches!(rx.recv_timeout(std::time::Duration::from_secs(2)), Ok(true))
}

fn sweep_case(ctx: &mut Ctx, max_edges: usize, directed: bool, twin: bool) {
    ctx.case("sweep:32", |rng| {
        let mut tol_override: Option<f32> = None;
        let mut noix_num = 0u64;
        let mut cfg_override: Option<FillCfg> = None;
        let poly = if twin {
            let (p, tol, cfg) = gen_ulp_twin(rng);
            tol_override = tol;
            cfg_override = cfg;
            p
        } else if directed {
            let (p, tol, noix) = gen_sweep_directed(rng);
            tol_override = tol;
            noix_num = noix;
            if rng.chance(1, 64) {
                // an invalid tolerance: `Err(UnsupportedParamater(ToleranceIsNaN))`, nothing emitted
                tol_override = Some(*rng.pick(&[f32::NAN, 0.0, -0.5]));
            }
            p
        } else if rng.chance(1, 3) {
            gen_sweep_stress(rng)
        } else if rng.chance(1, 8) {
            let n_mid = rng.range(3, 14) as usize;
            let lattice = rng.chance(1, 4);
            let seq = gen_monotone(rng, n_mid, None, lattice);
            Poly { subs: vec![(monotone_outline(&seq), true)], kind: "monotone" }
        } else if rng.chance(1, 10) {
            let (p, tol) = gen_poly_extreme(rng);
            tol_override = Some(tol);
            p
        } else {
            gen_poly(rng, max_edges)
        };
        let mut cfg = FillCfg::gen(rng);
        if let Some(t) = tol_override {
            cfg.tolerance = t;
        }
        if let Some(c) = cfg_override {
            cfg = c;
        }
        // one case in eight (one in three of the stress inputs) runs with `handle_intersections = false`
        // (the error-recovery paths); the directed inputs choose their own share
        let stress = matches!(poly.kind, "near-level" | "big-coords" | "overlap-many" | "near-coincident" | "comb" | "small-lattice");
        let handle_ix = if twin {
            true
        } else if directed {
            !rng.chance(noix_num, 8)
        } else if stress {
            !rng.chance(1, 3)
        } else {
            !rng.chance(1, 8)
        };
        let mut poly = poly;
        if poly.kind == "nonfinite" && !returns_in_time(&poly, &cfg, handle_ix) {
            // on a few NaN inputs the real code loops forever or panics inside the queue's sort (outside the
            // property: the input is not finite); those are not part of the stream — the coordinate is zeroed
            poly.transform(|q| lyon_path::math::point(if q.x.is_finite() { q.x } else { 0.0 }, if q.y.is_finite() { q.y } else { 0.0 }));
            poly.kind = "nonfinite-screened";
        }
        let mut args = Out::new();
        cfg.put(&mut args);
        args.b(handle_ix);
        args.u(poly.subs.len() as u64);
        for (pts, closed) in &poly.subs {
            args.u(pts.len() as u64).b(*closed);
            for p in pts {
                args.p(*p);
            }
        }
        let tag = format!(
            "sweep {} {} {} n={}",
            poly.kind,
            ENTRY_NAMES[cfg.entry],
            if handle_ix { "ix" } else { "noix" },
            poly.num_edges().min(30)
        );
        (args, tag, move || {
            let mut tess = FillTessellator::new();
            let mut log = SweepLog::default();
            let res = std::panic::catch_unwind(std::panic::AssertUnwindSafe(|| run_fill_log(&mut tess, &poly, &cfg, handle_ix, &mut log)));
            let mut o = Out::new();
            let mut orc = Oracle::new();
            let res = match res {
                Ok(r) => r,
                Err(payload) => {
                    let msg: String = if let Some(m) = payload.downcast_ref::<String>() {
                        m.clone()
                    } else if let Some(m) = payload.downcast_ref::<&str>() {
                        m.to_string()
                    } else {
                        String::new()
                    };
                    // a panic is a modelled outcome (overflow / index / assert branches of the model).
                    // With `handle_intersections = false` on an input that does intersect the caller broke
                    // the option's precondition: recorded, not a finding. Otherwise it is one.
                    o.t("panic");
                    if poly.kind == "nonfinite" {
                        orc.skip("nonfinite-input");
                    } else if handle_ix {
                        // the only integer subtraction of fill.rs that is not proved safe (Props/C01b.lean) is
                        // `idx - 1` in the merge-vertex fix-up of `sort_active_edges`: a narrow class of its own
                        // (finding C01-sort-active-edges-merge-underflow); every other panic stays `generic`
                        let class = if msg.contains("subtract with overflow") { "sort-active-edges-underflow" } else { "generic" };
                        orc.check(false, "sweep/no-panic", class, || format!("FillTessellator panicked on finite polygonal input: {}", msg));
                    } else {
                        orc.skip("noix-precondition-violated");
                    }
                    return CaseOut { imp: o, orcl: orc.verdict };
                }
            };
            match &res {
                Ok(()) => {
                    o.t("ok");
                }
                Err(e) => {
                    o.t("err").t(&e.replace(' ', "_"));
                }
            }
            let mut nv = 0u32;
            for e in &log.ems {
                match e {
                    Emit::V(p, recs) => {
                        nv += 1;
                        o.t("v").p(*p).u(recs.len() as u64);
                        for r in recs {
                            o.t(if r.is_edge { "e" } else { "p" }).p(r.position);
                            if r.is_edge {
                                o.p(r.to);
                            }
                            o.f(r.range.start).f(r.range.end).i(r.winding as i64).u(r.from_id.0 as u64).u(r.to_id.0 as u64);
                        }
                    }
                    Emit::T(a, b, c) => {
                        o.t("t").u(*a as u64).u(*b as u64).u(*c as u64);
                        orc.check(*a < nv && *b < nv && *c < nv, "sweep/index-valid", "generic", || "triangle uses a vertex not yet emitted".into());
                    }
                }
            }
            CaseOut { imp: o, orcl: orc.verdict }
        })
    });
}

// ---------------------------------------------------------------------------------------------
// Family `sweepcert:32` (growth task ga-c01): the hypothesis of the theorem
// `Lyon.C01b.sweep_no_panic_certified` evaluated on every explored case.  The Lean driver replays the
// modelled run event by event and evaluates the executable winding-conservation certificate `cleanB`
// (Model/Tess/SweepCert.lean); it answers `cert ok` when the input is not finite, or
// the certificate is true - then the theorem (valid for every scalar type, f32 included) PROVES that this run of
// the model - tied bit for bit to the real tessellator by `sweep:32` - can only panic on the intersection
// assertion or a NaN sort key.  The certificate checks per event exactly the residue that is not proved for all
// inputs: `scanAgreeB` and winding conservation (`eventOkB`).  Runs through `recover_from_error` are covered by the
// theorem `Lyon.C01b.recovery_coherent` (the recovery re-establishes the coherence invariant for ALL inputs), so
// nothing is checked about the recovery any more.  A finite input with a false certificate (`cert FAIL`) would be
// a counterexample to winding conservation.
// The real tessellator is run as well: it must not panic.
fn cert_case(ctx: &mut Ctx) {
    ctx.case("sweepcert:32", |rng| {
        let mut tol_override: Option<f32> = None;
        let mut cfg_override: Option<FillCfg> = None;
        let mut noix_num = 1u64;
        let poly = match rng.below(8) {
            0 => {
                let (p, tol, cfg) = gen_ulp_twin(rng);
                tol_override = tol;
                cfg_override = cfg;
                noix_num = 0;
                p
            }
            1 | 2 => {
                let (p, tol, noix) = gen_sweep_directed(rng);
                tol_override = tol;
                noix_num = noix;
                p
            }
            3 => gen_sweep_stress(rng),
            4 => {
                let (p, tol) = gen_poly_extreme(rng);
                tol_override = Some(tol);
                p
            }
            _ => gen_poly(rng, 24),
        };
        let mut cfg = FillCfg::gen(rng);
        if let Some(t) = tol_override {
            cfg.tolerance = t;
        }
        if let Some(c) = cfg_override {
            cfg = c;
        }
        // always with intersection handling: without it an intersecting input breaks the flag's documented
        // precondition and the run may legitimately be uncertifiable (it may even panic)
        let _ = noix_num;
        let handle_ix = true;
        let mut args = Out::new();
        cfg.put(&mut args);
        args.b(handle_ix);
        args.u(poly.subs.len() as u64);
        for (pts, closed) in &poly.subs {
            args.u(pts.len() as u64).b(*closed);
            for p in pts {
                args.p(*p);
            }
        }
        let tag = format!("cert {} {} {}", poly.kind, ENTRY_NAMES[cfg.entry], if handle_ix { "ix" } else { "noix" });
        (args, tag, move || {
            let mut o = Out::new();
            let mut orc = Oracle::new();
            o.t("cert").t("ok");
            if poly.kind == "nonfinite" && !returns_in_time(&poly, &cfg, handle_ix) {
                orc.skip("nonfinite-input");
                return CaseOut { imp: o, orcl: orc.verdict };
            }
            let mut tess = FillTessellator::new();
            let mut log = SweepLog::default();
            let res = std::panic::catch_unwind(std::panic::AssertUnwindSafe(|| run_fill_log(&mut tess, &poly, &cfg, handle_ix, &mut log)));
            if res.is_err() {
                if poly.kind == "nonfinite" {
                    orc.skip("nonfinite-input");
                } else if handle_ix {
                    orc.check(false, "sweepcert/no-panic", "generic", || "FillTessellator panicked on finite polygonal input".into());
                } else {
                    orc.skip("noix-precondition-violated");
                }
            }
            CaseOut { imp: o, orcl: orc.verdict }
        })
    });
}

// ---------------------------------------------------------------------------------------------
// Family `sweepc:32`: the same tie on CURVED input.  Paths with line / quadratic / cubic edges go
// through the real `FillTessellator` (entry points `tessellate(path.iter())`, `tessellate_path`,
// `tessellate_with_ids` without / with an attribute store, `builder()` /
// `builder_with_attributes(n)` with `quadratic_bezier_to` / `cubic_bezier_to`); the Lean model
// (`Model/Tess/SweepCurves.lean`) builds the event queue from the same commands — the curves are
// flattened by the Flatten model inside the modelled `EventQueueBuilder`, including the
// 'flattened from its end' swap — and runs the modelled sweep.  Compared: the complete emission
// sequence (positions, sibling records with t-ranges / ids / windings, the interpolated
// attributes of every vertex when there is an attribute store, triangles, outcome).

#[derive(Clone, Debug)]
enum CSeg {
    Line(Point),
    Quad(Point, Point),
    Cubic(Point, Point, Point),
}

impl CSeg {
    fn map(&self, f: &dyn Fn(Point) -> Point) -> CSeg {
        match self {
            CSeg::Line(p) => CSeg::Line(f(*p)),
            CSeg::Quad(c, p) => CSeg::Quad(f(*c), f(*p)),
            CSeg::Cubic(a, b, p) => CSeg::Cubic(f(*a), f(*b), f(*p)),
        }
    }
    fn to(&self) -> Point {
        match self {
            CSeg::Line(p) | CSeg::Quad(_, p) | CSeg::Cubic(_, _, p) => *p,
        }
    }
}

#[derive(Clone, Debug)]
struct CSub {
    start: Point,
    segs: Vec<CSeg>,
    closed: bool,
}

#[derive(Clone, Debug)]
struct CPath {
    subs: Vec<CSub>,
    kind: &'static str,
}

impl CPath {
    fn transform(&mut self, f: &dyn Fn(Point) -> Point) {
        for s in &mut self.subs {
            s.start = f(s.start);
            for g in &mut s.segs {
                *g = g.map(f);
            }
        }
    }
    fn num_endpoints(&self) -> usize {
        self.subs.iter().map(|s| 1 + s.segs.len()).sum()
    }
    fn num_curves(&self) -> usize {
        self.subs.iter().map(|s| s.segs.iter().filter(|g| !matches!(g, CSeg::Line(_))).count()).sum()
    }
    fn reversed_sub(s: &CSub) -> CSub {
        // the same outline walked the other way round
        let mut pts = vec![s.start];
        for g in &s.segs {
            pts.push(g.to());
        }
        let mut segs = Vec::new();
        for (i, g) in s.segs.iter().enumerate().rev() {
            let to = pts[i];
            segs.push(match g {
                CSeg::Line(_) => CSeg::Line(to),
                CSeg::Quad(c, _) => CSeg::Quad(*c, to),
                CSeg::Cubic(a, b, _) => CSeg::Cubic(*b, *a, to),
            });
        }
        CSub { start: *pts.last().unwrap(), segs, closed: s.closed }
    }
}

fn cpt(rng: &mut vh::Rng, mode: u64, span: f64) -> Point {
    use lyon_path::math::point;
    match mode {
        0 => point(rng.range(0, 8) as f32, rng.range(0, 8) as f32),
        1 => point(rng.range(0, 32) as f32 * 0.25, rng.range(0, 32) as f32 * 0.25),
        _ => point(rng.uniform(-span, span) as f32, rng.uniform(-span, span) as f32),
    }
}

fn cseg(rng: &mut vh::Rng, mode: u64, span: f64, curve_bias: u64) -> CSeg {
    match rng.below(2 + curve_bias) {
        0 => CSeg::Line(cpt(rng, mode, span)),
        k if k % 2 == 1 => CSeg::Quad(cpt(rng, mode, span), cpt(rng, mode, span)),
        _ => CSeg::Cubic(cpt(rng, mode, span), cpt(rng, mode, span), cpt(rng, mode, span)),
    }
}

/// Curved paths: blobs, lattice / random control polygons, shared curved edges walked in both
/// directions, holes, loops, degenerate curves, several sub-paths, open and closed.
fn gen_cpath(rng: &mut vh::Rng) -> CPath {
    use lyon_path::math::point;
    let kind = rng.below(12);
    let mut path = match kind {
        0 | 1 => {
            // blob(s): control points on a wobbly circle, mixed edge types
            let mut subs = Vec::new();
            let m = rng.range(1, 3);
            for _ in 0..m {
                let c = point(rng.uniform(-3.0, 3.0) as f32, rng.uniform(-3.0, 3.0) as f32);
                let r = rng.uniform(1.0, 6.0);
                let n = rng.range(2, 5) as usize;
                let ccw = rng.chance(1, 2);
                let ph = rng.uniform(0.0, 6.283);
                let mut k = 0.0f64;
                let mut at = |rng: &mut vh::Rng, k: f64| {
                    let a = ph + (if ccw { 1.0 } else { -1.0 }) * k * 6.283185307 / (3.0 * n as f64);
                    let rr = r * rng.uniform(0.7, 1.3);
                    point(c.x + (rr * a.cos()) as f32, c.y + (rr * a.sin()) as f32)
                };
                let start = at(rng, 0.0);
                let mut segs = Vec::new();
                for i in 0..n {
                    let last = i + 1 == n;
                    let end = if last && rng.chance(1, 2) { start } else { at(rng, k + 3.0) };
                    segs.push(match rng.below(3) {
                        0 => CSeg::Line(end),
                        1 => CSeg::Quad(at(rng, k + 1.5), end),
                        _ => CSeg::Cubic(at(rng, k + 1.0), at(rng, k + 2.0), end),
                    });
                    k += 3.0;
                }
                subs.push(CSub { start, segs, closed: rng.chance(3, 4) });
            }
            CPath { subs, kind: "blob" }
        }
        2 | 3 => {
            // lattice control polygons (many exact coincidences: shared vertices, level edges)
            let mode = rng.below(2);
            let mut subs = Vec::new();
            for _ in 0..rng.range(1, 3) {
                let start = cpt(rng, mode, 0.0);
                let segs = (0..rng.range(1, 4)).map(|_| cseg(rng, mode, 0.0, 3)).collect();
                subs.push(CSub { start, segs, closed: rng.chance(3, 4) });
            }
            CPath { subs, kind: "lattice" }
        }
        4 => {
            // random control polygons: loops, cusps, self-intersections
            let span = *rng.pick(&[1.0f64, 10.0, 10.0, 100.0]);
            let mut subs = Vec::new();
            for _ in 0..rng.range(1, 3) {
                let start = cpt(rng, 2, span);
                let segs = (0..rng.range(1, 4)).map(|_| cseg(rng, 2, span, 4)).collect();
                subs.push(CSub { start, segs, closed: rng.chance(3, 4) });
            }
            CPath { subs, kind: "random" }
        }
        5 | 6 => {
            // a curved edge shared by two sub-paths, walked in opposite (or the same) directions:
            // the 'flattened from its end' swap must make both flattenings coincide
            let mode = rng.below(3);
            let a = cpt(rng, mode, 8.0);
            let e = cseg(rng, mode, 8.0, 6);
            let b = e.to();
            let s1 = CSub { start: a, segs: vec![e.clone(), CSeg::Line(cpt(rng, mode, 8.0))], closed: true };
            let back = CPath::reversed_sub(&CSub { start: a, segs: vec![e.clone()], closed: false });
            let mut s2 = if rng.chance(3, 4) {
                CSub { start: b, segs: vec![back.segs[0].clone(), cseg(rng, mode, 8.0, 2)], closed: true }
            } else {
                CSub { start: a, segs: vec![e, cseg(rng, mode, 8.0, 2)], closed: true }
            };
            if rng.chance(1, 3) {
                // start the second sub-path elsewhere so that the shared edge is not its first edge
                let extra = cpt(rng, mode, 8.0);
                let first = s2.start;
                let mut segs = vec![CSeg::Line(first)];
                segs.extend(s2.segs.drain(..));
                s2 = CSub { start: extra, segs, closed: true };
            }
            let subs = if rng.chance(1, 2) { vec![s1, s2] } else { vec![s2, s1] };
            CPath { subs, kind: "shared-curve" }
        }
        7 => {
            // a shape with a curved hole (either orientation), optionally a bar across
            let r = rng.uniform(3.0, 6.0) as f32;
            let ring = |r: f32, ccw: bool, quad: bool| -> CSub {
                let k = if quad { 1.0 } else { 0.5522848 };
                let s = if ccw { 1.0 } else { -1.0 };
                let p = |x: f32, y: f32| point(x * r, s * y * r);
                let mut segs = Vec::new();
                let q = [(1.0, 0.0), (0.0, 1.0), (-1.0, 0.0), (0.0, -1.0), (1.0, 0.0)];
                for i in 0..4 {
                    let (x0, y0) = q[i];
                    let (x1, y1) = q[i + 1];
                    if quad {
                        segs.push(CSeg::Quad(p(x0 + x1, y0 + y1), p(x1, y1)));
                    } else {
                        segs.push(CSeg::Cubic(p(x0 + k * x1, y0 + k * y1), p(x1 + k * x0, y1 + k * y0), p(x1, y1)));
                    }
                }
                CSub { start: p(1.0, 0.0), segs, closed: true }
            };
            let mut subs = vec![ring(r, rng.chance(1, 2), rng.chance(1, 2))];
            let mut hole = ring(r * rng.uniform(0.2, 0.9) as f32, rng.chance(1, 2), rng.chance(1, 2));
            let off = point(rng.uniform(-1.0, 1.0) as f32, rng.uniform(-1.0, 1.0) as f32);
            hole.start = point(hole.start.x + off.x, hole.start.y + off.y);
            hole.segs = hole.segs.iter().map(|g| g.map(&|q| point(q.x + off.x, q.y + off.y))).collect();
            subs.push(hole);
            if rng.chance(1, 3) {
                let y = rng.uniform(-4.0, 4.0) as f32;
                subs.push(CSub {
                    start: point(-8.0, y),
                    segs: vec![CSeg::Line(point(8.0, y + rng.uniform(-1.0, 1.0) as f32)), CSeg::Line(point(0.0, y + 2.0))],
                    closed: true,
                });
            }
            CPath { subs, kind: "rings" }
        }
        8 => {
            // degenerate curves: coincident / collinear control points, zero-length, from == to loops
            let mode = rng.below(2);
            let mut subs = Vec::new();
            for _ in 0..rng.range(1, 2) {
                let start = cpt(rng, mode, 0.0);
                let mut cur = start;
                let mut segs = Vec::new();
                for _ in 0..rng.range(2, 4) {
                    let to = cpt(rng, mode, 0.0);
                    let mid = point((cur.x + to.x) * 0.5, (cur.y + to.y) * 0.5);
                    let g = match rng.below(9) {
                        0 => CSeg::Quad(cur, to),
                        1 => CSeg::Quad(to, to),
                        2 => CSeg::Quad(mid, to),
                        3 => CSeg::Quad(cpt(rng, mode, 0.0), cur),
                        4 => CSeg::Cubic(cur, to, to),
                        5 => CSeg::Cubic(cur, cur, cur),
                        6 => CSeg::Cubic(mid, mid, to),
                        7 => CSeg::Cubic(cpt(rng, mode, 0.0), cpt(rng, mode, 0.0), cur),
                        _ => CSeg::Cubic(to, cur, to),
                    };
                    cur = g.to();
                    segs.push(g);
                }
                subs.push(CSub { start, segs, closed: rng.chance(1, 2) });
            }
            CPath { subs, kind: "degenerate-curves" }
        }
        9 => {
            // upward and downward monotone curves side by side (many curve-interior vertex events),
            // plus tiny sub-paths: single points, begin/end only
            let mut subs = Vec::new();
            let n = rng.range(1, 3);
            for i in 0..n {
                let x = i as f32 * 3.0;
                let h = rng.uniform(2.0, 8.0) as f32;
                let w = rng.uniform(0.5, 3.0) as f32;
                let bulge = rng.uniform(-4.0, 4.0) as f32;
                let up = rng.chance(1, 2);
                let (y0, y1) = if up { (h, 0.0) } else { (0.0, h) };
                subs.push(CSub {
                    start: point(x, y0),
                    segs: vec![
                        CSeg::Cubic(point(x + bulge, y0 + (y1 - y0) * 0.3), point(x - bulge, y0 + (y1 - y0) * 0.7), point(x, y1)),
                        CSeg::Line(point(x + w, y1)),
                        CSeg::Quad(point(x + w + bulge * 0.5, (y0 + y1) * 0.5), point(x + w, y0)),
                    ],
                    closed: rng.chance(1, 2),
                });
            }
            if rng.chance(1, 2) {
                subs.push(CSub { start: point(1.0, 1.0), segs: vec![], closed: rng.chance(1, 2) });
            }
            if rng.chance(1, 2) {
                subs.push(CSub { start: point(2.0, 1.0), segs: vec![CSeg::Line(point(2.0, 1.0))], closed: true });
            }
            CPath { subs, kind: "monotone-curves" }
        }
        10 => {
            // polygonal control: lines only, through the same command stream
            let p = gen_poly(rng, 10);
            let subs = p
                .subs
                .iter()
                .filter(|(v, _)| !v.is_empty())
                .map(|(v, c)| CSub { start: v[0], segs: v[1..].iter().map(|q| CSeg::Line(*q)).collect(), closed: *c })
                .collect();
            CPath { subs, kind: "polygonal" }
        }
        _ => {
            // many overlapping curved sub-paths (crossings between flattened curves)
            let mut subs = Vec::new();
            for _ in 0..rng.range(2, 4) {
                let start = cpt(rng, 2, 5.0);
                let segs = (0..rng.range(2, 3)).map(|_| cseg(rng, 2, 5.0, 2)).collect();
                subs.push(CSub { start, segs, closed: true });
            }
            CPath { subs, kind: "overlap-curves" }
        }
    };
    match rng.below(14) {
        0 => path.transform(&|q| point(q.x * 1000.0, q.y * 1000.0)),
        1 => path.transform(&|q| point(q.x * 0.125, q.y * 0.125)),
        2 => path.transform(&|q| point(q.x + 1000.0, q.y - 500.0)),
        3 => path.transform(&|q| point(q.x * 0.37 + 0.11, q.y * 1.93 - 0.7)),
        4 => path.transform(&|q| point(q.y, q.x)),
        5 => path.transform(&|q| point(-q.x, -q.y)),
        _ => {}
    }
    path
}

const CENTRY_NAMES: [&str; 5] = ["events", "path", "ids", "idsattr", "builder"];

enum EmitC {
    V(Point, Vec<VerifEdgeRecord>, Vec<f32>),
    T(u32, u32, u32),
}

#[derive(Default)]
struct SweepLogC {
    ems: Vec<EmitC>,
    nv: u32,
}

impl GeometryBuilder for SweepLogC {
    fn add_triangle(&mut self, a: VertexId, b: VertexId, c: VertexId) {
        self.ems.push(EmitC::T(a.0, b.0, c.0));
    }
}

impl FillGeometryBuilder for SweepLogC {
    fn add_fill_vertex(&mut self, mut v: FillVertex) -> Result<VertexId, GeometryBuilderError> {
        let pos = v.position();
        let recs = v.verif_sibling_records();
        let attrs = v.interpolated_attributes().to_vec();
        self.ems.push(EmitC::V(pos, recs, attrs));
        self.nv += 1;
        Ok(VertexId(self.nv - 1))
    }
}

/// the entry points on a curved path; `attrs[k]` = attributes of the k-th endpoint in command order
fn run_fill_curved(
    tess: &mut FillTessellator,
    path: &CPath,
    attrs: &[Vec<f32>],
    nattr: usize,
    entry: usize,
    opts: &lyon_tessellation::FillOptions,
    log: &mut SweepLogC,
) -> Result<(), String> {
    let mut k = 0usize;
    let r = if entry == 4 {
        let mut b = tess.builder_with_attributes(nattr, opts, log);
        if nattr == 0 && path.num_endpoints() % 2 == 0 {
            // `builder()` is `NoAttributes::wrap` of the same `FillBuilder`
            drop(b);
            use lyon_path::builder::PathBuilder;
            let mut b = tess.builder(opts, log);
            for s in &path.subs {
                b.begin(s.start);
                for g in &s.segs {
                    match g {
                        CSeg::Line(p) => b.line_to(*p),
                        CSeg::Quad(c, p) => b.quadratic_bezier_to(*c, *p),
                        CSeg::Cubic(c1, c2, p) => b.cubic_bezier_to(*c1, *c2, *p),
                    };
                }
                b.end(s.closed);
            }
            b.build()
        } else {
            for s in &path.subs {
                b.begin(s.start, &attrs[k]);
                k += 1;
                for g in &s.segs {
                    match g {
                        CSeg::Line(p) => b.line_to(*p, &attrs[k]),
                        CSeg::Quad(c, p) => b.quadratic_bezier_to(*c, *p, &attrs[k]),
                        CSeg::Cubic(c1, c2, p) => b.cubic_bezier_to(*c1, *c2, *p, &attrs[k]),
                    };
                    k += 1;
                }
                b.end(s.closed);
            }
            b.build()
        }
    } else {
        let mut b = lyon_path::Path::builder_with_attributes(nattr);
        for s in &path.subs {
            b.begin(s.start, &attrs[k]);
            k += 1;
            for g in &s.segs {
                match g {
                    CSeg::Line(p) => b.line_to(*p, &attrs[k]),
                    CSeg::Quad(c, p) => b.quadratic_bezier_to(*c, *p, &attrs[k]),
                    CSeg::Cubic(c1, c2, p) => b.cubic_bezier_to(*c1, *c2, *p, &attrs[k]),
                };
                k += 1;
            }
            b.end(s.closed);
        }
        let p = b.build();
        match entry {
            0 => tess.tessellate(p.iter(), opts, log),
            1 => tess.tessellate_path(&p, opts, log),
            2 => tess.tessellate_with_ids(p.id_iter(), &p, None, opts, log),
            _ => tess.tessellate_with_ids(p.id_iter(), &p, Some(&p), opts, log),
        }
    };
    r.map_err(|e| format!("{:?}", e))
}

fn sweepc_case(ctx: &mut Ctx) {
    ctx.case("sweepc:32", |rng| {
        let path = gen_cpath(rng);
        let cfg = FillCfg::gen(rng);
        let entry = rng.below(5) as usize;
        let nattr = if rng.chance(1, 3) { 0 } else { rng.range(1, 3) as usize };
        let handle_ix = !rng.chance(1, 8);
        // tolerance relative to the size of the path (0.001 .. 1 for an extent of about 10)
        let scale = path
            .subs
            .iter()
            .flat_map(|s| std::iter::once(s.start).chain(s.segs.iter().map(|g| g.to())))
            .fold(1.0e-30f32, |m, p| m.max(p.x.abs()).max(p.y.abs()));
        let tol = if scale > 100.0 || scale < 1.0 { cfg.tolerance * scale / 10.0 } else { cfg.tolerance };
        let attrs: Vec<Vec<f32>> = (0..path.num_endpoints()).map(|_| (0..nattr).map(|_| rng.range(-64, 64) as f32 * 0.25).collect()).collect();
        let mut args = Out::new();
        args.u(if cfg.rule == lyon_tessellation::FillRule::EvenOdd { 0 } else { 1 });
        args.u(if cfg.orientation == lyon_tessellation::Orientation::Vertical { 0 } else { 1 });
        args.f(tol);
        args.t(CENTRY_NAMES[entry]);
        args.b(handle_ix);
        args.u(nattr as u64);
        args.u(path.subs.iter().map(|s| 2 + s.segs.len()).sum::<usize>() as u64);
        let mut k = 0usize;
        let put_attrs = |args: &mut Out, k: &mut usize| {
            for a in &attrs[*k] {
                args.f(*a);
            }
            *k += 1;
        };
        for s in &path.subs {
            args.t("B").p(s.start);
            put_attrs(&mut args, &mut k);
            for g in &s.segs {
                match g {
                    CSeg::Line(p) => {
                        args.t("L").p(*p);
                    }
                    CSeg::Quad(c, p) => {
                        args.t("Q").p(*c).p(*p);
                    }
                    CSeg::Cubic(c1, c2, p) => {
                        args.t("C").p(*c1).p(*c2).p(*p);
                    }
                }
                put_attrs(&mut args, &mut k);
            }
            args.t("E").b(s.closed);
        }
        let tag = format!(
            "sweepc {} {} a{} {} curves={}",
            path.kind,
            CENTRY_NAMES[entry],
            nattr,
            if handle_ix { "ix" } else { "noix" },
            path.num_curves().min(12)
        );
        (args, tag, move || {
            let opts = lyon_tessellation::FillOptions::tolerance(tol)
                .with_fill_rule(cfg.rule)
                .with_sweep_orientation(cfg.orientation)
                .with_intersections(handle_ix);
            let has_store = match entry {
                0 | 2 => false,
                3 => true,
                _ => nattr > 0,
            };
            let mut tess = FillTessellator::new();
            let mut log = SweepLogC::default();
            let res = vh::guarded(|| run_fill_curved(&mut tess, &path, &attrs, nattr, entry, &opts, &mut log));
            let mut o = Out::new();
            let mut orc = Oracle::new();
            let res = match res {
                Some(r) => r,
                None => {
                    o.t("panic");
                    if handle_ix {
                        orc.check(false, "sweepc/no-panic", "generic", || "FillTessellator panicked on a finite curved path".into());
                    } else {
                        orc.skip("noix-precondition-violated");
                    }
                    return CaseOut { imp: o, orcl: orc.verdict };
                }
            };
            match &res {
                Ok(()) => {
                    o.t("ok");
                }
                Err(e) => {
                    o.t("err").t(&e.replace(' ', "_"));
                }
            }
            let mut nv = 0u32;
            for e in &log.ems {
                match e {
                    EmitC::V(p, recs, at) => {
                        nv += 1;
                        o.t("v").p(*p).u(recs.len() as u64);
                        for r in recs {
                            o.t(if r.is_edge { "e" } else { "p" }).p(r.position);
                            if r.is_edge {
                                o.p(r.to);
                            }
                            o.f(r.range.start).f(r.range.end).i(r.winding as i64).u(r.from_id.0 as u64).u(r.to_id.0 as u64);
                        }
                        orc.check(at.len() == if has_store { nattr } else { 0 }, "sweepc/attr-count", "generic", || {
                            format!("{} attributes, expected {}", at.len(), if has_store { nattr } else { 0 })
                        });
                        if has_store && nattr > 0 {
                            o.t("a");
                            for x in at {
                                o.f(*x);
                            }
                        }
                    }
                    EmitC::T(a, b, c) => {
                        o.t("t").u(*a as u64).u(*b as u64).u(*c as u64);
                        orc.check(*a < nv && *b < nv && *c < nv, "sweepc/index-valid", "generic", || "triangle uses a vertex not yet emitted".into());
                    }
                }
            }
            CaseOut { imp: o, orcl: orc.verdict }
        })
    });
}

fn main() {
    let mut ctx = Ctx::from_args("C01");
    let n = ctx.n(4000, 100000);
    for _ in 0..n {
        fill_case(&mut ctx, 24);
    }
    // the sweep model tie (ids after the chk_fill cases, so those keep their ids)
    let n = ctx.n(1500, 50000);
    for _ in 0..n {
        sweep_case(&mut ctx, 24, false, false);
    }
    // the same tie on curved input (ids after the sweep cases)
    let n = ctx.n(1500, 50000);
    for _ in 0..n {
        sweepc_case(&mut ctx);
    }
    // directed inputs for the rarely taken branches of the sweep (polygonal, family `sweep:32`)
    let n = ctx.n(1000, 50000);
    for _ in 0..n {
        sweep_case(&mut ctx, 24, true, false);
    }
    // near-lattice polygons with ulp perturbations and nearly retraced twins (ids after everything else)
    let n = ctx.n(400, 60000);
    for _ in 0..n {
        sweep_case(&mut ctx, 24, false, true);
    }
    // the winding-conservation certificate of the clean-run theorem on every case (ids after everything else)
    let n = ctx.n(1500, 60000);
    for _ in 0..n {
        cert_case(&mut ctx);
    }
    ctx.finish();
}
