//! C01 — fill tessellation covers exactly the fill-rule interior of a polygonal path.
//!
//! Family `chk_fill`: a generated polygon is tessellated by the real `FillTessellator` through
//! one of the five entry points; the CHECK line hands the outline edges and the output triangles
//! (exact f32 bit patterns) to the Lean slab checker, which decides for EVERY generic point of
//! the plane whether coverage agrees with the fill rule outside the tolerance band.
//! The in-harness oracle checks termination/no panic, index validity and finiteness.

use lyon_path::math::Point;
use lyon_path::Polygon;
use lyon_tessellation::{
    FillGeometryBuilder, FillTessellator, FillVertex, GeometryBuilder, GeometryBuilderError, VerifEdgeRecord, VertexId,
};
use vh::fillgen::*;
use vh::{CaseOut, Ctx, Oracle, Out};

fn fill_case(ctx: &mut Ctx, max_edges: usize) {
    ctx.case_check("chk_fill", |rng| {
        // one case in eight: a y-monotone polygon whose chains interleave in x (the shape the
        // monotone stage's heuristics are sensitive to), with its sweep sequence kept for attribution
        let mut mono_seq: Option<Vec<(lyon_path::math::Point, bool)>> = None;
        let mut tol_override: Option<f32> = None;
        let poly = if rng.chance(1, 8) {
            let n_mid = rng.range(3, 14) as usize;
            let lattice = rng.chance(1, 4);
            let seq = gen_monotone(rng, n_mid, None, lattice);
            let p = Poly { subs: vec![(monotone_outline(&seq), true)], kind: "monotone" };
            mono_seq = Some(seq);
            p
        } else if rng.chance(1, 10) {
            let (p, tol) = gen_poly_extreme(rng);
            tol_override = Some(tol);
            p
        } else {
            gen_poly(rng, max_edges)
        };
        let mut cfg = FillCfg::gen(rng);
        if let Some(t) = tol_override {
            cfg.tolerance = t;
        }
        let mut args = Out::new();
        cfg.put(&mut args);
        let edges = poly.edges();
        put_edges(&mut args, &edges);
        let tag = format!("fill {} {} n={}", poly.kind, ENTRY_NAMES[cfg.entry], edges.len().min(30));
        (args, tag, move || {
            let mut tess = FillTessellator::new();
            let mut mesh = Mesh::new();
            let res = run_fill(&mut tess, &poly, &cfg, &mut mesh);
            let mut o = Out::new();
            let mut orc = Oracle::new();
            match res {
                Err(e) => {
                    o.t("err").t(&e.replace(' ', "_"));
                    // the property conditions on success; an error on finite polygonal input is recorded
                    orc.skip("tessellation-error");
                    (CaseOut { imp: o, orcl: orc.verdict }, None)
                }
                Ok(()) => {
                    o.t("ok").u(mesh.vertices.len() as u64).u((mesh.indices.len() / 3) as u64);
                    let nv = mesh.vertices.len() as u32;
                    orc.check(mesh.indices.len() % 3 == 0, "fill/index-count", "generic", || "indices not a multiple of 3".into());
                    orc.check(mesh.indices.iter().all(|&i| i < nv), "fill/index-valid", "generic", || "index out of range".into());
                    orc.check(
                        mesh.vertices.iter().all(|p| p.x.is_finite() && p.y.is_finite()),
                        "fill/finite",
                        "generic",
                        || "non-finite vertex".into(),
                    );
                    // known defect of the advanced monotone tessellator, attributed exactly through
                    // hook H2 (advanced misbehaves on this very sweep sequence, basic does not)
                    if let Some(seq) = &mono_seq {
                        if cfg.orientation == lyon_tessellation::Orientation::Vertical && advanced_monotone_misbehaves(seq) {
                            orc.check(false, "fill/fill", "advanced-chain-fan", || {
                                "advanced monotone tessellator misbehaves on this monotone polygon (basic is correct)".into()
                            });
                        }
                    }
                    if orc.failed() {
                        return (CaseOut { imp: o, orcl: orc.verdict }, None);
                    }
                    // checker input: rule, mode 0 (fill iff), band half-width, edges, triangles
                    let mut c = Out::new();
                    c.u(if cfg.rule == lyon_tessellation::FillRule::EvenOdd { 0 } else { 1 });
                    c.u(0);
                    let delta = cfg.tolerance + poly.scale() * 1.0e-5;
                    c.f(delta);
                    put_edges(&mut c, &edges);
                    put_tris(&mut c, &mesh);
                    (CaseOut { imp: o, orcl: orc.verdict }, Some(c))
                }
            }
        })
    });
}

// ---------------------------------------------------------------------------------------------
// Family `sweep:32`: the sweep-line tessellator itself against its Lean model
// (`lean/LyonVerif/Model/Tess/Sweep.lean`).  IMPL is the COMPLETE output of the real
// `FillTessellator` as its geometry builder sees it, in call order: every `add_fill_vertex`
// (output position + the sibling edge records of the event, hook H1) and every `add_triangle`,
// preceded by `ok` / `err <Debug of the error>` (what was emitted before an error is kept).

enum Emit {
    V(Point, Vec<VerifEdgeRecord>),
    T(u32, u32, u32),
}

#[derive(Default)]
struct SweepLog {
    ems: Vec<Emit>,
    nv: u32,
}

impl GeometryBuilder for SweepLog {
    fn add_triangle(&mut self, a: VertexId, b: VertexId, c: VertexId) {
        self.ems.push(Emit::T(a.0, b.0, c.0));
    }
    // abort_geometry: keep what was emitted (the model predicts it as well)
}

impl FillGeometryBuilder for SweepLog {
    fn add_fill_vertex(&mut self, v: FillVertex) -> Result<VertexId, GeometryBuilderError> {
        self.ems.push(Emit::V(v.position(), v.verif_sibling_records()));
        self.nv += 1;
        Ok(VertexId(self.nv - 1))
    }
}

/// the five entry points on a polygonal input, into the logging builder
fn run_fill_log(tess: &mut FillTessellator, poly: &Poly, cfg: &FillCfg, handle_ix: bool, log: &mut SweepLog) -> Result<(), String> {
    let opts = cfg.options().with_intersections(handle_ix);
    let path = poly.to_path();
    let r = match cfg.entry {
        0 => tess.tessellate(path.iter(), &opts, log),
        1 => tess.tessellate_path(&path, &opts, log),
        2 => tess.tessellate_with_ids(path.id_iter(), &path, None, &opts, log),
        3 if poly.subs.len() == 1 && !poly.subs[0].0.is_empty() => {
            let (pts, closed) = &poly.subs[0];
            tess.tessellate_polygon(Polygon { points: &pts[..], closed: *closed }, &opts, log)
        }
        3 => tess.tessellate(path.iter(), &opts, log),
        _ => {
            use lyon_path::builder::PathBuilder;
            let mut b = tess.builder(&opts, log);
            for (pts, closed) in &poly.subs {
                if pts.is_empty() {
                    continue;
                }
                b.begin(pts[0]);
                for p in &pts[1..] {
                    b.line_to(*p);
                }
                b.end(*closed);
            }
            b.build()
        }
    };
    r.map_err(|e| format!("{:?}", e))
}

/// Inputs aimed at the rarely taken branches of the sweep (flipped intersections, the
/// `next_after` fix-up, snapping, coincident edges, merge vertices during error recovery).
fn gen_sweep_stress(rng: &mut vh::Rng) -> Poly {
    use lyon_path::math::point;
    match rng.below(6) {
        0 => {
            // near-level: wide in x, ordinates a few ulps apart -> crossings of almost horizontal edges
            let n = rng.range(4, 9) as usize;
            let base = *rng.pick(&[0.0f32, 1.0, 100.0, 1000.0, 4096.0]);
            let ulp = (base.max(1.0e-3)) * f32::EPSILON;
            let pts = (0..n)
                .map(|_| point(rng.uniform(-50.0, 50.0) as f32, base + rng.range(-6, 6) as f32 * ulp * *rng.pick(&[1.0f32, 1.0, 8.0, 1000.0])))
                .collect();
            Poly { subs: vec![(pts, true)], kind: "near-level" }
        }
        1 => {
            // large fractional coordinates: intersection points round coarsely
            let n = rng.range(4, 9) as usize;
            let s = *rng.pick(&[1.0e3f64, 1.0e4, 1.0e5]);
            let pts = (0..n).map(|_| point(rng.uniform(-s, s) as f32, rng.uniform(-s, s) as f32)).collect();
            Poly { subs: vec![(pts, true)], kind: "big-coords" }
        }
        2 => {
            // several overlapping random triangles / quads: many crossings and merge vertices
            let k = rng.range(2, 5) as usize;
            let mut subs = Vec::new();
            for _ in 0..k {
                let n = rng.range(3, 4) as usize;
                subs.push(((0..n).map(|_| point(rng.uniform(0.0, 10.0) as f32, rng.uniform(0.0, 10.0) as f32)).collect(), true));
            }
            Poly { subs, kind: "overlap-many" }
        }
        3 => {
            // fans of almost equal slopes from a shared apex, ends at different heights
            let apex = point(rng.uniform(-1.0, 1.0) as f32, 0.0);
            let k = rng.range(2, 4) as usize;
            let dir = rng.uniform(-2.0, 2.0);
            let mut subs = Vec::new();
            for _ in 0..k {
                let len = rng.uniform(2.0, 10.0);
                let d = dir + rng.uniform(-1.0, 1.0) * *rng.pick(&[1.0e-3f64, 1.0e-4, 3.0e-5, 1.0e-6, 0.0]);
                let far = if rng.chance(1, 4) {
                    // almost horizontal fan: slope through the inverse branch of the angle test
                    point(apex.x + len as f32, (len * 1.0e-3 * d) as f32)
                } else {
                    point(apex.x + (d * len) as f32, len as f32)
                };
                let third = point(far.x + rng.uniform(-3.0, 3.0) as f32, far.y + rng.uniform(-1.0, 3.0) as f32);
                subs.push((vec![apex, far, third], true));
            }
            Poly { subs, kind: "near-coincident" }
        }
        4 => {
            // comb: many merge and split vertices, then a bar across (merge vertices + crossings)
            let teeth = rng.range(2, 4) as usize;
            let mut pts = vec![point(0.0, 0.0)];
            let up = rng.chance(1, 2);
            for i in 0..teeth {
                let x = i as f32 * 2.0;
                let h = rng.uniform(2.0, 6.0) as f32;
                pts.push(point(x + 0.5 + rng.uniform(-0.3, 0.3) as f32, if up { -h } else { h }));
                pts.push(point(x + 2.0, rng.uniform(-0.5, 0.5) as f32));
            }
            pts.push(point(teeth as f32 * 2.0, if up { 3.0 } else { -3.0 }));
            pts.push(point(0.0, if up { 3.0 } else { -3.0 }));
            let y = rng.uniform(-5.0, 5.0) as f32;
            let bar = vec![
                point(-1.0, y),
                point(teeth as f32 * 2.0 + 1.0, y + rng.uniform(-1.0, 1.0) as f32),
                point(teeth as f32 + rng.uniform(-2.0, 2.0) as f32, y + rng.uniform(0.5, 2.0) as f32),
            ];
            let mut p = Poly { subs: vec![(pts, true), (bar, true)], kind: "comb" };
            if rng.chance(1, 2) {
                p.transform(|q| point(q.y, q.x));
            }
            p
        }
        _ => {
            // lattice zig-zags sharing many vertices and collinear overlapping edges
            let k = rng.range(2, 3) as usize;
            let mut subs = Vec::new();
            for _ in 0..k {
                let n = rng.range(4, 7) as usize;
                subs.push(((0..n).map(|_| point(rng.range(0, 4) as f32, rng.range(0, 4) as f32)).collect(), true));
            }
            Poly { subs, kind: "small-lattice" }
        }
    }
}

fn sweep_case(ctx: &mut Ctx, max_edges: usize) {
    ctx.case("sweep:32", |rng| {
        let mut tol_override: Option<f32> = None;
        let poly = if rng.chance(1, 3) {
            gen_sweep_stress(rng)
        } else if rng.chance(1, 8) {
            let n_mid = rng.range(3, 14) as usize;
            let lattice = rng.chance(1, 4);
            let seq = gen_monotone(rng, n_mid, None, lattice);
            Poly { subs: vec![(monotone_outline(&seq), true)], kind: "monotone" }
        } else if rng.chance(1, 10) {
            let (p, tol) = gen_poly_extreme(rng);
            tol_override = Some(tol);
            p
        } else {
            gen_poly(rng, max_edges)
        };
        let mut cfg = FillCfg::gen(rng);
        if let Some(t) = tol_override {
            cfg.tolerance = t;
        }
        // one case in eight (one in three of the stress inputs) runs with `handle_intersections = false`
        // (the error-recovery paths)
        let stress = matches!(poly.kind, "near-level" | "big-coords" | "overlap-many" | "near-coincident" | "comb" | "small-lattice");
        let handle_ix = if stress { !rng.chance(1, 3) } else { !rng.chance(1, 8) };
        let mut args = Out::new();
        cfg.put(&mut args);
        args.b(handle_ix);
        args.u(poly.subs.len() as u64);
        for (pts, closed) in &poly.subs {
            args.u(pts.len() as u64).b(*closed);
            for p in pts {
                args.p(*p);
            }
        }
        let tag = format!(
            "sweep {} {} {} n={}",
            poly.kind,
            ENTRY_NAMES[cfg.entry],
            if handle_ix { "ix" } else { "noix" },
            poly.num_edges().min(30)
        );
        (args, tag, move || {
            let mut tess = FillTessellator::new();
            let mut log = SweepLog::default();
            let res = vh::guarded(|| run_fill_log(&mut tess, &poly, &cfg, handle_ix, &mut log));
            let mut o = Out::new();
            let mut orc = Oracle::new();
            let res = match res {
                Some(r) => r,
                None => {
                    // a panic is a modelled outcome (overflow / index / assert branches of the model).
                    // With `handle_intersections = false` on an input that does intersect the caller broke
                    // the option's precondition: recorded, not a finding. Otherwise it is one.
                    o.t("panic");
                    if handle_ix {
                        orc.check(false, "sweep/no-panic", "generic", || "FillTessellator panicked on finite polygonal input".into());
                    } else {
                        orc.skip("noix-precondition-violated");
                    }
                    return CaseOut { imp: o, orcl: orc.verdict };
                }
            };
            match &res {
                Ok(()) => {
                    o.t("ok");
                }
                Err(e) => {
                    o.t("err").t(&e.replace(' ', "_"));
                }
            }
            let mut nv = 0u32;
            for e in &log.ems {
                match e {
                    Emit::V(p, recs) => {
                        nv += 1;
                        o.t("v").p(*p).u(recs.len() as u64);
                        for r in recs {
                            o.t(if r.is_edge { "e" } else { "p" }).p(r.position);
                            if r.is_edge {
                                o.p(r.to);
                            }
                            o.f(r.range.start).f(r.range.end).i(r.winding as i64).u(r.from_id.0 as u64).u(r.to_id.0 as u64);
                        }
                    }
                    Emit::T(a, b, c) => {
                        o.t("t").u(*a as u64).u(*b as u64).u(*c as u64);
                        orc.check(*a < nv && *b < nv && *c < nv, "sweep/index-valid", "generic", || "triangle uses a vertex not yet emitted".into());
                    }
                }
            }
            CaseOut { imp: o, orcl: orc.verdict }
        })
    });
}

fn main() {
    let mut ctx = Ctx::from_args("C01");
    let n = ctx.n(4000, 100000);
    for _ in 0..n {
        fill_case(&mut ctx, 24);
    }
    // the sweep model tie (ids after the chk_fill cases, so those keep their ids)
    let n = ctx.n(1500, 50000);
    for _ in 0..n {
        sweep_case(&mut ctx, 24);
    }
    ctx.finish();
}
