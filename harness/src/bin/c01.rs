//! C01 — fill tessellation covers exactly the fill-rule interior of a polygonal path.
//!
//! Family `chk_fill`: a generated polygon is tessellated by the real `FillTessellator` through
//! one of the five entry points; the CHECK line hands the outline edges and the output triangles
//! (exact f32 bit patterns) to the Lean slab checker, which decides for EVERY generic point of
//! the plane whether coverage agrees with the fill rule outside the tolerance band.
//! The in-harness oracle checks termination/no panic, index validity and finiteness.

use lyon_tessellation::FillTessellator;
use vh::fillgen::*;
use vh::{CaseOut, Ctx, Oracle, Out};

fn fill_case(ctx: &mut Ctx, max_edges: usize) {
    ctx.case_check("chk_fill", |rng| {
        // one case in eight: a y-monotone polygon whose chains interleave in x (the shape the
        // monotone stage's heuristics are sensitive to), with its sweep sequence kept for attribution
        let mut mono_seq: Option<Vec<(lyon_path::math::Point, bool)>> = None;
        let poly = if rng.chance(1, 8) {
            let n_mid = rng.range(3, 14) as usize;
            let lattice = rng.chance(1, 4);
            let seq = gen_monotone(rng, n_mid, None, lattice);
            let p = Poly { subs: vec![(monotone_outline(&seq), true)], kind: "monotone" };
            mono_seq = Some(seq);
            p
        } else {
            gen_poly(rng, max_edges)
        };
        let cfg = FillCfg::gen(rng);
        let mut args = Out::new();
        cfg.put(&mut args);
        let edges = poly.edges();
        put_edges(&mut args, &edges);
        let tag = format!("fill {} {} n={}", poly.kind, ENTRY_NAMES[cfg.entry], edges.len().min(30));
        (args, tag, move || {
            let mut tess = FillTessellator::new();
            let mut mesh = Mesh::new();
            let res = run_fill(&mut tess, &poly, &cfg, &mut mesh);
            let mut o = Out::new();
            let mut orc = Oracle::new();
            match res {
                Err(e) => {
                    o.t("err").t(&e.replace(' ', "_"));
                    // the property conditions on success; an error on finite polygonal input is recorded
                    orc.skip("tessellation-error");
                    (CaseOut { imp: o, orcl: orc.verdict }, None)
                }
                Ok(()) => {
                    o.t("ok").u(mesh.vertices.len() as u64).u((mesh.indices.len() / 3) as u64);
                    let nv = mesh.vertices.len() as u32;
                    orc.check(mesh.indices.len() % 3 == 0, "fill/index-count", "generic", || "indices not a multiple of 3".into());
                    orc.check(mesh.indices.iter().all(|&i| i < nv), "fill/index-valid", "generic", || "index out of range".into());
                    orc.check(
                        mesh.vertices.iter().all(|p| p.x.is_finite() && p.y.is_finite()),
                        "fill/finite",
                        "generic",
                        || "non-finite vertex".into(),
                    );
                    // known defect of the advanced monotone tessellator, attributed exactly through
                    // hook H2 (advanced misbehaves on this very sweep sequence, basic does not)
                    if let Some(seq) = &mono_seq {
                        if cfg.orientation == lyon_tessellation::Orientation::Vertical && advanced_monotone_misbehaves(seq) {
                            orc.check(false, "fill/fill", "advanced-chain-fan", || {
                                "advanced monotone tessellator misbehaves on this monotone polygon (basic is correct)".into()
                            });
                        }
                    }
                    if orc.failed() {
                        return (CaseOut { imp: o, orcl: orc.verdict }, None);
                    }
                    // checker input: rule, mode 0 (fill iff), band half-width, edges, triangles
                    let mut c = Out::new();
                    c.u(if cfg.rule == lyon_tessellation::FillRule::EvenOdd { 0 } else { 1 });
                    c.u(0);
                    let delta = cfg.tolerance + poly.scale() * 1.0e-5;
                    c.f(delta);
                    put_edges(&mut c, &edges);
                    put_tris(&mut c, &mesh);
                    (CaseOut { imp: o, orcl: orc.verdict }, Some(c))
                }
            }
        })
    });
}

fn main() {
    let mut ctx = Ctx::from_args("C01");
    let n = ctx.n(4000, 100000);
    for _ in 0..n {
        fill_case(&mut ctx, 24);
    }
    ctx.finish();
}
