//! C17 — the path-syntax parser is total, protocol-safe and round-trips printed paths.
//!
//! Drives the REAL `lyon_extra::parser::PathParser::parse` with a recording `PathBuilder` and a
//! counting character iterator (every recorded call carries the number of characters the parser
//! had pulled from the iterator when it made the call).
//!
//! Families
//! * `str` — one input string per case: `<na> <stop cp|-1> S <code points…>`.
//!   Streams (see the TAG): exhaustive strings of length ≤ 4 over the 16-symbol token alphabet,
//!   grammar-generated strings, mutated strings, strings starting with a drawing command, the
//!   `{:?}` text of random stored paths (round trip).
//! * `blk` — a block of the exhaustive enumeration: all strings of a given length with a given
//!   prefix; one `|`-joined token per string.
//!
//! IMPL = result kind (+ line, column, payload), final `Source::unwrap()` line/column, number of
//! characters consumed, and the recorded builder calls (`B L Q C E0 E1` `@consumed`, coordinates and
//! attributes as bit patterns) — including the quadratic segments the arc branch issues (the model
//! predicts them with the arc model of C13).
//!
//! ORCL (on the implementation alone): no panic; calls well nested; path data not starting with a
//! move-to rejected; error line/column equal an independent recomputation from the input; the
//! round trip `format!("{:?}", path)` → parse → identical events and attributes; every number
//! `{:?}` prints for a finite f32 has the shape `-?D+.D+` or `-?D(.D+)?e-?D+` (the hypothesis of
//! `printOK_of_debug_shape`).  Paths with non-finite coordinates print as `inf`/`NaN`, which the
//! path syntax (like SVG's) cannot express: the oracle only demands that such text is rejected
//! with an error (no panic, nested calls) and records the case as `skip roundtrip-non-finite`.
//!
//! The classes `no-initial-moveto` and `leading-newline` are the witness classes of the two
//! defects repaired by the fix commits 00996849 and c7c34442; they stay active.

use lyon_extra::parser::{ParseError, ParserOptions, PathParser, Source};
use lyon_path::builder::PathBuilder;
use lyon_path::math::{point, Point};
use lyon_path::{Attributes, EndpointId, Event, Path};
use std::cell::{Cell, RefCell};
use std::rc::Rc;
use vh::{CaseOut, Ctx, Oracle, Out, Rng};

// ---------------------------------------------------------------------------------------------
// instrumentation

#[derive(Clone, Default)]
struct Counter {
    pulled: Rc<Cell<usize>>,
    exhausted: Rc<Cell<bool>>,
}

struct CountIter {
    chars: Rc<Vec<char>>,
    c: Counter,
}

impl Iterator for CountIter {
    type Item = char;
    fn next(&mut self) -> Option<char> {
        let p = self.c.pulled.get();
        if p < self.chars.len() {
            self.c.pulled.set(p + 1);
            Some(self.chars[p])
        } else {
            self.c.exhausted.set(true);
            None
        }
    }
}

#[derive(Clone, Copy, PartialEq, Debug)]
enum Kind {
    B,
    L,
    Q,
    C,
    E0,
    E1,
}

#[derive(Clone, Debug)]
struct Rec {
    kind: Kind,
    pts: Vec<f32>,
    attrs: Vec<f32>,
    pulled: usize,
    /// issued while the active command letter was `A`/`a`
    arc: bool,
}

struct Recorder {
    na: usize,
    chars: Rc<Vec<char>>,
    c: Counter,
    calls: Rc<RefCell<Vec<Rec>>>,
}

impl Recorder {
    /// Is the most recent command letter among the characters already processed an `A`/`a`?
    /// (processed = strictly before the current look-ahead character; letters other than
    /// `e`/`E` can only have been processed as commands.)
    fn arc_context(&self) -> bool {
        let n = if self.c.exhausted.get() { self.chars.len() } else { self.c.pulled.get().saturating_sub(1) };
        for &ch in self.chars[..n].iter().rev() {
            if ch.is_ascii_alphabetic() && ch != 'e' && ch != 'E' {
                return ch == 'a' || ch == 'A';
            }
        }
        false
    }
    fn push(&mut self, kind: Kind, pts: &[Point], attrs: Attributes) {
        let arc = matches!(kind, Kind::L | Kind::Q) && self.arc_context();
        let mut v = Vec::new();
        for p in pts {
            v.push(p.x);
            v.push(p.y);
        }
        self.calls.borrow_mut().push(Rec { kind, pts: v, attrs: attrs.to_vec(), pulled: self.c.pulled.get(), arc });
    }
}

impl PathBuilder for Recorder {
    fn num_attributes(&self) -> usize {
        self.na
    }
    fn begin(&mut self, at: Point, a: Attributes) -> EndpointId {
        self.push(Kind::B, &[at], a);
        EndpointId(0)
    }
    fn end(&mut self, close: bool) {
        self.push(if close { Kind::E1 } else { Kind::E0 }, &[], &[]);
    }
    fn line_to(&mut self, to: Point, a: Attributes) -> EndpointId {
        self.push(Kind::L, &[to], a);
        EndpointId(0)
    }
    fn quadratic_bezier_to(&mut self, ctrl: Point, to: Point, a: Attributes) -> EndpointId {
        self.push(Kind::Q, &[ctrl, to], a);
        EndpointId(0)
    }
    fn cubic_bezier_to(&mut self, c1: Point, c2: Point, to: Point, a: Attributes) -> EndpointId {
        self.push(Kind::C, &[c1, c2, to], a);
        EndpointId(0)
    }
}

struct Run {
    res: Option<Result<(), ParseError>>, // None = panicked
    panic_msg: String,
    calls: Vec<Rec>,
    end_line: i32,
    end_col: i32,
    pulled: usize,
    exhausted: bool,
}

fn options(na: usize, stop: Option<char>) -> ParserOptions {
    let mut o = ParserOptions::DEFAULT;
    o.num_attributes = na;
    o.stop_at = stop;
    o
}

/// History independence: when `warm` is set the `PathParser` object has already parsed another
/// string with another attribute count (possibly ending in an error) before the parse under test.
/// The model knows nothing about histories: a parser that carries state across calls breaks the tie.
const WARMUPS: [(&str, usize); 3] = [("M 1 2 3 4 5 L 6 7 8 9 10 Z", 3), ("M 0 0 1 L 1 1 2 x", 1), ("M 0 0 L 5", 0)];

fn run_parse(chars: &Rc<Vec<char>>, na: usize, stop: Option<char>) -> Run {
    run_parse_h(chars, na, stop, None)
}

fn run_parse_h(chars: &Rc<Vec<char>>, na: usize, stop: Option<char>, warm: Option<usize>) -> Run {
    let mut parser = PathParser::new();
    if let Some(w) = warm {
        let (text, wna) = WARMUPS[w % WARMUPS.len()];
        let wchars: Rc<Vec<char>> = Rc::new(text.chars().collect());
        let mut wrec = Recorder { na: wna, chars: wchars.clone(), c: Counter::default(), calls: Rc::new(RefCell::new(Vec::new())) };
        let _ = std::panic::catch_unwind(std::panic::AssertUnwindSafe(|| {
            parser.parse(&options(wna, None), &mut Source::new(wchars.iter().copied()), &mut wrec)
        }));
    }
    let c = Counter::default();
    let calls = Rc::new(RefCell::new(Vec::new()));
    let mut rec = Recorder { na, chars: chars.clone(), c: c.clone(), calls: calls.clone() };
    let opts = options(na, stop);
    let mut src = Source::new(CountIter { chars: chars.clone(), c: c.clone() });
    let r = std::panic::catch_unwind(std::panic::AssertUnwindSafe(|| parser.parse(&opts, &mut src, &mut rec)));
    let (res, panic_msg) = match r {
        Ok(x) => (Some(x), String::new()),
        Err(e) => {
            let m = if let Some(s) = e.downcast_ref::<&str>() {
                s.to_string()
            } else if let Some(s) = e.downcast_ref::<String>() {
                s.clone()
            } else {
                "?".to_string()
            };
            (None, m)
        }
    };
    let (_, l, co) = src.unwrap();
    let calls = calls.borrow().clone();
    Run { res, panic_msg, calls, end_line: l, end_col: co, pulled: c.pulled.get(), exhausted: c.exhausted.get() }
}

fn hexf(x: f32) -> String {
    if x.is_nan() {
        "~7fc00000".to_string()
    } else {
        format!("~{:08x}", x.to_bits())
    }
}

/// canonical token list (same as `fResult` of Drive/C17.lean)
fn tokens(run: &Run) -> Vec<String> {
    let mut t: Vec<String> = Vec::new();
    match &run.res {
        None => t.push("arcpanic".into()),
        Some(Ok(())) => t.push("ok".into()),
        Some(Err(e)) => match e {
            ParseError::Number { src, line, column } => {
                t.push("number".into());
                t.push(line.to_string());
                t.push(column.to_string());
                t.push(format!("s{}", src.chars().map(|c| (c as u32).to_string()).collect::<Vec<_>>().join(".")));
            }
            ParseError::Flag { src, line, column } => {
                t.extend(["flag".to_string(), line.to_string(), column.to_string(), (*src as u32).to_string()]);
            }
            ParseError::Command { command, line, column } => {
                t.extend(["command".to_string(), line.to_string(), column.to_string(), (*command as u32).to_string()]);
            }
            ParseError::MissingMoveTo { command, line, column } => {
                t.extend(["moveto".to_string(), line.to_string(), column.to_string(), (*command as u32).to_string()]);
            }
            _ => t.push("other-error".into()),
        },
    }
    t.push("end".into());
    t.push(run.end_line.to_string());
    t.push(run.end_col.to_string());
    t.push(run.pulled.to_string());
    t.push("calls".into());
    t.push(run.calls.len().to_string());
    for c in &run.calls {
        let name = match c.kind {
            Kind::B => "B",
            Kind::L => "L",
            Kind::Q => "Q",
            Kind::C => "C",
            Kind::E0 => "E0",
            Kind::E1 => "E1",
        };
        t.push(format!("{}@{}", name, c.pulled));
        for v in &c.pts {
            t.push(hexf(*v));
        }
        for v in &c.attrs {
            t.push(hexf(*v));
        }
    }
    t
}

// ---------------------------------------------------------------------------------------------
// oracle

fn well_nested(calls: &[Rec]) -> Result<(), String> {
    let mut inside = false;
    for (i, c) in calls.iter().enumerate() {
        match c.kind {
            Kind::B => {
                if inside {
                    return Err(format!("call {} begin inside a sub-path", i));
                }
                inside = true;
            }
            Kind::L | Kind::Q | Kind::C => {
                if !inside {
                    return Err(format!("call {} {:?} outside a sub-path", i, c.kind));
                }
            }
            Kind::E0 | Kind::E1 => {
                if !inside {
                    return Err(format!("call {} end outside a sub-path", i));
                }
                inside = false;
            }
        }
    }
    if inside {
        return Err("sub-path left open".into());
    }
    Ok(())
}

/// independent recomputation of (line, column) of the character at index `idx`:
/// line = newlines up to and including it, column = offset since the last newline
fn position_of(chars: &[char], idx: usize) -> (i32, i32, bool) {
    let line = chars[..=idx].iter().filter(|c| **c == '\n').count() as i32;
    let last_nl = chars[..=idx].iter().rposition(|c| *c == '\n');
    match last_nl {
        Some(j) => (line, idx as i32 - j as i32 - 1, j == 0),
        None => (line, idx as i32, false),
    }
}

fn is_sep(c: char) -> bool {
    c.is_whitespace() || c == ','
}

fn oracle(chars: &[char], stop: Option<char>, run: &Run, orc: &mut Oracle) {
    let first_call_not_begin = run.calls.first().map(|c| c.kind != Kind::B).unwrap_or(false);
    let no_begin_at_all = !run.calls.iter().any(|c| c.kind == Kind::B);
    // 1. no panic
    if run.res.is_none() {
        let class = if run.panic_msg.contains("index out of bounds") && no_begin_at_all {
            "no-initial-moveto"
        } else {
            "generic"
        };
        orc.check(false, "parse/no-panic", class, || format!("panic: {}", run.panic_msg.chars().take(100).collect::<String>()));
        return;
    }
    let res = run.res.as_ref().unwrap();
    // 2. path data not starting with a move-to is rejected
    let first = chars.iter().copied().find(|c| !is_sep(*c));
    if let Some(c) = first {
        if Some(c) != stop && c.is_ascii_alphabetic() && c != 'm' && c != 'M' {
            orc.check(res.is_err(), "parse/missing-move-to", "no-initial-moveto", || {
                format!("path data starts with {:?} and is accepted ({} calls)", c, run.calls.len())
            });
        }
    }
    // 3. calls well nested (success or error)
    if let Err(why) = well_nested(&run.calls) {
        let class = if first_call_not_begin { "no-initial-moveto" } else { "generic" };
        orc.check(false, "parse/well-nested", class, || why.clone());
    }
    // arc branch issues only edges
    // (already implied by well-nestedness: begin/end inside an arc would be out of place)
    // 4. error position
    if let Err(e) = res {
        let cur = if run.exhausted { chars.len() } else { run.pulled.saturating_sub(1) };
        let (line, col, back) = match e {
            ParseError::Number { src, line, column } => (*line, *column, src.chars().count()),
            ParseError::Flag { line, column, .. } => (*line, *column, 0),
            ParseError::Command { line, column, .. } => (*line, *column, 1),
            ParseError::MissingMoveTo { line, column, .. } => (*line, *column, 1),
            _ => (0, 0, 0),
        };
        if !chars.is_empty() {
            let idx = cur.saturating_sub(back).min(chars.len() - 1);
            let (el, ec, leading) = position_of(chars, idx);
            let class = if leading { "leading-newline" } else { "generic" };
            orc.check(line == el && col == ec, "parse/error-position", class, || {
                format!("reported line {} column {}, token at index {} is at line {} column {}", line, col, idx, el, ec)
            });
        } else {
            orc.check(false, "parse/error-position", "generic", || "error on empty input".to_string());
        }
    }
}

// ---------------------------------------------------------------------------------------------
// round trip

#[derive(PartialEq, Debug, Clone)]
struct Ev(u8, Vec<u32>);

fn events_of(path: &Path) -> Vec<Ev> {
    let b = |p: (Point, Attributes)| -> Vec<u32> {
        let mut v = vec![p.0.x.to_bits(), p.0.y.to_bits()];
        v.extend(p.1.iter().map(|a| a.to_bits()));
        v
    };
    let c = |p: Point| -> Vec<u32> { vec![p.x.to_bits(), p.y.to_bits()] };
    let mut out = Vec::new();
    for e in path.iter_with_attributes() {
        out.push(match e {
            Event::Begin { at } => Ev(0, b(at)),
            Event::Line { from, to } => Ev(1, [b(from), b(to)].concat()),
            Event::Quadratic { from, ctrl, to } => Ev(2, [b(from), c(ctrl), b(to)].concat()),
            Event::Cubic { from, ctrl1, ctrl2, to } => Ev(3, [b(from), c(ctrl1), c(ctrl2), b(to)].concat()),
            Event::End { last, first, close } => Ev(4 + close as u8, [b(last), b(first)].concat()),
        });
    }
    out
}

/// `-?D+.D+` or `-?D(.D+)?e-?D+`
fn debug_shape_ok(t: &str) -> bool {
    let b = t.as_bytes();
    let mut i = 0;
    let digits = |i: &mut usize| -> usize {
        let s = *i;
        while *i < b.len() && b[*i].is_ascii_digit() {
            *i += 1;
        }
        *i - s
    };
    if i < b.len() && b[i] == b'-' {
        i += 1;
    }
    let n_int = digits(&mut i);
    if n_int == 0 {
        return false;
    }
    let mut has_frac = false;
    if i < b.len() && b[i] == b'.' {
        i += 1;
        if digits(&mut i) == 0 {
            return false;
        }
        has_frac = true;
    }
    if i == b.len() {
        return has_frac;
    }
    if b[i] != b'e' || n_int != 1 {
        return false;
    }
    i += 1;
    if i < b.len() && b[i] == b'-' {
        i += 1;
    }
    digits(&mut i) > 0 && i == b.len()
}

fn path_floats(path: &Path) -> Vec<f32> {
    events_of(path).iter().flat_map(|e| e.1.iter().map(|b| f32::from_bits(*b))).collect()
}

fn rt_coord(rng: &mut Rng, style: u64) -> f32 {
    match style {
        0 => rng.range(-20, 20) as f32,
        1 => rng.lattice(4000, 4) as f32,
        2 => rng.uniform(-1000.0, 1000.0) as f32,
        3 => rng.log_uniform(-44.0, 38.0) as f32,
        _ => {
            // any finite bit pattern (subnormals, -0.0, extremes)
            loop {
                let v = f32::from_bits(rng.next() as u32);
                if v.is_finite() {
                    return v;
                }
            }
        }
    }
}

fn random_path(rng: &mut Rng, na: usize, nonfinite: bool) -> Path {
    let mut b = Path::builder_with_attributes(na);
    let style = rng.below(5);
    let n_sub = if nonfinite { rng.range(1, 3) } else { rng.range(0, 4) };
    let co = |rng: &mut Rng| -> f32 {
        if nonfinite && rng.chance(1, 6) {
            return *rng.pick(&[f32::INFINITY, f32::NEG_INFINITY, f32::NAN, -f32::NAN]);
        }
        let s = if rng.chance(1, 5) { rng.below(5) } else { style };
        rt_coord(rng, s)
    };
    for _ in 0..n_sub {
        let at: Vec<f32> = (0..na).map(|_| co(rng)).collect();
        b.begin(point(co(rng), co(rng)), &at);
        let n_edges = rng.range(0, 6);
        for _ in 0..n_edges {
            let at: Vec<f32> = (0..na).map(|_| co(rng)).collect();
            match rng.below(3) {
                0 => {
                    b.line_to(point(co(rng), co(rng)), &at);
                }
                1 => {
                    b.quadratic_bezier_to(point(co(rng), co(rng)), point(co(rng), co(rng)), &at);
                }
                _ => {
                    b.cubic_bezier_to(point(co(rng), co(rng)), point(co(rng), co(rng)), point(co(rng), co(rng)), &at);
                }
            }
        }
        b.end(rng.chance(1, 2));
    }
    b.build()
}

// ---------------------------------------------------------------------------------------------
// generators

const ALPHABET: [char; 16] = ['M', 'L', 'H', 'Z', 'z', 'm', 'q', 'A', '0', '1', '-', '.', 'e', ' ', ',', '\n'];

/// non-ASCII characters of the modelled alphabet: White_Space, the listed numerics, and others
const UNI_WS: [char; 8] = ['\u{85}', '\u{a0}', '\u{1680}', '\u{2003}', '\u{2028}', '\u{202f}', '\u{205f}', '\u{3000}'];
const UNI_NUM: [char; 10] = ['\u{b2}', '\u{b3}', '\u{b9}', '\u{bd}', '\u{663}', '\u{669}', '\u{967}', '\u{2160}', '\u{2163}', '\u{ff15}'];
const UNI_OTHER: [char; 6] = ['\u{e9}', '\u{3bb}', '\u{2192}', '\u{1f600}', '\u{200b}', '\u{feff}'];

fn rand_char(rng: &mut Rng) -> char {
    match rng.below(12) {
        0..=4 => *rng.pick(&ALPHABET),
        5 => *rng.pick(&['l', 'h', 'v', 'V', 'Q', 't', 'T', 'c', 'C', 's', 'S', 'a', 'E', 'x', 'X', '+', '2', '5', '9', '\t', '\r', '|', '"', '~', '*']),
        6..=8 => char::from_u32(rng.below(128) as u32).unwrap(),
        9 => *rng.pick(&UNI_WS),
        10 => *rng.pick(&UNI_NUM),
        _ => *rng.pick(&UNI_OTHER),
    }
}

fn gen_number(rng: &mut Rng) -> String {
    let mut s = String::new();
    if rng.chance(1, 4) {
        s.push('-');
    }
    match rng.below(14) {
        0..=3 => s.push_str(&rng.range(0, 20).to_string()),
        4 => s.push_str(&format!("{}.{}", rng.range(0, 300), rng.range(0, 999))),
        5 => s.push_str(&format!(".{}", rng.range(0, 999))),
        6 => s.push_str(&format!("{}.", rng.range(0, 99))),
        7 => s.push_str(&format!("{}e{}", rng.range(0, 99), rng.range(-12, 12))),
        8 => s.push_str(&format!("{}.{}E{}", rng.range(0, 9), rng.range(0, 99999), rng.range(-50, 45))),
        9 => s.push_str(&format!("{:?}", rt_coord(rng, 4).abs())),
        10 => {
            // long digit strings: rounding of many significant digits
            let n = rng.range(1, 45);
            for _ in 0..n {
                s.push(char::from(b'0' + rng.below(10) as u8));
            }
            if rng.chance(1, 2) {
                s.push('.');
                for _ in 0..rng.range(0, 12) {
                    s.push(char::from(b'0' + rng.below(10) as u8));
                }
            }
            if rng.chance(1, 3) {
                s.push_str(&format!("e{}", rng.range(-60, 10)));
            }
        }
        11 => s.push_str(*rng.pick(&["16777217", "16777219", "1e39", "3.4028235e38", "3.4028236e38", "340282356779733661637539395458142568448", "340282356779733661637539395458142568447", "1e-45", "7e-46", "7.1e-46", "1.1754944e-38", "1.1754942e-38", "0.000", "00012", "1e0000000000000000000005", "1e99999999999999999999", "1e-99999999999999999999", "8388608.5", "8388609.5", "0.1", "0.3", "1e-4", "0.0001", "0.00010000001"])),
        12 => s.push_str(&format!("{}e{}", rng.range(1, 9), rng.range(36, 41))),
        _ => s.push_str(&format!("{}e-{}", rng.range(1, 99), rng.range(40, 50))),
    }
    s
}

fn gen_sep(rng: &mut Rng, out: &mut String) {
    match rng.below(16) {
        0..=8 => out.push(' '),
        9 => out.push(','),
        10 => out.push('\n'),
        11 => out.push_str(" , "),
        12 => out.push_str(*rng.pick(&["\t", "\r\n", "  ", "\n\n", " \n "])),
        13 => out.push(*rng.pick(&UNI_WS)),
        14 => {
            // no separator (legal before '-' or '.', otherwise glues tokens)
            if rng.chance(2, 3) {
                out.push(' ');
            }
        }
        _ => out.push_str(", ,"),
    }
}

/// a mostly well-formed path string in the extended syntax with `na` attributes
fn gen_path_string(rng: &mut Rng, na: usize, start_with_move: bool) -> String {
    let mut s = String::new();
    if rng.chance(1, 4) {
        gen_sep(rng, &mut s);
    }
    let n_cmds = rng.range(1, 10);
    let mut prev: Option<char> = None;
    for i in 0..n_cmds {
        let cmd = if (i == 0 && start_with_move) || (matches!(prev, Some('Z') | Some('z')) && rng.chance(4, 5)) {
            *rng.pick(&['M', 'M', 'm'])
        } else {
            *rng.pick(&['M', 'm', 'L', 'l', 'L', 'H', 'h', 'V', 'v', 'Q', 'q', 'T', 't', 'C', 'c', 'S', 's', 'A', 'a', 'A', 'Z', 'z'])
        };
        let implicit_ok = match prev {
            Some(p) => (p == cmd && !matches!(cmd, 'Z' | 'z')) || (p == 'M' && cmd == 'L') || (p == 'm' && cmd == 'l'),
            None => cmd == 'M',
        };
        if !(implicit_ok && rng.chance(1, 2)) {
            s.push(cmd);
            if rng.chance(2, 3) {
                gen_sep(rng, &mut s);
            }
        }
        let (nums, flags_at): (usize, Option<usize>) = match cmd.to_ascii_lowercase() {
            'm' | 'l' | 't' => (2 + na, None),
            'h' | 'v' => (1 + na, None),
            'q' | 's' => (4 + na, None),
            'c' => (6 + na, None),
            'a' => (7 + na, Some(3)),
            _ => (0, None),
        };
        for k in 0..nums {
            if let Some(f) = flags_at {
                if k == f || k == f + 1 {
                    s.push(if rng.chance(1, 2) { '0' } else { '1' });
                    if k == f + 1 || rng.chance(1, 2) {
                        gen_sep(rng, &mut s);
                    }
                    continue;
                }
            }
            if matches!(cmd, 'A' | 'a') && k < 2 && rng.chance(1, 6) {
                // radii near the straight-line threshold / zero / huge
                s.push_str(*rng.pick(&["0", "1e-4", "0.0001", "0.00010001", "1e-5", "1e39", "-0.0001", "1e20"]));
            } else {
                s.push_str(&gen_number(rng));
            }
            gen_sep(rng, &mut s);
        }
        prev = Some(cmd);
    }
    s
}


/// a number that is exact in f32 and stays exact under the few additions the parser makes
fn lattice_num(rng: &mut Rng) -> f32 {
    if rng.chance(1, 2) {
        rng.range(-20, 20) as f32
    } else {
        rng.range(-80, 80) as f32 / 4.0
    }
}

fn fmt_num(rng: &mut Rng, v: f32) -> String {
    if v == v.trunc() && rng.chance(1, 2) {
        format!("{}", v as i32)
    } else if rng.chance(1, 6) && v != 0.0 {
        format!("{}e-2", v * 100.0)
    } else {
        format!("{:?}", v)
    }
}

/// Path data built from a command list, together with the calls the SVG path rules assign to it
/// (relative coordinates, implicit repetition, H/V, smooth reflection, close returning to the
/// sub-path start) — computed from the command list, never from the text.
fn gen_svg_semantics(rng: &mut Rng, na: usize) -> (String, Vec<(Kind, Vec<f32>, Vec<f32>)>) {
    let mut text = String::new();
    let mut exp: Vec<(Kind, Vec<f32>, Vec<f32>)> = Vec::new();
    let (mut cx, mut cy, mut sx, mut sy) = (0f32, 0f32, 0f32, 0f32);
    let mut last_c: Option<(f32, f32)> = None;
    let mut last_q: Option<(f32, f32)> = None;
    let mut open = false;
    let mut prev: Option<char> = None;
    let n = rng.range(1, 12);
    for i in 0..n {
        let cmd = if i == 0 || matches!(prev, Some('Z') | Some('z')) {
            *rng.pick(&['M', 'm'])
        } else {
            *rng.pick(&['M', 'm', 'L', 'l', 'l', 'H', 'h', 'V', 'v', 'Q', 'q', 'T', 't', 'T', 'C', 'c', 'S', 's', 'S', 'Z', 'z'])
        };
        let rel = cmd.is_ascii_lowercase();
        let lc = cmd.to_ascii_lowercase();
        // letter, or implicit repetition where the syntax allows it
        let implicit_ok = match prev {
            Some(p) => (p == cmd && lc != 'z' && lc != 'm') || (p == 'M' && cmd == 'L') || (p == 'm' && cmd == 'l'),
            None => false,
        };
        if !(implicit_ok && rng.chance(1, 2)) {
            if !text.is_empty() && rng.chance(2, 3) {
                text.push(' ');
            }
            text.push(cmd);
        } else {
            text.push(' ');
        }
        let mut nums: Vec<f32> = Vec::new();
        let mut num = |rng: &mut Rng, text: &mut String| -> f32 {
            let v = lattice_num(rng);
            let t = fmt_num(rng, v);
            match rng.below(4) {
                0 => text.push(','),
                1 if t.starts_with('-') => {}
                _ => text.push(' '),
            }
            text.push_str(&t);
            v
        };
        let pt = |rng: &mut Rng, text: &mut String, num: &mut dyn FnMut(&mut Rng, &mut String) -> f32| -> (f32, f32) {
            let x = num(rng, text);
            let y = num(rng, text);
            if rel {
                (x + cx, y + cy)
            } else {
                (x, y)
            }
        };
        let _ = &mut nums;
        match lc {
            'm' => {
                if open {
                    exp.push((Kind::E0, vec![], vec![]));
                }
                let p = pt(rng, &mut text, &mut num);
                let at: Vec<f32> = (0..na).map(|_| num(rng, &mut text)).collect();
                exp.push((Kind::B, vec![p.0, p.1], at));
                cx = p.0;
                cy = p.1;
                sx = p.0;
                sy = p.1;
                open = true;
            }
            'l' => {
                let p = pt(rng, &mut text, &mut num);
                let at: Vec<f32> = (0..na).map(|_| num(rng, &mut text)).collect();
                exp.push((Kind::L, vec![p.0, p.1], at));
                cx = p.0;
                cy = p.1;
            }
            'h' => {
                let x = num(rng, &mut text);
                let x = if rel { x + cx } else { x };
                let at: Vec<f32> = (0..na).map(|_| num(rng, &mut text)).collect();
                exp.push((Kind::L, vec![x, cy], at));
                cx = x;
            }
            'v' => {
                let y = num(rng, &mut text);
                let y = if rel { y + cy } else { y };
                let at: Vec<f32> = (0..na).map(|_| num(rng, &mut text)).collect();
                exp.push((Kind::L, vec![cx, y], at));
                cy = y;
            }
            'q' | 't' => {
                let c = if lc == 'q' {
                    pt(rng, &mut text, &mut num)
                } else {
                    match last_q {
                        Some(k) => (cx + (cx - k.0), cy + (cy - k.1)),
                        None => (cx, cy),
                    }
                };
                let p = pt(rng, &mut text, &mut num);
                let at: Vec<f32> = (0..na).map(|_| num(rng, &mut text)).collect();
                exp.push((Kind::Q, vec![c.0, c.1, p.0, p.1], at));
                last_q = Some(c);
                cx = p.0;
                cy = p.1;
            }
            'c' | 's' => {
                let c1 = if lc == 'c' {
                    pt(rng, &mut text, &mut num)
                } else {
                    match last_c {
                        Some(k) => (cx + (cx - k.0), cy + (cy - k.1)),
                        None => (cx, cy),
                    }
                };
                let c2 = pt(rng, &mut text, &mut num);
                let p = pt(rng, &mut text, &mut num);
                let at: Vec<f32> = (0..na).map(|_| num(rng, &mut text)).collect();
                exp.push((Kind::C, vec![c1.0, c1.1, c2.0, c2.1, p.0, p.1], at));
                last_c = Some(c2);
                cx = p.0;
                cy = p.1;
            }
            _ => {
                exp.push((Kind::E1, vec![], vec![]));
                cx = sx;
                cy = sy;
                open = false;
            }
        }
        if !matches!(lc, 'c' | 's') {
            last_c = None;
        }
        if !matches!(lc, 'q' | 't') {
            last_q = None;
        }
        prev = Some(cmd);
    }
    if open {
        exp.push((Kind::E0, vec![], vec![]));
    }
    (text, exp)
}

/// well-conditioned arcs (finite, radii 1..60, any rotation and flags), mixed with other edges
fn gen_arc_string(rng: &mut Rng, na: usize) -> String {
    let mut s = String::new();
    let attrs = |rng: &mut Rng, s: &mut String| {
        for _ in 0..na {
            s.push_str(&format!(" {}", rng.range(-9, 9)));
        }
    };
    s.push_str(&format!("M {} {}", rng.range(-50, 50), rng.range(-50, 50)));
    attrs(rng, &mut s);
    for _ in 0..rng.range(1, 5) {
        match rng.below(6) {
            0 => {
                s.push_str(&format!(" L {} {}", rng.range(-50, 50), rng.range(-50, 50)));
                attrs(rng, &mut s);
            }
            1 => {
                s.push_str(&format!(" t {} {}", rng.range(-9, 9), rng.range(-9, 9)));
                attrs(rng, &mut s);
            }
            _ => {
                let cmd = if rng.chance(1, 2) { 'A' } else { 'a' };
                let r = |rng: &mut Rng| -> String {
                    match rng.below(8) {
                        0 => format!("{:?}", rng.uniform(0.5, 60.0) as f32),
                        1 => "1e-4".to_string(),
                        2 => "0.00011".to_string(),
                        3 => format!("-{}", rng.range(1, 30)),
                        _ => format!("{}", rng.range(1, 60)),
                    }
                };
                let rot = match rng.below(4) {
                    0 => "0".to_string(),
                    1 => format!("{}", rng.range(-720, 720)),
                    _ => format!("{:?}", rng.uniform(-360.0, 360.0) as f32),
                };
                let to = |rng: &mut Rng| -> String {
                    if rng.chance(1, 2) {
                        format!("{}", rng.range(-60, 60))
                    } else {
                        format!("{:?}", rng.uniform(-60.0, 60.0) as f32)
                    }
                };
                s.push_str(&format!(" {} {} {} {} {} {} {} {}", cmd, r(rng), r(rng), rot, rng.below(2), rng.below(2), to(rng), to(rng)));
                attrs(rng, &mut s);
            }
        }
    }
    if rng.chance(1, 3) {
        s.push_str(" Z");
    }
    s
}

fn mutate(rng: &mut Rng, s: &str) -> String {
    let mut v: Vec<char> = s.chars().collect();
    let n = rng.range(1, 4);
    for _ in 0..n {
        let len = v.len();
        match rng.below(6) {
            0 if len > 0 => {
                v.remove(rng.below(len as u64) as usize);
            }
            1 => {
                let c = rand_char(rng);
                v.insert(rng.below(len as u64 + 1) as usize, c);
            }
            2 if len > 0 => {
                let i = rng.below(len as u64) as usize;
                v[i] = rand_char(rng);
            }
            3 if len > 0 => {
                v.truncate(rng.below(len as u64) as usize);
            }
            4 if len > 1 => {
                let i = rng.below(len as u64 - 1) as usize;
                v.swap(i, i + 1);
            }
            _ if len > 0 => {
                let i = rng.below(len as u64) as usize;
                let j = (i + rng.range(1, 6) as usize).min(len);
                let chunk: Vec<char> = v[i..j].to_vec();
                let at = rng.below(len as u64 + 1) as usize;
                for (k, c) in chunk.into_iter().enumerate() {
                    v.insert(at + k, c);
                }
            }
            _ => {}
        }
    }
    v.truncate(200);
    v.into_iter().collect()
}

// ---------------------------------------------------------------------------------------------
// cases

fn stop_tok(stop: Option<char>) -> String {
    match stop {
        Some(c) => (c as u32).to_string(),
        None => "-1".to_string(),
    }
}

/// one `str` case on a fixed string
fn str_case(ctx: &mut Ctx, text: String, na: usize, stop: Option<char>, tag: String, original: Option<Path>) {
    str_case_x(ctx, text, na, stop, tag, original, None)
}

/// `expected`: the calls an independent evaluation of the SVG rules predicts (svg-semantics stream)
fn str_case_x(ctx: &mut Ctx, text: String, na: usize, stop: Option<char>, tag: String, original: Option<Path>, expected: Option<Vec<(Kind, Vec<f32>, Vec<f32>)>>) {
    ctx.case("str", move |_rng| {
        let chars: Rc<Vec<char>> = Rc::new(text.chars().collect());
        // first run: result kind for the tag
        let pre = run_parse(&chars, na, stop);
        let mut args = Out::new();
        args.u(na as u64).t(&stop_tok(stop)).t("S");
        for c in chars.iter() {
            args.u(*c as u64);
        }
        let kind = match &pre.res {
            None => "panic",
            Some(Ok(())) => "ok",
            Some(Err(ParseError::Number { .. })) => "err-number",
            Some(Err(ParseError::Flag { .. })) => "err-flag",
            Some(Err(ParseError::Command { .. })) => "err-command",
            Some(Err(ParseError::MissingMoveTo { .. })) => "err-moveto",
            Some(Err(_)) => "err-other",
        };
        let trivial = if chars.is_empty() { " trivial" } else { "" };
        let tag = format!("{} na={} stop={} {} calls={}{}", tag, na, stop.is_some() as u8, kind, pre.calls.len().min(9), trivial);
        // two cases in three run on a parser object with a history (see WARMUPS)
        let warm = match (chars.len() + 2 * na) % 6 { 0 | 3 => None, k => Some(k) };
        (args, tag, move || {
            let run = run_parse_h(&chars, na, stop, warm);
            let mut o = Out::new();
            for t in tokens(&run) {
                o.t(&t);
            }
            let mut orc = Oracle::new();
            oracle(&chars, stop, &run, &mut orc);
            if let Some(exp) = &expected {
                let got: Vec<(Kind, Vec<f32>, Vec<f32>)> = run.calls.iter().map(|c| (c.kind, c.pts.clone(), c.attrs.clone())).collect();
                orc.check(matches!(run.res, Some(Ok(()))), "parse/svg-semantics", "generic", || format!("well-formed path data rejected: {:?}", run.res));
                orc.check(&got == exp, "parse/svg-semantics", "generic", || {
                    let k = got.iter().zip(exp.iter()).position(|(a, b)| a != b).unwrap_or(got.len().min(exp.len()));
                    format!("call {} differs from the SVG rules ({} vs {} calls): got {:?} expected {:?}", k, got.len(), exp.len(), got.get(k), exp.get(k))
                });
            }
            if let Some(orig) = original {
                // round trip into a real path builder
                let floats = path_floats(&orig);
                let finite = floats.iter().all(|v| v.is_finite());
                let mut b = Path::builder_with_attributes(na);
                let mut parser = PathParser::new();
                let r = parser.parse(&options(na, stop), &mut Source::new(chars.iter().copied()), &mut b);
                if finite {
                    for v in &floats {
                        let t = format!("{:?}", v);
                        orc.check(debug_shape_ok(&t), "roundtrip/debug-shape", "generic", || format!("{:?} prints as {}", v.to_bits(), t));
                    }
                    orc.check(r.is_ok(), "roundtrip/parses", "generic", || format!("printed path rejected: {:?}", r));
                    if r.is_ok() {
                        let back = b.build();
                        let (e1, e2) = (events_of(&orig), events_of(&back));
                        orc.check(e1 == e2, "roundtrip/identical", "generic", || {
                            let k = e1.iter().zip(e2.iter()).position(|(a, b)| a != b).unwrap_or(e1.len().min(e2.len()));
                            format!("events differ at {} ({} vs {} events): {:?} vs {:?}", k, e1.len(), e2.len(), e1.get(k), e2.get(k))
                        });
                    }
                } else {
                    // `inf` / `NaN` are not path syntax: the text must be rejected, not misread
                    orc.check(r.is_err(), "roundtrip/non-finite-rejected", "generic", || "text with inf/NaN parsed Ok".to_string());
                    orc.skip("roundtrip-non-finite");
                }
            }
            CaseOut { imp: o, orcl: orc.verdict }
        })
    });
}

fn nth_string(mut idx: u64, len: usize) -> String {
    let mut v = vec![' '; len];
    for k in (0..len).rev() {
        v[k] = ALPHABET[(idx % 16) as usize];
        idx /= 16;
    }
    v.into_iter().collect()
}

/// a block of the exhaustive enumeration
fn blk_case(ctx: &mut Ctx, na: usize, stop: Option<char>, len: usize, prefix: Vec<usize>) {
    ctx.case("blk", move |_rng| {
        let mut args = Out::new();
        args.u(na as u64).t(&stop_tok(stop)).u(len as u64);
        for p in &prefix {
            args.u(*p as u64);
        }
        let tag = format!("exhaustive-block len={} na={} stop={}", len, na, stop.is_some() as u8);
        (args, tag, move || {
            let tail = len - prefix.len();
            let pre: String = prefix.iter().map(|i| ALPHABET[*i]).collect();
            let mut o = Out::new();
            let mut orc = Oracle::new();
            for idx in 0..16u64.pow(tail as u32) {
                let text = format!("{}{}", pre, nth_string(idx, tail));
                let chars: Rc<Vec<char>> = Rc::new(text.chars().collect());
                let run = run_parse(&chars, na, stop);
                o.t(&tokens(&run).join("|"));
                if !orc.failed() {
                    oracle(&chars, stop, &run, &mut orc);
                    if orc.failed() {
                        if let vh::Verdict::Fail { detail, .. } = &mut orc.verdict {
                            *detail = format!("input {:?}: {}", text, detail);
                        }
                    }
                }
            }
            CaseOut { imp: o, orcl: orc.verdict }
        })
    });
}

fn main() {
    let mut ctx = Ctx::from_args("C17");
    let thorough = ctx.thorough;

    // --- fixed witnesses and regression strings (the defects, the parser's own test inputs)
    let fixed: &[(&str, usize, Option<char>)] = &[
        ("L 1 1", 0, None),
        ("Z", 0, None),
        ("H 3", 0, None),
        ("A 1 1 0 0 0 5 5 7", 1, None),
        ("M 0 0 A 1e39 1 0 0 0 5 5", 0, None),
        ("\nx", 0, None),
        ("M 0 0 A 1 1 1e39 0 0 5 5", 0, None),
        ("M 1e39 0 A 1 1 0 0 0 5 5", 0, None),
        ("M 0 0 A 1e20 1e20 0 0 0 5 5", 0, None),
        ("M 0 0 A 1e-3 1e-3 0 0 0 1e30 1e30", 0, None),
        ("M 0 0 A 1e39 1e39 0 0 0 5 5", 0, None),
        ("M 1e39 1e39 A 1 1 0 0 0 -1e39 5", 0, None),
        ("M 0 0 l 1e39 0 l -1e39 0 a 1 1 0 0 0 5 5", 0, None),
        ("M 0 0 L 1 0 L 1 1 L 0 1 Z", 0, None),
        ("M 0 0 1.0 L 1 0 2.0 L 1 1 3.0 L 0 1 4.0 Z", 1, None),
        ("0 0 0 1 1 1.0 2 2 2.0 3 3 3", 1, None),
        ("x 0 0 0", 1, None),
        ("\n M 0 \n0 1 x 1 1 1", 1, None),
        ("M 0.6.5", 0, None),
        ("M 1e-2 -1E3", 0, None),
        ("M 0 --1", 0, None),
        ("M 0 1ee2", 0, None),
        ("M 0 1e--1", 0, None),
        ("M 0 *2", 0, None),
        ("M 0 e", 0, None),
        ("M 0 1e", 0, None),
        ("M 0 +1", 0, None),
        ("M 0 0 | xxxxxx", 0, Some('|')),
        ("    | xxxxxx", 0, Some('|')),
        ("M 0 0 Z L 1 1 2 2 L 3 3 Z M 4 4", 0, Some('|')),
        ("M 1.e-9 1.4e-4z", 0, None),
        ("0 0M", 0, None),
        ("M 0 0 A 5 5 0 0 1 10 0 S 1 1 2 2 T 3 3", 0, None),
        ("M 0 0 7 A 5 5 30 1 0 10 10 9 a 1 1 0 01-3-3 2", 1, None),
        ("M0,0C0,10 10,10 10,0s5-5 10 0t1 1q1 1 2 2t3 3h4v5H1V2z", 0, None),
    ];
    for (s, na, stop) in fixed {
        str_case(&mut ctx, s.to_string(), *na, *stop, "fixed".to_string(), None);
    }

    // --- exhaustive, one case per string: length ≤ 4 (na = 0 and 1, stop unset and 'Z')
    let variants: &[(usize, Option<char>)] =
        if thorough { &[(0, None), (1, None), (0, Some('Z')), (2, Some('1'))] } else { &[(0, None), (1, None), (0, Some('Z'))] };
    for (vi, (na, stop)) in variants.iter().enumerate() {
        let max_len = if vi == 0 || thorough { 4 } else { 3 };
        for len in 0..=max_len {
            for idx in 0..16u64.pow(len as u32) {
                str_case(&mut ctx, nth_string(idx, len), *na, *stop, format!("exhaustive len={}", len), None);
            }
        }
    }

    // --- exhaustive over ParserOptions: 2-3 attributes, stop character set, length <= 4 (blocks)
    let opt_variants: &[(usize, Option<char>)] = &[(2, None), (3, None), (1, Some('Z')), (2, Some('1')), (3, Some(' ')), (0, Some('M')), (1, Some('e'))];
    for (na, stop) in opt_variants {
        for len in 1..=4usize {
            for p in 0..16usize {
                blk_case(&mut ctx, *na, *stop, len, vec![p]);
            }
        }
    }

    // --- exhaustive, in blocks: length 5 (quick), 5 and 6 (thorough)
    for p in 0..16usize {
        blk_case(&mut ctx, 0, None, 5, vec![p]);
    }
    if thorough {
        for p in 0..16usize {
            blk_case(&mut ctx, 1, None, 5, vec![p]);
            blk_case(&mut ctx, 0, Some('Z'), 5, vec![p]);
        }
        for p in 0..256usize {
            blk_case(&mut ctx, 0, None, 6, vec![p / 16, p % 16]);
        }
        for p in 0..256usize {
            blk_case(&mut ctx, 1, None, 6, vec![p / 16, p % 16]);
        }
    }

    // --- generated streams
    let n = ctx.n(7000, 210000);
    for i in 0..n {
        // parameters are drawn from a generator-local RNG so that the string is known before
        // `ctx.case` (the case id still determines it: seed ^ i)
        let mut rng = Rng::new(ctx.seed ^ 0xC17, i);
        let na = if rng.chance(1, 2) { 0 } else { rng.range(1, 3) as usize };
        let stop = if rng.chance(1, 4) { Some(*rng.pick(&['|', ';', 'Z', '1', 'x', ' ', '"', 'L', 'A'])) } else { None };
        match i % 7 {
            5 => {
                // SVG semantics: relative commands, implicit repetition, smooth reflection
                let na = rng.range(0, 2) as usize;
                let (text, exp) = gen_svg_semantics(&mut rng, na);
                str_case_x(&mut ctx, text, na, None, "svg-semantics".to_string(), None, Some(exp));
            }
            6 => {
                let na = rng.range(0, 2) as usize;
                let text = gen_arc_string(&mut rng, na);
                str_case(&mut ctx, text, na, None, "arcs".to_string(), None);
            }
            0 => {
                let mut s = gen_path_string(&mut rng, na, true);
                if stop.is_some() && rng.chance(1, 2) {
                    s.push(stop.unwrap());
                    s.push_str(" trailing garbage x");
                }
                str_case(&mut ctx, s, na, stop, "grammar".to_string(), None);
            }
            1 => {
                let s = gen_path_string(&mut rng, na, true);
                let m = mutate(&mut rng, &s);
                str_case(&mut ctx, m, na, stop, "mutated".to_string(), None);
            }
            2 => {
                // path data that does not start with a move-to
                let s = gen_path_string(&mut rng, na, false);
                str_case(&mut ctx, s, na, stop, "grammar-any-start".to_string(), None);
            }
            3 => {
                // random characters from the modelled alphabet
                let len = rng.range(0, 24);
                let s: String = (0..len).map(|_| rand_char(&mut rng)).collect();
                str_case(&mut ctx, s, na, stop, "random-chars".to_string(), None);
            }
            _ => {
                // round trip of a stored path through `{:?}`
                let na = rng.range(0, 3) as usize;
                let nonfinite = rng.chance(1, 10);
                let path = random_path(&mut rng, na, nonfinite);
                let printed = format!("{:?}", path);
                if rng.chance(1, 2) {
                    // the text between the quotes
                    let inner = printed[1..printed.len() - 1].to_string();
                    str_case(&mut ctx, inner, na, None, format!("roundtrip{} inner", if nonfinite { "-nonfinite" } else { "" }), Some(path));
                } else {
                    // skip the opening quote, stop at the closing one
                    let rest = printed[1..].to_string();
                    str_case(&mut ctx, rest, na, Some('"'), format!("roundtrip{} stop-at-quote", if nonfinite { "-nonfinite" } else { "" }), Some(path));
                }
            }
        }
    }
    ctx.finish();
}
