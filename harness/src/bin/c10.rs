//! C10 — curve operations are consistent with evaluation.
//!
//! Families (each at f32 and f64): `seg`, `quad`, `cubic`, `arc`.
//! IMPL prints every modelled operation (inherent methods and the `Segment` trait glue), including
//! the lengths (`LineSegment::length`, `QuadraticBezierSegment::length`,
//! `CubicBezierSegment::approximate_length`, `Arc::approximate_length`, `Segment::approximate_length`);
//! ORCL evaluates the identities of the property on lyon's own results against an
//! independent de Casteljau reference in f64, with a forward-error envelope.
//!
//! `QuadraticBezierSegment::length` (clauses `quad.length/*`, see `quad_length_oracle`): finite,
//! between chord and control polygon, zero for a point, equal to a sampled reference and additive
//! over `split(t)` — with witness classes computed from the input (`len_class`) for the degenerate
//! and ill-conditioned shapes that /repo fix 7d678f98 repaired, and a generator stream (`len_kind`,
//! 1/4 of the `quad` cases) that produces them: point curves, ctrl == to / from, collinear control
//! points at large coordinates, curves smaller than lyon's EPSILON, curves far from the origin,
//! nearly closed curves.

use lyon_geom::euclid::{Angle, Transform2D};
use lyon_geom::{vector, Arc, CubicBezierSegment, LineSegment, Point, QuadraticBezierSegment, Segment, Vector};
use vh::fl::{dist, maxabs, Gen};
use vh::{CaseOut, Ctx, Fl, Oracle, Out, Rng};

type Xf<S> = Transform2D<S, lyon_geom::euclid::UnknownUnit, lyon_geom::euclid::UnknownUnit>;

struct Params<S> {
    t: S,
    u: S,
    a: S,
    b: S,
    xf: Xf<S>,
}

fn gen_params<S: Fl>(g: Gen, rng: &mut Rng, args: &mut Out) -> Params<S> {
    let t: S = g.param(rng);
    let u: S = g.param(rng);
    let mut a: S = g.param(rng);
    let mut b: S = g.param(rng);
    if rng.chance(3, 4) && a > b {
        std::mem::swap(&mut a, &mut b);
    }
    let m: Vec<S> = (0..6)
        .map(|_| {
            if g == Gen::Lattice || g == Gen::Degenerate {
                S::of(rng.range(-8, 8) as f64 / 4.0)
            } else {
                S::of(rng.uniform(-3.0, 3.0))
            }
        })
        .collect();
    let xf = Xf::new(m[0], m[1], m[2], m[3], m[4], m[5]);
    args.f(t).f(u).f(a).f(b);
    for x in &m {
        args.f(*x);
    }
    Params { t, u, a, b, xf }
}

/// tolerance handed to `approximate_length` (relative to the input's magnitude so that the number
/// of pieces stays small); appended to the CASE args for the model
fn len_tol<S: Fl>(m: f64, args: &mut Out) -> S {
    let tolr = S::of((m * 1e-3).max(1e-3));
    args.f(tolr);
    tolr
}

fn lerp64(a: (f64, f64), b: (f64, f64), t: f64) -> (f64, f64) {
    (a.0 + (b.0 - a.0) * t, a.1 + (b.1 - a.1) * t)
}

/// independent reference: de Casteljau in f64
fn casteljau<S: Fl>(ctrl: &[Point<S>], t: f64) -> (f64, f64) {
    let mut v: Vec<(f64, f64)> = ctrl.iter().map(|p| (p.x.f(), p.y.f())).collect();
    while v.len() > 1 {
        v = v.windows(2).map(|w| lerp64(w[0], w[1], t)).collect();
    }
    v[0]
}

fn d64<S: Fl>(p: Point<S>, q: (f64, f64)) -> f64 {
    ((p.x.f() - q.0).powi(2) + (p.y.f() - q.1).powi(2)).sqrt()
}

fn growth(ps: &[f64], deg: i32) -> f64 {
    ps.iter().fold(1.0, |g, p| g * (1.0 + p.abs()).powi(deg))
}

trait Ctrl<S: Fl>: Segment<Scalar = S> {
    fn ctrl(&self) -> Vec<Point<S>>;
    const DEG: i32;
    const NAME: &'static str;
}
impl<S: Fl> Ctrl<S> for LineSegment<S> {
    fn ctrl(&self) -> Vec<Point<S>> {
        vec![self.from, self.to]
    }
    const DEG: i32 = 1;
    const NAME: &'static str = "seg";
}
impl<S: Fl> Ctrl<S> for QuadraticBezierSegment<S> {
    fn ctrl(&self) -> Vec<Point<S>> {
        vec![self.from, self.ctrl, self.to]
    }
    const DEG: i32 = 2;
    const NAME: &'static str = "quad";
}
impl<S: Fl> Ctrl<S> for CubicBezierSegment<S> {
    fn ctrl(&self) -> Vec<Point<S>> {
        vec![self.from, self.ctrl1, self.ctrl2, self.to]
    }
    const DEG: i32 = 3;
    const NAME: &'static str = "cubic";
}

fn put_ctrl<S: Fl, T: Ctrl<S>>(o: &mut Out, s: &T) {
    for p in s.ctrl() {
        o.p(p);
    }
}

/// The identities of C10 for a Bézier segment of any degree, through the `Segment` trait
/// (which forwards to the inherent methods).
fn bezier_oracle<S: Fl, T: Ctrl<S>>(s: &T, p: &Params<S>, o: &mut Oracle) {
    let name = T::NAME;
    let ctrl = s.ctrl();
    let m = maxabs(&ctrl).max(1e-30);
    let (t, u, a, b) = (p.t.f(), p.u.f(), p.a.f(), p.b.f());
    let k = 256.0 * S::EPS;
    let cl = |c: &str| format!("{}.{}", name, c);

    // sample against the reference
    let tol = k * m * growth(&[t], T::DEG);
    let e = d64(s.sample(p.t), casteljau(&ctrl, t));
    o.check(e <= tol, &cl("sample/reference"), "generic", || format!("err={:e} tol={:e}", e, tol));
    // x, y components
    let sp = s.sample(p.t);
    let e = (s.x(p.t).f() - sp.x.f()).abs().max((s.y(p.t).f() - sp.y.f()).abs());
    o.check(e <= tol, &cl("xy/components"), "generic", || format!("err={:e} tol={:e}", e, tol));
    // split
    let (l, r) = s.split(p.t);
    let tol2 = k * m * growth(&[t, u], 2 * T::DEG);
    let e = d64(l.sample(p.u), casteljau(&ctrl, t * u));
    o.check(e <= tol2, &cl("split/left"), "generic", || format!("err={:e} tol={:e}", e, tol2));
    let e = d64(r.sample(p.u), casteljau(&ctrl, t + (1.0 - t) * u));
    o.check(e <= tol2, &cl("split/right"), "generic", || format!("err={:e} tol={:e}", e, tol2));
    // before / after = split
    let bs = s.before_split(p.t);
    let af = s.after_split(p.t);
    let e = l.ctrl().iter().zip(bs.ctrl()).map(|(x, y)| dist(*x, y)).fold(0.0, f64::max);
    o.check(e <= tol2, &cl("before_split/eq_split"), "generic", || format!("err={:e}", e));
    let e = r.ctrl().iter().zip(af.ctrl()).map(|(x, y)| dist(*x, y)).fold(0.0, f64::max);
    o.check(e <= tol2, &cl("after_split/eq_split"), "generic", || format!("err={:e}", e));
    // split_range
    let sr = s.split_range(p.a..p.b);
    let tol3 = k * m * growth(&[a, b, u], 2 * T::DEG);
    let e = d64(sr.sample(p.u), casteljau(&ctrl, a + (b - a) * u));
    o.check(e <= tol3, &cl("split_range/sample"), "generic", || format!("err={:e} tol={:e}", e, tol3));
    // flip
    let e = d64(s.flip().sample(p.u), casteljau(&ctrl, 1.0 - u));
    let tolf = k * m * growth(&[u], 2 * T::DEG);
    o.check(e <= tolf, &cl("flip/sample"), "generic", || format!("err={:e} tol={:e}", e, tolf));
    // derivative = slope of the reference curve (central difference in f64)
    let h = 1e-4;
    let p1 = casteljau(&ctrl, t + h);
    let p0 = casteljau(&ctrl, t - h);
    let slope = ((p1.0 - p0.0) / (2.0 * h), (p1.1 - p0.1) / (2.0 * h));
    let d = s.derivative(p.t);
    let e = ((d.x.f() - slope.0).powi(2) + (d.y.f() - slope.1).powi(2)).sqrt();
    let told = (k * 8.0 + 1e-6) * m * growth(&[t], T::DEG);
    o.check(e <= told, &cl("derivative/slope"), "generic", || format!("err={:e} tol={:e}", e, told));
    let e = (s.dx(p.t).f() - d.x.f()).abs().max((s.dy(p.t).f() - d.y.f()).abs());
    o.check(e <= told, &cl("dxdy/components"), "generic", || format!("err={:e}", e));
    // from / to
    let e = dist(Segment::from(s), ctrl[0]).max(dist(Segment::to(s), ctrl[ctrl.len() - 1]));
    o.check(e == 0.0, &cl("from_to/endpoints"), "generic", || format!("err={:e}", e));
}

fn put_trait<S: Fl, T: Ctrl<S>>(o: &mut Out, s: &T, p: &Params<S>) {
    o.t("tr_sample").p(Segment::sample(s, p.t));
    o.t("tr_xy").f(Segment::x(s, p.t)).f(Segment::y(s, p.t));
    o.t("tr_d").v(Segment::derivative(s, p.t)).f(Segment::dx(s, p.t)).f(Segment::dy(s, p.t));
    let (l, r) = Segment::split(s, p.t);
    o.t("tr_split");
    put_ctrl(o, &l);
    put_ctrl(o, &r);
    o.t("tr_before");
    put_ctrl(o, &Segment::before_split(s, p.t));
    o.t("tr_after");
    put_ctrl(o, &Segment::after_split(s, p.t));
    o.t("tr_range");
    put_ctrl(o, &Segment::split_range(s, p.a..p.b));
    o.t("tr_flip");
    put_ctrl(o, &Segment::flip(s));
}

fn seg_case<S: Fl>(ctx: &mut Ctx) {
    ctx.case(&format!("seg:{}", S::BITS), |rng| {
        let g = Gen::pick(rng);
        let pts: Vec<Point<S>> = g.points(rng, 2);
        let s = LineSegment { from: pts[0], to: pts[1] };
        let mut args = Out::new();
        put_ctrl(&mut args, &s);
        let p = gen_params::<S>(g, rng, &mut args);
        let tolr: S = len_tol(maxabs(&s.ctrl()).max(1e-30), &mut args);
        let tag = format!("seg {} {}", S::BITS, g.name());
        (args, tag, move || {
            let mut o = Out::new();
            o.t("sample").p(s.sample(p.t));
            o.t("xy").f(s.x(p.t)).f(s.y(p.t));
            o.t("flip");
            put_ctrl(&mut o, &s.flip());
            o.t("range");
            put_ctrl(&mut o, &s.split_range(p.a..p.b));
            let (l, r) = s.split(p.t);
            o.t("split");
            put_ctrl(&mut o, &l);
            put_ctrl(&mut o, &r);
            o.t("before");
            put_ctrl(&mut o, &s.before_split(p.t));
            o.t("after");
            put_ctrl(&mut o, &s.after_split(p.t));
            o.t("xf");
            put_ctrl(&mut o, &s.transformed(&p.xf));
            o.t("len").f(s.length()).f(s.square_length());
            o.t("vec").v(s.to_vector());
            o.t("solve").f(s.solve_t_for_x(p.u)).f(s.solve_t_for_y(p.u));
            put_trait(&mut o, &s, &p);
            o.t("tr_len").f(Segment::approximate_length(&s, tolr));

            let mut orc = Oracle::new();
            bezier_oracle(&s, &p, &mut orc);
            // affine map commutes with sampling
            let m = maxabs(&s.ctrl()).max(1e-30);
            let k = 256.0 * S::EPS;
            let e = dist(s.transformed(&p.xf).sample(p.u), p.xf.transform_point(s.sample(p.u)));
            let tol = k * (m + 1.0) * 16.0 * growth(&[p.u.f()], 2);
            orc.check(e <= tol, "seg.transformed/sample", "generic", || format!("err={:e} tol={:e}", e, tol));
            // inverse queries agree with evaluation (Props/C10c.lean): x(solve_t_for_x(x)) = x on a
            // non-vertical segment, parameter 0 on a vertical one; same for y
            {
                let xx = s.x(p.u);
                let tx = s.solve_t_for_x(xx);
                if s.to.x == s.from.x {
                    orc.check(tx.f() == 0.0, "seg.solve_t_for_x/vertical", "generic", || format!("t={:e}", tx.f()));
                } else if xx.f().is_finite() && tx.f().is_finite() && s.x(tx).f().is_finite() {
                    let e = (s.x(tx).f() - xx.f()).abs();
                    let tol = k * (m + xx.f().abs()) * (2.0 + tx.f().abs()) * 4.0;
                    orc.check(e <= tol, "seg.solve_t_for_x/inverse", "generic", || format!("err={:e} tol={:e} t={:e}", e, tol, tx.f()));
                }
                let yy = s.y(p.u);
                let ty = s.solve_t_for_y(yy);
                if s.to.y == s.from.y {
                    orc.check(ty.f() == 0.0, "seg.solve_t_for_y/horizontal", "generic", || format!("t={:e}", ty.f()));
                } else if yy.f().is_finite() && ty.f().is_finite() && s.y(ty).f().is_finite() {
                    let e = (s.y(ty).f() - yy.f()).abs();
                    let tol = k * (m + yy.f().abs()) * (2.0 + ty.f().abs()) * 4.0;
                    orc.check(e <= tol, "seg.solve_t_for_y/inverse", "generic", || format!("err={:e} tol={:e} t={:e}", e, tol, ty.f()));
                }
            }
            // lengths add up (t in [0,1])
            let t = p.t.f();
            if (0.0..=1.0).contains(&t) {
                let (l, r) = s.split(p.t);
                let e = (l.length().f() + r.length().f() - s.length().f()).abs();
                orc.check(e <= k * m * 8.0, "seg.length/additive", "generic", || format!("err={:e}", e));
                let e = (s.length().f() - (s.to.x.f() - s.from.x.f()).hypot(s.to.y.f() - s.from.y.f())).abs();
                orc.check(e <= k * m * 8.0, "seg.length/reference", "generic", || format!("err={:e}", e));
            }
            CaseOut { imp: o, orcl: orc.verdict }
        })
    });
}


/// lyon's `S::EPSILON` (not the machine epsilon)
fn lyon_epsilon<S: Fl>() -> f64 {
    if S::BITS == 32 {
        1e-4
    } else {
        1e-8
    }
}

/// Degenerate / ill-conditioned shapes for `QuadraticBezierSegment::length`; rewrites `pts`.
fn len_kind<S: Fl>(rng: &mut Rng, pts: &mut Vec<Point<S>>) -> &'static str {
    let f32ish = S::BITS == 32;
    let pt = |x: f64, y: f64| -> Point<S> { lyon_geom::point(S::of(x), S::of(y)) };
    // a position: near the origin, moderate, or far away
    let far = |rng: &mut Rng| -> (f64, f64) {
        let e = if f32ish { rng.uniform(2.0, 5.0) } else { rng.uniform(4.0, 9.0) };
        let m = 10f64.powf(e);
        (m * rng.uniform(-1.0, 1.0), m * rng.uniform(-1.0, 1.0))
    };
    match rng.below(8) {
        0 => {
            // a point, anywhere
            let (x, y) = match rng.below(3) {
                0 => (0.0, 0.0),
                1 => (rng.uniform(-100.0, 100.0), rng.uniform(-100.0, 100.0)),
                _ => far(rng),
            };
            let q = pt(x, y);
            for p in pts.iter_mut() {
                *p = q;
            }
            "point trivial"
        }
        1 => {
            // ctrl == to, or ctrl within a hair of to (a + b + c cancels)
            if rng.chance(1, 2) {
                pts[1] = pts[2];
            } else {
                let h = 10f64.powf(rng.uniform(-7.0, -3.0));
                pts[1] = pt(
                    pts[2].x.f() + (pts[0].x.f() - pts[2].x.f()) * h + rng.uniform(-1.0, 1.0) * h,
                    pts[2].y.f() + (pts[0].y.f() - pts[2].y.f()) * h + rng.uniform(-1.0, 1.0) * h,
                );
            }
            "ctrl-to"
        }
        2 => {
            // ctrl == from (c == 0), or within a hair of it
            if rng.chance(1, 2) {
                pts[1] = pts[0];
            } else {
                let h = 10f64.powf(rng.uniform(-7.0, -3.0));
                pts[1] = pt(pts[0].x.f() + rng.uniform(-1.0, 1.0) * h, pts[0].y.f() + rng.uniform(-1.0, 1.0) * h);
            }
            "ctrl-from"
        }
        3 => {
            // collinear control points at large coordinates (collinear up to the rounding of the coordinates)
            let (x, y) = far(rng);
            let a = rng.uniform(0.0, std::f64::consts::TAU);
            let l = 10f64.powf(rng.uniform(0.0, 2.0));
            let (dx, dy) = (a.cos() * l, a.sin() * l);
            let s0 = rng.uniform(-4.0, 4.0);
            let s1 = rng.uniform(-4.0, 4.0);
            let s2 = rng.uniform(-4.0, 4.0);
            pts[0] = pt(x + dx * s0, y + dy * s0);
            pts[1] = pt(x + dx * s1, y + dy * s1);
            pts[2] = pt(x + dx * s2, y + dy * s2);
            "collinear-large"
        }
        4 => {
            // a generic shape smaller than lyon's EPSILON
            let e = if f32ish { rng.uniform(-9.0, -4.5) } else { rng.uniform(-14.0, -8.5) };
            let k = 10f64.powf(e);
            for p in pts.iter_mut() {
                *p = pt(rng.uniform(-1.0, 1.0) * k, rng.uniform(-1.0, 1.0) * k);
            }
            "tiny"
        }
        5 | 6 => {
            // a small curve far from the origin: nearly straight (quadrature branch) or generic
            let (x, y) = far(rng);
            let l = 10f64.powf(rng.uniform(0.0, 2.0));
            let (ax, ay) = (rng.uniform(-1.0, 1.0) * l, rng.uniform(-1.0, 1.0) * l);
            let (bx, by) = (rng.uniform(-1.0, 1.0) * l, rng.uniform(-1.0, 1.0) * l);
            let (cx, cy) = if rng.chance(2, 3) {
                let w = rng.uniform(0.45, 0.55);
                let h = rng.uniform(-2e-3, 2e-3);
                (ax + (bx - ax) * w - (by - ay) * h, ay + (by - ay) * w + (bx - ax) * h)
            } else {
                (rng.uniform(-1.0, 1.0) * l, rng.uniform(-1.0, 1.0) * l)
            };
            pts[0] = pt(x + ax, y + ay);
            pts[1] = pt(x + cx, y + cy);
            pts[2] = pt(x + bx, y + by);
            "far"
        }
        _ => {
            // nearly closed: to within a hair of from (a cusp-like turn)
            let h = if rng.chance(1, 3) { 0.0 } else { 10f64.powf(rng.uniform(-7.0, -2.0)) };
            pts[2] = pt(pts[0].x.f() + rng.uniform(-1.0, 1.0) * h, pts[0].y.f() + rng.uniform(-1.0, 1.0) * h);
            "closed"
        }
    }
}

/// Witness class of a quadratic for the `quad.length/*` clauses, computed from the control points
/// only (first match wins): `point-curve` (from = ctrl = to), `underflow` (closed-form branch and
/// `4 c a` below MIN_POSITIVE / machine epsilon: open finding C10-quad-length-underflow),
/// `ctrl-near-to` (`a + b + c` cancels), `tiny-curve` (smaller than lyon's EPSILON),
/// `collinear-far` / `far-from-origin` (extent small against the coordinates), `collinear`, `generic`.
fn len_class<S: Fl>(s: &QuadraticBezierSegment<S>) -> &'static str {
    let (f, c, t) = (s.from, s.ctrl, s.to);
    let d1 = dist(c, f);
    let d3 = dist(t, c);
    let ch = dist(t, f);
    let ext = d1.max(d3).max(ch);
    let m = maxabs(&[f, c, t]);
    let cross = ((c.x.f() - f.x.f()) * (t.y.f() - c.y.f()) - (c.y.f() - f.y.f()) * (t.x.f() - c.x.f())).abs();
    // the closed form's `4 c a - b b` (fourth powers of the size of the curve) leaves the normal range
    let d2 = ((f.x.f() - 2.0 * c.x.f() + t.x.f()).powi(2) + (f.y.f() - 2.0 * c.y.f() + t.y.f()).powi(2)).sqrt();
    let min_pos = if S::BITS == 32 { f32::MIN_POSITIVE as f64 } else { f64::MIN_POSITIVE };
    if ext == 0.0 {
        "point-curve"
    } else if d2 * d2 > 0.99e-4 * d1 * d1 && 4.0 * d1 * d1 * d2 * d2 < min_pos / S::EPS {
        "underflow"
    } else if d3 <= 1e-2 * d1 {
        "ctrl-near-to"
    } else if ext < lyon_epsilon::<S>() {
        "tiny-curve"
    } else if cross <= 1e-4 * d1 * d3 && ext <= 1e-1 * m {
        "collinear-far"
    } else if ext <= 1e-2 * m {
        "far-from-origin"
    } else if cross <= 1e-3 * d1 * d3 {
        "collinear"
    } else {
        "generic"
    }
}

/// reference arclength: 4096-step polyline of the curve in f64, evaluated on the control points
/// relative to `from` (so that the reference itself does not lose digits far from the origin)
fn quad_ref_len<S: Fl>(s: &QuadraticBezierSegment<S>) -> f64 {
    let o = (s.from.x.f(), s.from.y.f());
    let c = (s.ctrl.x.f() - o.0, s.ctrl.y.f() - o.1);
    let t = (s.to.x.f() - o.0, s.to.y.f() - o.1);
    let at = |u: f64| lerp64(lerp64((0.0, 0.0), c, u), lerp64(c, t, u), u);
    let n = 4096;
    let mut len = 0.0f64;
    let mut prev = at(0.0);
    for i in 1..=n {
        let q = at(i as f64 / n as f64);
        len += (q.0 - prev.0).hypot(q.1 - prev.1);
        prev = q;
    }
    len
}

/// `QuadraticBezierSegment::length` of one curve: finite; not shorter than the chord; not longer
/// than the control polygon; zero for a point; equal to the sampled reference.
/// Allowance ("within rounding"): `rel` x control-polygon length (`2e-3` in f32: the closed form
/// cancels up to (c/a)^(3/2) ~ 1e6 machine epsilons next to the quadrature threshold; `1e-4` in f64,
/// which also covers the 3-point quadrature) + 4096 machine epsilons x coordinate magnitude
/// (the differences `ctrl - from`, `from - 2 ctrl + to` are rounded at the magnitude of the coordinates).
fn quad_length_one<S: Fl>(s: &QuadraticBezierSegment<S>, what: &str, class: &'static str, orc: &mut Oracle) {
    let len = s.length().f();
    let m = maxabs(&s.ctrl());
    let chord = dist(s.to, s.from);
    let poly = dist(s.ctrl, s.from) + dist(s.to, s.ctrl);
    let rel = if S::BITS == 32 { 2e-3 } else { 1e-4 };
    let tol = rel * poly + 4096.0 * S::EPS * m;
    let show = || format!("{} from=({:e},{:e}) ctrl=({:e},{:e}) to=({:e},{:e})", what, s.from.x.f(), s.from.y.f(), s.ctrl.x.f(), s.ctrl.y.f(), s.to.x.f(), s.to.y.f());
    if !(m.is_finite() && m < 1e15) {
        return;
    }
    orc.check(len.is_finite(), "quad.length/finite", class, || format!("length()={} {}", len, show()));
    if class == "point-curve" {
        orc.check(len == 0.0, "quad.length/point", class, || format!("length()={} {}", len, show()));
    }
    orc.check(len >= chord - tol, "quad.length/chord-bound", class, || {
        format!("length()={} chord={} tol={:e} {}", len, chord, tol, show())
    });
    orc.check(len <= poly + tol, "quad.length/polygon-bound", class, || {
        format!("length()={} polygon={} tol={:e} {}", len, poly, tol, show())
    });
    let reflen = quad_ref_len(s);
    orc.check((len - reflen).abs() <= tol, "quad.length/reference", class, || {
        format!("length()={} sampled={} err={:e} tol={:e} {}", len, reflen, (len - reflen).abs(), tol, show())
    });
}

/// The `quad.length/*` clauses for a curve and the two pieces of `split(t)`.
fn quad_length_oracle<S: Fl>(
    s: &QuadraticBezierSegment<S>,
    l: &QuadraticBezierSegment<S>,
    r: &QuadraticBezierSegment<S>,
    t: f64,
    orc: &mut Oracle,
) {
    let class = len_class(s);
    quad_length_one(s, "whole", class, orc);
    if !(0.0..=1.0).contains(&t) {
        return;
    }
    // the pieces are curves in their own right (at t = 0 / t = 1 one of them is a point)
    let ends = t == 0.0 || t == 1.0;
    let piece_class = |q: &QuadraticBezierSegment<S>| {
        let c = len_class(q);
        if ends && c == "point-curve" {
            "split-end-point"
        } else {
            c
        }
    };
    quad_length_one(l, "left", piece_class(l), orc);
    quad_length_one(r, "right", piece_class(r), orc);
    // lengths of the pieces add up to the length of the whole; allowance: that of the reference clause,
    // for the whole and for the parts
    let whole = s.length().f();
    let parts = l.length().f() + r.length().f();
    let m = maxabs(&s.ctrl());
    let poly = dist(s.ctrl, s.from) + dist(s.to, s.ctrl);
    let rel = if S::BITS == 32 { 4e-3 } else { 2e-4 };
    let tol = rel * poly + 3.0 * 4096.0 * S::EPS * m;
    let e = (whole - parts).abs();
    let add_class = if [class, len_class(l), len_class(r)].contains(&"underflow") {
        "underflow"
    } else if ends {
        "split-end"
    } else {
        class
    };
    orc.check(e <= tol, "quad.length/additive", add_class, || {
        format!("whole={} parts={} err={:e} tol={:e} t={}", whole, parts, e, tol, t)
    });
}

fn quad_case<S: Fl>(ctx: &mut Ctx) {
    ctx.case(&format!("quad:{}", S::BITS), |rng| {
        let g = Gen::pick(rng);
        let mut pts: Vec<Point<S>> = g.points(rng, 3);
        let kind = if rng.chance(1, 4) { Some(len_kind::<S>(rng, &mut pts)) } else { None };
        let s = QuadraticBezierSegment { from: pts[0], ctrl: pts[1], to: pts[2] };
        let mut args = Out::new();
        put_ctrl(&mut args, &s);
        let p = gen_params::<S>(g, rng, &mut args);
        let tolr: S = len_tol(maxabs(&s.ctrl()).max(1e-30), &mut args);
        let tag = match kind {
            Some(k) => format!("quad {} {} len-{}", S::BITS, g.name(), k),
            None => format!("quad {} {}", S::BITS, g.name()),
        };
        (args, tag, move || {
            let mut o = Out::new();
            o.t("sample").p(s.sample(p.t));
            o.t("xy").f(s.x(p.t)).f(s.y(p.t));
            o.t("d").v(s.derivative(p.t)).f(s.dx(p.t)).f(s.dy(p.t));
            o.t("flip");
            put_ctrl(&mut o, &s.flip());
            o.t("range");
            put_ctrl(&mut o, &s.split_range(p.a..p.b));
            let (l, r) = s.split(p.t);
            o.t("split");
            put_ctrl(&mut o, &l);
            put_ctrl(&mut o, &r);
            o.t("before");
            put_ctrl(&mut o, &s.before_split(p.t));
            o.t("after");
            put_ctrl(&mut o, &s.after_split(p.t));
            o.t("xf");
            put_ctrl(&mut o, &s.transformed(&p.xf));
            o.t("cubic");
            put_ctrl(&mut o, &s.to_cubic());
            o.t("base");
            put_ctrl(&mut o, &s.baseline());
            put_trait(&mut o, &s, &p);
            // lengths: the whole, the two pieces of `split(t)`, the trait glue
            o.t("len").f(s.length()).f(l.length()).f(r.length());
            o.t("tr_len").f(Segment::approximate_length(&s, tolr));

            let mut orc = Oracle::new();
            bezier_oracle(&s, &p, &mut orc);
            let ctrl = s.ctrl();
            let m = maxabs(&ctrl).max(1e-30);
            let k = 256.0 * S::EPS;
            let u = p.u.f();
            let e = dist(s.transformed(&p.xf).sample(p.u), p.xf.transform_point(s.sample(p.u)));
            let tol = k * (m + 1.0) * 16.0 * growth(&[u], 4);
            orc.check(e <= tol, "quad.transformed/sample", "generic", || format!("err={:e} tol={:e}", e, tol));
            // degree elevation
            let e = d64(s.to_cubic().sample(p.u), casteljau(&ctrl, u));
            let tol = k * m * growth(&[u], 6);
            orc.check(e <= tol, "quad.to_cubic/sample", "generic", || format!("err={:e} tol={:e}", e, tol));
            let back = s.to_cubic().to_quadratic();
            let e = back.ctrl().iter().zip(&ctrl).map(|(x, y)| dist(*x, *y)).fold(0.0, f64::max);
            orc.check(e <= k * m * 4.0, "quad.to_cubic/to_quadratic", "generic", || format!("err={:e}", e));
            // length(): finite, chord <= length <= control polygon, point -> 0, sampled reference,
            // additive over split(t) — for every generator stream
            quad_length_oracle(&s, &l, &r, p.t.f(), &mut orc);
            CaseOut { imp: o, orcl: orc.verdict }
        })
    });
}

fn cubic_case<S: Fl>(ctx: &mut Ctx) {
    ctx.case(&format!("cubic:{}", S::BITS), |rng| {
        let g = Gen::pick(rng);
        let pts: Vec<Point<S>> = g.points(rng, 4);
        let s = CubicBezierSegment { from: pts[0], ctrl1: pts[1], ctrl2: pts[2], to: pts[3] };
        let mut args = Out::new();
        put_ctrl(&mut args, &s);
        let p = gen_params::<S>(g, rng, &mut args);
        let tolr: S = len_tol(maxabs(&s.ctrl()).max(1e-30), &mut args);
        let tag = format!("cubic {} {}", S::BITS, g.name());
        (args, tag, move || {
            let mut o = Out::new();
            o.t("sample").p(s.sample(p.t));
            o.t("xy").f(s.x(p.t)).f(s.y(p.t));
            o.t("d").v(s.derivative(p.t)).f(s.dx(p.t)).f(s.dy(p.t));
            o.t("flip");
            put_ctrl(&mut o, &s.flip());
            o.t("range");
            put_ctrl(&mut o, &s.split_range(p.a..p.b));
            let (l, r) = s.split(p.t);
            o.t("split");
            put_ctrl(&mut o, &l);
            put_ctrl(&mut o, &r);
            o.t("before");
            put_ctrl(&mut o, &s.before_split(p.t));
            o.t("after");
            put_ctrl(&mut o, &s.after_split(p.t));
            o.t("xf");
            put_ctrl(&mut o, &s.transformed(&p.xf));
            o.t("quad");
            put_ctrl(&mut o, &s.to_quadratic());
            o.t("base");
            put_ctrl(&mut o, &s.baseline());
            put_trait(&mut o, &s, &p);
            // approximate lengths: number of quadratics, the whole, the two pieces of `split(t)`, the trait glue
            o.t("alen").u(s.num_quadratics(tolr) as u64).f(s.approximate_length(tolr)).f(l.approximate_length(tolr)).f(r.approximate_length(tolr));
            o.t("tr_len").f(Segment::approximate_length(&s, tolr));

            let mut orc = Oracle::new();
            bezier_oracle(&s, &p, &mut orc);
            let ctrl = s.ctrl();
            let m = maxabs(&ctrl).max(1e-30);
            let k = 256.0 * S::EPS;
            let u = p.u.f();
            let e = dist(s.transformed(&p.xf).sample(p.u), p.xf.transform_point(s.sample(p.u)));
            let tol = k * (m + 1.0) * 16.0 * growth(&[u], 6);
            orc.check(e <= tol, "cubic.transformed/sample", "generic", || format!("err={:e} tol={:e}", e, tol));
            // approximate_length agrees with the length of the sampled curve within the tolerance
            if g != Gen::Wide {
                let n = 2048;
                let mut reflen = 0.0f64;
                let mut prev = casteljau(&ctrl, 0.0);
                for i in 1..=n {
                    let q = casteljau(&ctrl, i as f64 / n as f64);
                    reflen += ((q.0 - prev.0).powi(2) + (q.1 - prev.1).powi(2)).sqrt();
                    prev = q;
                }
                let tolr = S::of((m * 1e-3).max(1e-3));
                let len = s.approximate_length(tolr).f();
                let tol = 0.02 * reflen + 8.0 * tolr.f();
                orc.check(
                    (len - reflen).abs() <= tol || !len.is_finite(),
                    "cubic.length/reference",
                    "generic",
                    || format!("approximate_length()={} sampled={} err={:e} tol={:e}", len, reflen, (len - reflen).abs(), tol),
                );
            }
            // lengths of the pieces add up, within the approximation tolerance
            let t = p.t.f();
            if (0.0..=1.0).contains(&t) && g != Gen::Wide {
                let tolr = S::of((m * 1e-3).max(1e-3));
                let whole = s.approximate_length(tolr).f();
                let parts = l.approximate_length(tolr).f() + r.approximate_length(tolr).f();
                let e = (whole - parts).abs();
                let tol = 8.0 * tolr.f() + if S::BITS == 32 { 2e-2 } else { 1e-6 } * (m + whole.abs());
                orc.check(
                    e <= tol || !whole.is_finite() || !parts.is_finite(),
                    "cubic.length/additive",
                    "generic",
                    || format!("whole={} parts={} err={:e} tol={:e}", whole, parts, e, tol),
                );
            }
            CaseOut { imp: o, orcl: orc.verdict }
        })
    });
}

fn put_arc<S: Fl>(o: &mut Out, a: &Arc<S>) {
    o.p(a.center).v(a.radii).f(a.start_angle.radians).f(a.sweep_angle.radians).f(a.x_rotation.radians);
}

fn ellipse64<S: Fl>(a: &Arc<S>, t: f64) -> (f64, f64) {
    let ang = a.start_angle.radians.f() + a.sweep_angle.radians.f() * t;
    let (ex, ey) = (a.radii.x.f() * ang.cos(), a.radii.y.f() * ang.sin());
    let (s, c) = a.x_rotation.radians.f().sin_cos();
    (a.center.x.f() + ex * c - ey * s, a.center.y.f() + ey * c + ex * s)
}

fn arc_case<S: Fl>(ctx: &mut Ctx) {
    ctx.case(&format!("arc:{}", S::BITS), |rng| {
        let g = Gen::pick(rng);
        let center: Point<S> = g.point(rng);
        let radii: Vector<S> = vector(S::of(g.coord(rng).abs() + 0.25), S::of(g.coord(rng).abs() + 0.25));
        let lat = g == Gen::Lattice || g == Gen::Degenerate;
        let ang = |rng: &mut Rng| -> S {
            if lat {
                S::of(rng.range(-16, 16) as f64 / 4.0)
            } else {
                S::of(rng.uniform(-7.0, 7.0))
            }
        };
        let a = Arc {
            center,
            radii,
            start_angle: Angle::radians(ang(rng)),
            sweep_angle: Angle::radians(if g == Gen::Degenerate && rng.chance(1, 2) { S::of(0.0) } else { ang(rng) }),
            x_rotation: Angle::radians(if rng.chance(1, 3) { S::of(0.0) } else { ang(rng) }),
        };
        let mut args = Out::new();
        put_arc(&mut args, &a);
        let p = gen_params::<S>(g, rng, &mut args);
        let tolr: S = len_tol(a.radii.x.f().max(a.radii.y.f()), &mut args);
        let tag = format!("arc {} {}", S::BITS, g.name());
        (args, tag, move || {
            let mut o = Out::new();
            o.t("angle").f(a.get_angle(p.t).radians);
            o.t("sample").p(a.sample(p.t));
            o.t("xy").f(a.x(p.t)).f(a.y(p.t));
            o.t("fromto").p(a.from()).p(a.to());
            o.t("flip");
            put_arc(&mut o, &a.flip());
            o.t("range");
            put_arc(&mut o, &a.split_range(p.a..p.b));
            let (l, r) = a.split(p.t);
            o.t("split");
            put_arc(&mut o, &l);
            put_arc(&mut o, &r);
            o.t("before");
            put_arc(&mut o, &a.before_split(p.t));
            o.t("after");
            put_arc(&mut o, &a.after_split(p.t));
            o.t("tr");
            o.p(Segment::sample(&a, p.t));
            put_arc(&mut o, &Segment::split(&a, p.t).0);
            put_arc(&mut o, &Segment::split(&a, p.t).1);
            put_arc(&mut o, &Segment::before_split(&a, p.t));
            put_arc(&mut o, &Segment::after_split(&a, p.t));
            put_arc(&mut o, &Segment::split_range(&a, p.a..p.b));
            put_arc(&mut o, &Segment::flip(&a));
            // approximate length (sum over the flattening), inherent and through the trait
            o.t("alen").f(a.approximate_length(tolr));
            o.t("tr_len").f(Segment::approximate_length(&a, tolr));

            let mut orc = Oracle::new();
            let (t, u, ra, rb) = (p.t.f(), p.u.f(), p.a.f(), p.b.f());
            let m = (a.center.x.f().abs()).max(a.center.y.f().abs()).max(a.radii.x.f()).max(a.radii.y.f());
            // angles up to ~7*(1+|t|)(1+|u|): rounding of the angle is amplified by the radius
            let angmag = 8.0 * (1.0 + t.abs()) * (1.0 + u.abs()) * (1.0 + ra.abs() + rb.abs());
            let tol = 64.0 * S::EPS * m * (1.0 + angmag);
            let e = d64(a.sample(p.t), ellipse64(&a, t));
            orc.check(e <= tol, "arc.sample/reference", "generic", || format!("err={:e} tol={:e}", e, tol));
            let e = d64(l.sample(p.u), ellipse64(&a, t * u));
            orc.check(e <= tol, "arc.split/left", "generic", || format!("err={:e} tol={:e}", e, tol));
            let e = d64(r.sample(p.u), ellipse64(&a, t + (1.0 - t) * u));
            orc.check(e <= tol, "arc.split/right", "generic", || format!("err={:e} tol={:e}", e, tol));
            let e = d64(a.split_range(p.a..p.b).sample(p.u), ellipse64(&a, ra + (rb - ra) * u));
            orc.check(e <= tol, "arc.split_range/sample", "generic", || format!("err={:e} tol={:e}", e, tol));
            let e = d64(a.flip().sample(p.u), ellipse64(&a, 1.0 - u));
            orc.check(e <= tol, "arc.flip/sample", "generic", || format!("err={:e} tol={:e}", e, tol));
            let e = d64(a.before_split(p.t).sample(p.u), ellipse64(&a, t * u))
                .max(d64(a.after_split(p.t).sample(p.u), ellipse64(&a, t + (1.0 - t) * u)));
            orc.check(e <= tol, "arc.before_after/eq_split", "generic", || format!("err={:e} tol={:e}", e, tol));
            let e = d64(a.from(), ellipse64(&a, 0.0)).max(d64(a.to(), ellipse64(&a, 1.0)));
            orc.check(e <= tol, "arc.from_to/endpoints", "generic", || format!("err={:e} tol={:e}", e, tol));
            CaseOut { imp: o, orcl: orc.verdict }
        })
    });
}

fn main() {
    let mut ctx = Ctx::from_args("C10");
    let n = ctx.n(1500, 60000);
    for _ in 0..n {
        seg_case::<f32>(&mut ctx);
        seg_case::<f64>(&mut ctx);
        quad_case::<f32>(&mut ctx);
        quad_case::<f64>(&mut ctx);
        cubic_case::<f32>(&mut ctx);
        cubic_case::<f64>(&mut ctx);
        arc_case::<f32>(&mut ctx);
        arc_case::<f64>(&mut ctx);
    }
    ctx.finish();
}
