//! C05 — stroke output is a well-formed mesh with self-consistent per-vertex data.
//!
//! Component families (compared with the Lean model `Model/Tess/StrokeParts.lean`, reached through
//! the cfg hook H3 `lyon_tessellation::verif_stroke`):
//!   `cn:32`    math_utils::compute_normal + miter_limit_is_exceeded
//!   `cfs:32`   stroke.rs circle_flattening_step
//!   `vtx:32`   every StrokeVertex accessor on a given StrokeVertexData (read twice)
//!   `pbuf`     PointBuffer under push / replace_last / clear sequences
//!   `win:32`   the sliding window after each begin/line_to of the REAL step functions
//!              (merge threshold, merged points, may_need_empty_cap)
//!   `edge`     add_edge_triangles on given ids / fold flags
//!   `join:32`  add_join_base_vertices + tessellate_join (incl. round joins)
//!   `arc:32`   tessellate_arc
//!   `cap:32`   tessellate_round_cap;  `ecap:32` tessellate_empty_{square,round}_cap
//!   `poly:32`  the PUBLIC stroker on polylines with bevel joins and butt caps (fixed width): the sequence
//!              of (source endpoint, side) of its vertices and its triangle list, predicted by the model's
//!              skeleton of fixed_width_step_impl / compute_join_side_positions_fixed_width / end / close
//!   `full:32`  the PUBLIC `StrokeTessellator::tessellate` on polylines, all joins / caps / miter limits: every
//!              vertex (all accessors) and every triangle, compared with the complete model
//!              `Model/Tess/StrokeFull.lean` (`tessellateFw`)
//!   `fulle:32` all five entry points, fixed / variable width, curves, custom attributes (incl. curves a few
//!              float steps across far from the origin): the same, with the interpolated attributes as the
//!              vertex constructor reads them (`tessellateIds` + the attribute cache of `StrokeAttrs.lean`)
//!   Oracle clauses of `full` / `fulle`: distinct-ids, valid-ids, ids-valid-when-emitted (the recorder `EmitRec`
//!   checks every `add_triangle` against the vertices emitted SO FAR: the run-time counterpart of
//!   `Lyon.C05c.VSteps`), attributes-match-source (class `degenerate-subpath-after-curve`: finding
//!   C05-empty-cap-stale-attributes).
//!   `prog:32`  PROGRAMS on one `StrokeBuilder` object (`builder` / `builder_with_attributes`, and the one-shot
//!              `tessellate_rectangle` / `_circle` / `_ellipse` / `_polygon`): several sub-paths interleaved with
//!              the shape helpers (add_rectangle incl. thin / borderline / degenerate rectangles, add_circle,
//!              add_ellipse, add_rounded_rectangle, add_polygon, add_line_segment, add_point) and the option
//!              setters, fixed and variable width: the complete output compared with
//!              `Model/Tess/StrokeBuilderProg.lean` (`tessellateProg`), and the per-vertex oracle of `stroke`
//!              applied sub-path by sub-path with the options in force for that sub-path
//!   `progf`    (oracle only) the same programs and plain paths at every entry point with a geometry builder that
//!              refuses the k-th vertex (once, twice, from then on; every k): id clauses on whatever is emitted
//! End-to-end family (oracle only, no model): `stroke` — the public `StrokeTessellator` entry
//! points with a recording `BuffersBuilder`, all joins × caps × widths × miter limits ×
//! tolerances × fixed/variable width on polylines, curves, degenerate sub-paths.

use lyon_path::math::{point, vector, Point, Vector};
use lyon_path::traits::PathBuilder;
use lyon_path::{EndpointId, Event, LineCap, LineJoin, Path, Side};
use lyon_tessellation::verif_stroke as hk;
use lyon_tessellation::geometry_builder::{GeometryBuilder, GeometryBuilderError, StrokeGeometryBuilder};
use lyon_tessellation::VertexId;
use lyon_tessellation::{
    BuffersBuilder, StrokeOptions, StrokeTessellator, StrokeVertex, StrokeVertexConstructor, VertexBuffers, VertexSource,
};
use vh::{CaseOut, Ctx, Oracle, Out, Rng};

// ---------------------------------------------------------------------------------------------
// printing

fn put_src(o: &mut Out, s: &VertexSource) {
    match s {
        VertexSource::Endpoint { id } => {
            o.t("E").u(id.0 as u64);
        }
        VertexSource::Edge { from, to, t } => {
            o.t("G").u(from.0 as u64).u(to.0 as u64).f(*t);
        }
    }
}

fn put_side(o: &mut Out, s: Side) {
    o.t(if s == Side::Positive { "P" } else { "N" });
}

fn put_vtx(o: &mut Out, v: &hk::Vtx) {
    o.p(v.position).v(v.normal).p(v.position_on_path).f(v.line_width).f(v.advancement);
    put_side(o, v.side);
    put_src(o, &v.source);
}

fn put_rec(o: &mut Out, r: &hk::Rec) {
    o.t("V").u(r.vertices.len() as u64);
    for v in &r.vertices {
        put_vtx(o, v);
    }
    o.t("T").u(r.triangles.len() as u64);
    for t in &r.triangles {
        o.u(t.0 as u64).u(t.1 as u64).u(t.2 as u64);
    }
    o.t("N").u(r.next_id as u64);
}

fn fin(p: Point) -> bool {
    p.x.is_finite() && p.y.is_finite()
}
fn finv(p: Vector) -> bool {
    p.x.is_finite() && p.y.is_finite()
}

fn ulp_close(a: f32, b: f32, ulps: f32) -> bool {
    if a == b {
        return true;
    }
    let m = a.abs().max(b.abs()).max(f32::MIN_POSITIVE);
    (a - b).abs() <= ulps * f32::EPSILON * m
}

/// `position == position_on_path + normal * (line_width * 0.5)` as f32 arithmetic (1 ulp)
fn position_def_ok(position: Point, pop: Point, normal: Vector, line_width: f32) -> bool {
    let hw = line_width * 0.5;
    let e = pop + normal * hw;
    ulp_close(position.x, e.x, 1.0) && ulp_close(position.y, e.y, 1.0)
}

fn tris_distinct(t: &(u32, u32, u32)) -> bool {
    t.0 != t.1 && t.1 != t.2 && t.0 != t.2
}

fn unit_dir(rng: &mut Rng) -> Vector {
    match rng.below(6) {
        0 => *rng.pick(&[vector(1.0, 0.0), vector(0.0, 1.0), vector(-1.0, 0.0), vector(0.0, -1.0)]),
        1 => {
            let v = *rng.pick(&[vector(0.6, 0.8), vector(-0.8, 0.6), vector(0.28, -0.96), vector(-0.6, -0.8)]);
            v
        }
        _ => {
            let a = rng.uniform(-3.2, 3.2) as f32;
            vector(a.cos(), a.sin())
        }
    }
}

fn gen_vdata(rng: &mut Rng, args: &mut Out) -> hk::VData {
    let d = hk::VData {
        position_on_path: point(rng.uniform(-50.0, 50.0) as f32, rng.uniform(-50.0, 50.0) as f32),
        half_width: rng.uniform(0.01, 20.0) as f32,
        normal: vector(rng.uniform(-2.0, 2.0) as f32, rng.uniform(-2.0, 2.0) as f32),
        advancement: rng.uniform(0.0, 100.0) as f32,
        side: if rng.chance(1, 2) { Side::Positive } else { Side::Negative },
        src: if rng.chance(1, 2) {
            VertexSource::Endpoint { id: EndpointId(rng.below(2) as u32) }
        } else {
            VertexSource::Edge { from: EndpointId(rng.below(2) as u32), to: EndpointId(rng.below(2) as u32), t: rng.unit() as f32 }
        },
    };
    args.p(d.position_on_path).f(d.half_width).v(d.normal).f(d.advancement);
    put_side(args, d.side);
    put_src(args, &d.src);
    d
}

// ---------------------------------------------------------------------------------------------
// component families

fn cn_case(ctx: &mut Ctx) {
    ctx.case("cn:32", |rng| {
        let kind = rng.below(8);
        let v1 = unit_dir(rng);
        let (v2, name) = match kind {
            0 => (v1, "same"),
            1 => (-v1, "opposite"),
            2 => {
                // nearly opposite: around the `|v1+v2|² < 1e-4` guard
                let a = v1.y.atan2(v1.x) + std::f32::consts::PI + rng.uniform(-0.03, 0.03) as f32;
                (vector(a.cos(), a.sin()), "near-opposite")
            }
            3 => (vector(rng.uniform(-3.0, 3.0) as f32, rng.uniform(-3.0, 3.0) as f32), "non-unit"),
            4 => (vector(0.0, 0.0), "zero trivial"),
            _ => (unit_dir(rng), "unit"),
        };
        let limit = *rng.pick(&[1.0f32, 1.5, 2.0, 4.0, 10.0, 0.7]) * if rng.chance(1, 4) { rng.uniform(0.5, 2.0) as f32 } else { 1.0 };
        let mut args = Out::new();
        args.v(v1).v(v2).f(limit);
        let tag = format!("cn {}", name);
        let unit = kind != 3 && kind != 4;
        (args, tag, move || {
            let n = hk::compute_normal(v1, v2);
            let ex = hk::miter_limit_is_exceeded(n, limit);
            let mut o = Out::new();
            o.t("n").v(n).t("ex").b(ex);
            let mut orc = Oracle::new();
            orc.check(finv(n), "compute_normal/finite", "generic", || format!("{:?}", n));
            if unit {
                let (x1, y1, x2, y2) = (v1.x as f64, v1.y as f64, v2.x as f64, v2.y as f64);
                let s = (x1 + x2).powi(2) + (y1 + y2).powi(2);
                let c = x1 * x2 + y1 * y2;
                if s > 1.05e-4 {
                    // n·n1 = 1 and |n|² = 2/(1 + v1·v2)
                    let d = n.x as f64 * (-y1) + n.y as f64 * x1;
                    orc.check((d - 1.0).abs() < 2e-3, "compute_normal/offset-one", "generic", || format!("n.n1 = {}", d));
                    let l2 = (n.x as f64).powi(2) + (n.y as f64).powi(2);
                    orc.check((l2 * (1.0 + c) - 2.0).abs() < 2e-2, "compute_normal/length", "generic", || format!("|n|²(1+c) = {}", l2 * (1.0 + c)));
                    // miter_limit_iff: exceeded ⇔ |n| > 2·limit (away from the boundary)
                    let l = l2.sqrt();
                    if (l - 2.0 * limit as f64).abs() > 1e-3 * l {
                        orc.check(ex == (l > 2.0 * limit as f64), "miter_limit/iff", "generic", || format!("|n|={} limit={} ex={}", l, limit, ex));
                    }
                } else if s < 0.95e-4 {
                    orc.check(n.x == 0.0 && n.y == 0.0, "compute_normal/opposite-zero", "generic", || format!("{:?}", n));
                }
            }
            CaseOut { imp: o, orcl: orc.verdict }
        })
    });
}

fn cfs_case(ctx: &mut Ctx) {
    ctx.case("cfs:32", |rng| {
        let r = 10f64.powf(rng.uniform(-2.0, 3.0)) as f32;
        let (tol, name) = match rng.below(5) {
            0 => (r * rng.uniform(1.0, 4.0) as f32, "tol>=r"),
            1 => (r, "tol=r"),
            _ => (r * 10f64.powf(rng.uniform(-4.0, 0.0)) as f32, "tol<r"),
        };
        let mut args = Out::new();
        args.f(r).f(tol);
        (args, format!("cfs {}", name), move || {
            let s = hk::circle_flattening_step(r, tol);
            let mut o = Out::new();
            o.f(s);
            let mut orc = Oracle::new();
            orc.check(s.is_finite() && s >= 0.0, "circle_step/finite", "generic", || format!("{}", s));
            let sag = r as f64 * (1.0 - (s as f64 * 0.5).cos());
            let t = tol.min(r) as f64;
            orc.check((sag - t).abs() <= 2.5e-7 * r as f64 + 1e-3 * t, "circle_step/sagitta", "generic", || format!("sagitta {} tol {}", sag, t));
            CaseOut { imp: o, orcl: orc.verdict }
        })
    });
}

fn vtx_case(ctx: &mut Ctx) {
    ctx.case("vtx:32", |rng| {
        let mut args = Out::new();
        let d = gen_vdata(rng, &mut args);
        let n = rng.below(4) as usize;
        let a: Vec<f32> = (0..n).map(|_| rng.uniform(-10.0, 10.0) as f32).collect();
        let b: Vec<f32> = (0..n).map(|_| rng.uniform(-10.0, 10.0) as f32).collect();
        args.u(n as u64);
        for x in a.iter().chain(b.iter()) {
            args.f(*x);
        }
        let tag = format!("vtx {} attrs={}", if matches!(d.src, VertexSource::Endpoint { .. }) { "endpoint" } else { "edge" }, n);
        (args, tag, move || {
            let (v1, v2) = hk::vertex(&d, &a, &b);
            let mut o = Out::new();
            let mut orc = Oracle::new();
            for v in [&v1, &v2] {
                put_vtx(&mut o, v);
                o.t("A").u(v.attributes.len() as u64);
                for x in &v.attributes {
                    o.f(*x);
                }
                orc.check(position_def_ok(v.position, v.position_on_path, v.normal, v.line_width), "vertex/position-def", "generic", || {
                    format!("{:?} vs {:?} + {:?} * {}/2", v.position, v.position_on_path, v.normal, v.line_width)
                });
                orc.check(v.attributes.len() == n, "vertex/attributes-len", "generic", || format!("{}", v.attributes.len()));
            }
            CaseOut { imp: o, orcl: orc.verdict }
        })
    });
}

fn pbuf_case(ctx: &mut Ctx, fixed: Option<Vec<u8>>) {
    ctx.case("pbuf", |rng| {
        let ops: Vec<(u8, f32)> = match &fixed {
            Some(f) => f.iter().enumerate().map(|(i, o)| (*o, (i + 1) as f32)).collect(),
            None => {
                let n = rng.range(1, 24) as usize;
                let p_clear = rng.below(4);
                (0..n)
                    .map(|i| {
                        let r = rng.below(12);
                        let op = if r < p_clear { 2 } else if r < 5 { 1 } else { 0 };
                        (op as u8, (i + 1) as f32)
                    })
                    .collect()
            }
        };
        let mut args = Out::new();
        args.u(ops.len() as u64);
        for (op, tag) in &ops {
            args.u(*op as u64).u(*tag as u64);
        }
        let tag = format!("pbuf {} n={}", if fixed.is_some() { "exhaustive" } else { "random" }, ops.len());
        (args, tag, move || {
            let mut o = Out::new();
            let mut orc = Oracle::new();
            // independent specification: the list of points since the last clear
            let mut spec: Vec<f32> = Vec::new();
            let mut spec_rows: Option<Vec<Vec<f32>>> = Some(Vec::new());
            for (op, tag) in &ops {
                match op {
                    0 => spec.push(*tag),
                    1 => {
                        if spec.is_empty() {
                            spec_rows = None;
                            break;
                        }
                        *spec.last_mut().unwrap() = *tag;
                    }
                    _ => spec.clear(),
                }
                let w: Vec<f32> = spec[spec.len().saturating_sub(3)..].to_vec();
                let n = w.len();
                let mut row = vec![n as f32];
                row.extend(w.iter());
                if n > 0 {
                    row.push(w[n - 1]);
                    row.push(w[n - 1]);
                }
                for i in 0..n {
                    row.push(w[n - 1 - i]);
                    row.push(w[i]);
                }
                if n >= 2 {
                    row.push(w[n - 2]);
                    row.push(w[n - 1]);
                }
                spec_rows.as_mut().unwrap().push(row);
            }
            match vh::guarded(|| hk::point_buffer(&ops)) {
                None => {
                    o.t("panic");
                    orc.check(spec_rows.is_none(), "point_buffer/no-panic", "generic", || "panic on a valid operation sequence".to_string());
                }
                Some(rows) => {
                    for r in &rows {
                        o.t("R");
                        for x in r {
                            o.u(*x as u64);
                        }
                    }
                    orc.check(spec_rows.as_ref() == Some(&rows), "point_buffer/last-three", "generic", || format!("{:?} vs {:?}", rows, spec_rows));
                }
            }
            CaseOut { imp: o, orcl: orc.verdict }
        })
    });
}

fn gen_join_kind(rng: &mut Rng) -> LineJoin {
    *rng.pick(&[LineJoin::Miter, LineJoin::MiterClip, LineJoin::Round, LineJoin::Bevel])
}
fn gen_cap(rng: &mut Rng) -> LineCap {
    *rng.pick(&[LineCap::Butt, LineCap::Square, LineCap::Round])
}
fn join_name(j: LineJoin) -> &'static str {
    match j {
        LineJoin::Miter => "miter",
        LineJoin::MiterClip => "miterclip",
        LineJoin::Round => "round",
        LineJoin::Bevel => "bevel",
    }
}
fn cap_name(c: LineCap) -> &'static str {
    match c {
        LineCap::Butt => "butt",
        LineCap::Square => "square",
        LineCap::Round => "round",
    }
}

fn win_case(ctx: &mut Ctx) {
    ctx.case("win:32", |rng| {
        let tol = 10f64.powf(rng.uniform(-3.0, 0.5)) as f32;
        let width = 10f64.powf(rng.uniform(-2.0, 1.5)) as f32;
        let variable = rng.chance(1, 2);
        let mut options = StrokeOptions::tolerance(tol)
            .with_line_width(width)
            .with_line_join(gen_join_kind(rng))
            .with_start_cap(gen_cap(rng))
            .with_end_cap(gen_cap(rng));
        if variable {
            options = options.with_variable_line_width(0);
        }
        let thr = (tol * tol * 0.5).min(width * width * 0.05).max(1e-8f32);
        let step = thr.sqrt();
        let n = rng.range(1, 9) as usize;
        let lattice = rng.chance(1, 3);
        let mut pts: Vec<(Point, f32)> = Vec::new();
        let mut cur = point(rng.uniform(-10.0, 10.0) as f32, rng.uniform(-10.0, 10.0) as f32);
        if lattice {
            cur = point(cur.x.round(), cur.y.round());
        }
        for _ in 0..n {
            let w = if variable { width * rng.uniform(0.2, 3.0) as f32 } else { width };
            pts.push((cur, w));
            cur = match rng.below(6) {
                0 => cur,                                                                                       // repeated point
                1 => cur + vector(step * rng.uniform(-0.9, 0.9) as f32, step * rng.uniform(-0.4, 0.4) as f32), // around the threshold
                2 => cur + vector(step * rng.uniform(-1.5, 1.5) as f32, 0.0),
                _ => {
                    if lattice {
                        cur + vector(rng.range(-4, 4) as f32, rng.range(-4, 4) as f32)
                    } else {
                        cur + vector(rng.uniform(-8.0, 8.0) as f32, rng.uniform(-8.0, 8.0) as f32)
                    }
                }
            };
        }
        let mut args = Out::new();
        args.f(tol).f(width).u(variable as u64).u(pts.len() as u64);
        for (p, w) in &pts {
            args.p(*p).f(*w);
        }
        let tag = format!("win {} {} n={}", if variable { "variable" } else { "fixed" }, join_name(options.line_join), n);
        (args, tag, move || {
            let (t, rows) = hk::window(&pts, &options);
            let mut o = Out::new();
            o.t("thr").f(t);
            let mut orc = Oracle::new();
            // independent simulation: keep a point iff it is not within the threshold of the last kept one
            let mut kept: Vec<Point> = Vec::new();
            for (i, (flag, w)) in rows.iter().enumerate() {
                o.t("S").b(*flag).u(w.len() as u64);
                for p in w {
                    o.p(*p);
                }
                let p = pts[i].0;
                let close = kept.last().map(|l| ((l.x as f64 - p.x as f64).powi(2) + (l.y as f64 - p.y as f64).powi(2), *l));
                let near_tie = close.map(|(d, _)| (d - t as f64).abs() <= 1e-5 * t as f64).unwrap_or(false);
                if near_tie {
                    orc.skip("threshold-tie");
                    break;
                }
                if !close.map(|(d, _)| d < t as f64).unwrap_or(false) {
                    kept.push(p);
                }
                let exp = &kept[kept.len().saturating_sub(3)..];
                orc.check(exp == &w[..], "window/last-three-kept", "generic", || format!("step {}: {:?} vs {:?}", i, w, exp));
                for k in 1..w.len() {
                    let d = (w[k] - w[k - 1]).square_length();
                    orc.check(d >= t && d > 0.0, "window/kept-apart", "generic", || format!("step {}: {:?} {:?} d²={} thr={}", i, w[k - 1], w[k], d, t));
                }
            }
            CaseOut { imp: o, orcl: orc.verdict }
        })
    });
}

fn zero_join(ids: [u32; 4], fold: [bool; 2]) -> hk::Join {
    hk::Join {
        position: point(0.0, 0.0),
        half_width: 1.0,
        line_join: LineJoin::Bevel,
        ids,
        points: [point(0.0, 0.0); 4],
        single: [None, None],
        fold,
    }
}

fn edge_case(ctx: &mut Ctx) {
    ctx.case("edge", |rng| {
        let span = *rng.pick(&[3u64, 5, 9, 40]);
        let mut gen = |rng: &mut Rng| -> ([u32; 4], [bool; 2]) {
            let mut ids = [0u32; 4];
            for i in ids.iter_mut() {
                *i = rng.below(span) as u32;
            }
            // structured: a side with a single vertex has prev == next
            if rng.chance(1, 3) {
                ids[1] = ids[0];
            }
            if rng.chance(1, 3) {
                ids[3] = ids[2];
            }
            (ids, [rng.chance(1, 4), rng.chance(1, 4)])
        };
        let (i0, f0) = gen(rng);
        let (i1, f1) = gen(rng);
        let mut args = Out::new();
        for (ids, f) in [(&i0, &f0), (&i1, &f1)] {
            for i in ids.iter() {
                args.u(*i as u64);
            }
            args.b(f[0]).b(f[1]);
        }
        let tag = format!("edge span={} folds={}", span, f0.iter().chain(f1.iter()).filter(|b| **b).count());
        (args, tag, move || {
            let tris = hk::edge_triangles(&zero_join(i0, f0), &zero_join(i1, f1));
            let mut o = Out::new();
            o.u(tris.len() as u64);
            let mut orc = Oracle::new();
            for t in &tris {
                o.u(t.0 as u64).u(t.1 as u64).u(t.2 as u64);
                orc.check(tris_distinct(t), "edge_triangles/distinct-ids", "generic", || format!("{:?}", t));
            }
            orc.check(tris.len() <= 2, "edge_triangles/count", "generic", || format!("{}", tris.len()));
            CaseOut { imp: o, orcl: orc.verdict }
        })
    });
}

fn check_rec(orc: &mut Oracle, r: &hk::Rec, site: &str, fresh_from: u32, unit_normals_from: usize) {
    for t in &r.triangles {
        orc.check(tris_distinct(t), &format!("{}/distinct-ids", site), "generic", || format!("{:?}", t));
        orc.check(t.0 < r.next_id && t.1 < r.next_id && t.2 < r.next_id, &format!("{}/valid-ids", site), "generic", || format!("{:?} next {}", t, r.next_id));
    }
    orc.check(r.next_id == fresh_from + r.vertices.len() as u32, &format!("{}/fresh-ids", site), "generic", || format!("{} {}", r.next_id, r.vertices.len()));
    for (k, v) in r.vertices.iter().enumerate() {
        orc.check(fin(v.position) && finv(v.normal), &format!("{}/finite", site), "generic", || format!("{:?}", v));
        orc.check(position_def_ok(v.position, v.position_on_path, v.normal, v.line_width), &format!("{}/position-def", site), "generic", || format!("{:?}", v));
        if k >= unit_normals_from {
            let l = (v.normal.x as f64).hypot(v.normal.y as f64);
            orc.check((l - 1.0).abs() < 1e-5, &format!("{}/unit-normal", site), "generic", || format!("{:?}", v.normal));
        }
    }
}

fn arc_case(ctx: &mut Ctx) {
    ctx.case("arc:32", |rng| {
        let a0 = rng.uniform(-7.0, 7.0) as f32;
        let a1 = a0 + rng.uniform(-6.3, 6.3) as f32;
        let n = rng.below(7) as u32;
        let next_id = rng.range(2, 50) as u32;
        let va = rng.below(next_id as u64) as u32;
        let vb = if rng.chance(1, 10) { va } else { rng.below(next_id as u64) as u32 };
        let mut args = Out::new();
        args.f(a0).f(a1).u(va as u64).u(vb as u64).u(n as u64).u(next_id as u64);
        let d = gen_vdata(rng, &mut args);
        let tag = format!("arc depth={} {}", n, if va == vb { "va=vb" } else { "va!=vb" });
        (args, tag, move || {
            let r = hk::arc((a0, a1), va, vb, n, &d, next_id);
            let mut o = Out::new();
            put_rec(&mut o, &r);
            let mut orc = Oracle::new();
            let k = (1usize << n) - 1;
            orc.check(r.vertices.len() == k && r.triangles.len() == k, "arc/fan-count", "generic", || format!("{} vertices {} triangles depth {}", r.vertices.len(), r.triangles.len(), n));
            if va != vb {
                check_rec(&mut orc, &r, "arc", next_id, 0);
            }
            CaseOut { imp: o, orcl: orc.verdict }
        })
    });
}

fn small_options(rng: &mut Rng, radius: f32) -> StrokeOptions {
    // keep the subdivision depth small: tolerance / radius >= 1e-3
    let tol = radius * 10f64.powf(rng.uniform(-3.0, 0.3)) as f32;
    StrokeOptions::tolerance(tol).with_line_width(radius * 2.0)
}

fn cap_case(ctx: &mut Ctx) {
    ctx.case("cap:32", |rng| {
        let center = point(rng.uniform(-50.0, 50.0) as f32, rng.uniform(-50.0, 50.0) as f32);
        let radius = 10f64.powf(rng.uniform(-1.5, 1.5)) as f32;
        let options = small_options(rng, radius);
        let e = unit_dir(rng);
        // the caps are called with start_normal = ±perp(edge) * radius (possibly clipped) and edge_normal = the edge vector
        let edge_normal = e * rng.uniform(0.1, 30.0) as f32;
        let s = if rng.chance(1, 2) { 1.0 } else { -1.0 };
        let mut start_normal = vector(-e.y, e.x) * (radius * s);
        if rng.chance(1, 4) {
            start_normal = start_normal + e * (radius * rng.uniform(-0.3, 0.3) as f32);
        }
        let is_start = rng.chance(1, 2);
        let next_id = rng.range(2, 50) as u32;
        let sv = rng.below(next_id as u64) as u32;
        let ev = (sv + 1 + rng.below(next_id as u64 - 1) as u32) % next_id;
        let mut args = Out::new();
        args.p(center).f(radius).v(start_normal).u(sv as u64).u(ev as u64).v(edge_normal).f(options.tolerance).b(is_start).u(next_id as u64);
        let d = gen_vdata(rng, &mut args);
        let tag = format!("cap {} {}", if is_start { "start" } else { "end" }, if radius < options.tolerance { "below-tolerance trivial" } else { "round" });
        (args, tag, move || {
            let r = hk::round_cap(center, radius, start_normal, sv, ev, edge_normal, &options, is_start, &d, next_id);
            let mut o = Out::new();
            put_rec(&mut o, &r);
            let mut orc = Oracle::new();
            check_rec(&mut orc, &r, "round_cap", next_id, 0);
            orc.check(r.vertices.len() == r.triangles.len(), "round_cap/fan-count", "generic", || format!("{} {}", r.vertices.len(), r.triangles.len()));
            for v in &r.vertices {
                orc.check(v.position_on_path == center && v.line_width == radius * 2.0, "round_cap/centre", "generic", || format!("{:?}", v));
            }
            CaseOut { imp: o, orcl: orc.verdict }
        })
    });
}

fn ecap_case(ctx: &mut Ctx) {
    ctx.case("ecap:32", |rng| {
        let position = point(rng.uniform(-50.0, 50.0) as f32, rng.uniform(-50.0, 50.0) as f32);
        let round = rng.chance(1, 2);
        let next_id = rng.below(50) as u32;
        let mut args = Out::new();
        args.p(position).b(round).u(next_id as u64);
        let d = gen_vdata(rng, &mut args);
        let options = small_options(rng, d.half_width);
        args.f(options.tolerance);
        let tag = format!("ecap {}", if round { "round" } else { "square" });
        (args, tag, move || {
            let r = hk::empty_cap(position, round, &options, &d, next_id);
            let mut o = Out::new();
            put_rec(&mut o, &r);
            let mut orc = Oracle::new();
            check_rec(&mut orc, &r, "empty_cap", next_id, if round { 0 } else { usize::MAX });
            if !round {
                orc.check(r.vertices.len() == 4 && r.triangles.len() == 2, "empty_cap/square-count", "generic", || format!("{} {}", r.vertices.len(), r.triangles.len()));
            }
            CaseOut { imp: o, orcl: orc.verdict }
        })
    });
}

fn join_case(ctx: &mut Ctx) {
    ctx.case("join:32", |rng| {
        let position = point(rng.uniform(-50.0, 50.0) as f32, rng.uniform(-50.0, 50.0) as f32);
        let hw = 10f64.powf(rng.uniform(-1.0, 1.3)) as f32;
        let options = small_options(rng, hw);
        let line_join = gen_join_kind(rng);
        let base = rng.chance(2, 3);
        let t0 = unit_dir(rng);
        let t1 = unit_dir(rng);
        let (n0, n1) = (vector(-t0.y, t0.x) * hw, vector(-t1.y, t1.x) * hw);
        let points = [position + n0, position + n1, position - n0, position - n1];
        let mut single = [None, None];
        for (k, s) in single.iter_mut().enumerate() {
            if rng.chance(1, 2) {
                let sgn = if k == 0 { 1.0 } else { -1.0 };
                *s = Some(position + (n0 + n1) * (0.5 * sgn * rng.uniform(0.8, 1.6) as f32));
            }
        }
        let fold = [rng.chance(1, 8), rng.chance(1, 8)];
        let next_id = rng.range(4, 60) as u32;
        let mut ids = [0u32; 4];
        let fresh = rng.chance(2, 3);
        if fresh {
            // what add_join_base_vertices would hand out
            let mut k = rng.below(next_id as u64 - 3) as u32;
            for side in [1usize, 0] {
                ids[2 * side] = k;
                if single[side].is_none() {
                    k += 1;
                }
                ids[2 * side + 1] = k;
                k += 1;
            }
        } else {
            for i in ids.iter_mut() {
                *i = rng.below(next_id as u64) as u32;
            }
        }
        let mut args = Out::new();
        args.p(position).f(hw).u(match line_join {
            LineJoin::Miter => 0,
            LineJoin::MiterClip => 1,
            LineJoin::Round => 2,
            LineJoin::Bevel => 3,
        });
        args.f(options.tolerance);
        for p in &points {
            args.p(*p);
        }
        for s in &single {
            match s {
                Some(p) => args.u(1).p(*p),
                None => args.u(0).p(point(0.0, 0.0)),
            };
        }
        args.b(fold[0]).b(fold[1]);
        for i in &ids {
            args.u(*i as u64);
        }
        args.b(base).u(next_id as u64);
        let d = gen_vdata(rng, &mut args);
        let j = hk::Join { position, half_width: hw, line_join, ids, points, single, fold };
        let tag = format!(
            "join {} {} single={}{} fold={}{}",
            join_name(line_join),
            if base { "base-vertices" } else if fresh { "fresh-ids" } else { "arbitrary-ids" },
            single[0].is_some() as u8,
            single[1].is_some() as u8,
            fold[0] as u8,
            fold[1] as u8
        );
        (args, tag, move || {
            let (r, out_ids) = hk::join(&j, &d, &options, next_id, base);
            let mut o = Out::new();
            put_rec(&mut o, &r);
            o.t("I");
            for i in &out_ids {
                o.u(*i as u64);
            }
            let mut orc = Oracle::new();
            if base || fresh {
                // ids as add_join_base_vertices creates them: every triangle is proper
                check_rec(&mut orc, &r, "join", next_id, usize::MAX);
            }
            CaseOut { imp: o, orcl: orc.verdict }
        })
    });
}

// ---------------------------------------------------------------------------------------------
// end-to-end oracle on the public stroker

#[derive(Clone, Debug)]
struct RecV {
    position: Point,
    normal: Vector,
    pop: Point,
    line_width: f32,
    advancement: f32,
    side: Side,
    source: VertexSource,
    attrs: Vec<f32>,
}

struct Ctor;
impl StrokeVertexConstructor<RecV> for Ctor {
    fn new_vertex(&mut self, mut v: StrokeVertex) -> RecV {
        RecV {
            position: v.position(),
            normal: v.normal(),
            pop: v.position_on_path(),
            line_width: v.line_width(),
            advancement: v.advancement(),
            side: v.side(),
            source: v.source(),
            attrs: v.interpolated_attributes().to_vec(),
        }
    }
}

#[derive(Clone, Debug)]
enum Seg {
    Line(Point),
    Quad(Point, Point),
    Cubic(Point, Point, Point),
}

impl Seg {
    fn to(&self) -> Point {
        match self {
            Seg::Line(p) | Seg::Quad(_, p) | Seg::Cubic(_, _, p) => *p,
        }
    }
}

#[derive(Clone, Debug)]
struct Sub {
    start: Point,
    segs: Vec<Seg>,
    close: bool,
    /// width factor per endpoint (start, then each segment's end point)
    w: Vec<f32>,
}

#[derive(Clone, Debug)]
struct StrokeInput {
    subs: Vec<Sub>,
    kind: String,
    polyline: bool,
    /// all consecutive points clearly further apart than the line width and the merge threshold
    simple: bool,
}

fn gen_stroke_input(rng: &mut Rng, width: f32, thr: f32) -> StrokeInput {
    let kind = rng.below(12);
    let scale = match rng.below(8) {
        0 => 10f64.powf(rng.uniform(-2.0, 0.0)),
        1 => 10f64.powf(rng.uniform(2.0, 4.0)),
        _ => rng.uniform(5.0, 60.0),
    } as f32;
    let lattice = rng.chance(1, 4);
    let mut rp = |rng: &mut Rng| -> Point {
        if lattice {
            point(rng.range(-6, 6) as f32 * scale * 0.125, rng.range(-6, 6) as f32 * scale * 0.125)
        } else {
            point(rng.uniform(-1.0, 1.0) as f32 * scale, rng.uniform(-1.0, 1.0) as f32 * scale)
        }
    };
    let mut subs = Vec::new();
    let mut name = String::new();
    let mut polyline = true;
    let n_sub = match kind {
        0 => 0,
        1..=6 => 1,
        _ => rng.range(1, 3) as usize,
    };
    for _ in 0..n_sub {
        let start = rp(rng);
        let mut segs = Vec::new();
        let sk = if kind <= 1 { rng.below(4) + 20 } else { rng.below(12) };
        match sk {
            20 => {
                name.push_str("single-point ");
            }
            21 => {
                name.push_str("zero-length ");
                segs.push(Seg::Line(start));
            }
            22 => {
                name.push_str("near-zero-length ");
                segs.push(Seg::Line(start + vector(thr.sqrt() * rng.uniform(-1.2, 1.2) as f32, 0.0)));
            }
            23 => {
                name.push_str("all-equal ");
                for _ in 0..rng.range(2, 4) {
                    segs.push(Seg::Line(start));
                }
            }
            0..=5 => {
                name.push_str("polyline ");
                let mut cur = start;
                for _ in 0..rng.range(1, 8) {
                    cur = match rng.below(14) {
                        0 => cur,
                        1 => cur + vector(thr.sqrt() * rng.uniform(-1.5, 1.5) as f32, thr.sqrt() * rng.uniform(-1.5, 1.5) as f32),
                        2 => cur + vector(width * rng.uniform(-0.5, 0.5) as f32, width * rng.uniform(-0.5, 0.5) as f32),
                        3 => {
                            // exact reversal / collinear continuation
                            let prev = segs.len().checked_sub(2).map(|k: usize| match &segs[k] {
                                Seg::Line(p) => *p,
                                _ => start,
                            });
                            match prev {
                                Some(p) if rng.chance(1, 2) => p,
                                Some(p) => cur + (cur - p),
                                None => rp(rng),
                            }
                        }
                        _ => rp(rng),
                    };
                    segs.push(Seg::Line(cur));
                }
            }
            6..=8 => {
                name.push_str("curves ");
                polyline = false;
                for _ in 0..rng.range(1, 4) {
                    match rng.below(5) {
                        0 => segs.push(Seg::Line(rp(rng))),
                        1 | 2 => segs.push(Seg::Quad(rp(rng), rp(rng))),
                        _ => segs.push(Seg::Cubic(rp(rng), rp(rng), rp(rng))),
                    }
                }
            }
            9 => {
                name.push_str("degenerate-curves ");
                polyline = false;
                let a = rp(rng);
                match rng.below(5) {
                    0 => segs.push(Seg::Quad(start, start)),
                    1 => segs.push(Seg::Quad(a, start)),
                    2 => segs.push(Seg::Cubic(start, start, start)),
                    3 => segs.push(Seg::Cubic(a, a, start)),
                    _ => segs.push(Seg::Cubic(a, start + (a - start) * 2.0, start + (a - start))), // collinear, cusp-like
                }
                if rng.chance(1, 2) {
                    segs.push(Seg::Line(rp(rng)));
                }
            }
            _ => {
                name.push_str("regular-polygon ");
                let n = rng.range(3, 9);
                let r = scale;
                let c = start;
                let mut first = start;
                for k in 0..n {
                    let a = k as f32 / n as f32 * std::f32::consts::TAU;
                    let p = c + vector(a.cos(), a.sin()) * r;
                    if k == 0 {
                        first = p;
                    } else {
                        segs.push(Seg::Line(p));
                    }
                }
                subs.push(Sub { start: first, segs, close: true, w: Vec::new() });
                continue;
            }
        }
        let close = rng.chance(1, 3);
        subs.push(Sub { start, segs, close, w: Vec::new() });
    }
    if n_sub == 0 {
        name.push_str("empty trivial ");
    }
    // simple: every edge (incl. the closing one) longer than 1.5 × width and no curve
    let mut simple = polyline && n_sub == 1;
    for s in subs.iter_mut() {
        let n = s.segs.len() + 1;
        s.w = (0..n).map(|_| if rng.chance(1, 6) { 1.0 } else { rng.uniform(0.3, 2.5) as f32 }).collect();
        let mut pts = vec![s.start];
        pts.extend(s.segs.iter().map(|g| g.to()));
        if s.close {
            pts.push(s.start);
        }
        if pts.len() < 2 {
            simple = false;
        }
        for k in 1..pts.len() {
            if (pts[k] - pts[k - 1]).length() < 1.5 * width.max(thr.sqrt()) {
                simple = false;
            }
        }
    }
    StrokeInput { subs, kind: name.trim().to_string(), polyline, simple }
}

/// the input as a fine polyline in f64 (per sub-path; chord error ≤ eps where 4000 pieces per
/// curve suffice), for distance and length measurements
fn flatten64(inp: &StrokeInput, eps: f64) -> Vec<Vec<(f64, f64)>> {
    let f = |p: Point| (p.x as f64, p.y as f64);
    let mut out = Vec::new();
    for s in &inp.subs {
        let mut v = vec![f(s.start)];
        let mut cur = f(s.start);
        for g in &s.segs {
            match g {
                Seg::Line(p) => v.push(f(*p)),
                Seg::Quad(c, p) => {
                    let (c, p) = (f(*c), f(*p));
                    let m = 2.0 * ((cur.0 - 2.0 * c.0 + p.0).hypot(cur.1 - 2.0 * c.1 + p.1));
                    let n = 2 * ((m / (8.0 * eps)).sqrt().ceil() as usize).clamp(8, 2000);
                    for k in 1..=n {
                        let t = k as f64 / n as f64;
                        let u = 1.0 - t;
                        v.push((u * u * cur.0 + 2.0 * u * t * c.0 + t * t * p.0, u * u * cur.1 + 2.0 * u * t * c.1 + t * t * p.1));
                    }
                }
                Seg::Cubic(c1, c2, p) => {
                    let (c1, c2, p) = (f(*c1), f(*c2), f(*p));
                    let m = 6.0 * ((cur.0 - 2.0 * c1.0 + c2.0).hypot(cur.1 - 2.0 * c1.1 + c2.1)).max((c1.0 - 2.0 * c2.0 + p.0).hypot(c1.1 - 2.0 * c2.1 + p.1));
                    let n = 2 * ((m / (8.0 * eps)).sqrt().ceil() as usize).clamp(12, 2000);
                    for k in 1..=n {
                        let t = k as f64 / n as f64;
                        let u = 1.0 - t;
                        let (b0, b1, b2, b3) = (u * u * u, 3.0 * u * u * t, 3.0 * u * t * t, t * t * t);
                        v.push((b0 * cur.0 + b1 * c1.0 + b2 * c2.0 + b3 * p.0, b0 * cur.1 + b1 * c1.1 + b2 * c2.1 + b3 * p.1));
                    }
                }
            }
            cur = f(g.to());
        }
        if s.close {
            v.push(f(s.start));
        }
        out.push(v);
    }
    out
}

fn dist_to_polys(p: (f64, f64), polys: &[Vec<(f64, f64)>]) -> f64 {
    let mut best = f64::INFINITY;
    for v in polys {
        if v.len() == 1 {
            best = best.min(((p.0 - v[0].0).powi(2) + (p.1 - v[0].1).powi(2)).sqrt());
        }
        for w in v.windows(2) {
            let (a, b) = (w[0], w[1]);
            let (dx, dy) = (b.0 - a.0, b.1 - a.1);
            let l2 = dx * dx + dy * dy;
            let t = if l2 > 0.0 { (((p.0 - a.0) * dx + (p.1 - a.1) * dy) / l2).clamp(0.0, 1.0) } else { 0.0 };
            let (qx, qy) = (a.0 + t * dx, a.1 + t * dy);
            best = best.min(((p.0 - qx).powi(2) + (p.1 - qy).powi(2)).sqrt());
        }
    }
    best
}

fn build_path(inp: &StrokeInput, n_attr: usize, extra: &[f32]) -> Path {
    let mut b = Path::builder_with_attributes(n_attr);
    for s in &inp.subs {
        let at = |k: usize| -> Vec<f32> {
            let mut a = vec![s.w[k]];
            a.extend_from_slice(extra);
            a.truncate(n_attr);
            a
        };
        b.begin(s.start, &at(0));
        for (k, g) in s.segs.iter().enumerate() {
            match g {
                Seg::Line(p) => b.line_to(*p, &at(k + 1)),
                Seg::Quad(c, p) => b.quadratic_bezier_to(*c, *p, &at(k + 1)),
                Seg::Cubic(c1, c2, p) => b.cubic_bezier_to(*c1, *c2, *p, &at(k + 1)),
            };
        }
        b.end(s.close);
    }
    b.build()
}

fn drive_builder<B: PathBuilder>(b: &mut B, inp: &StrokeInput, n_attr: usize, extra: &[f32]) {
    for s in &inp.subs {
        let at = |k: usize| -> Vec<f32> {
            let mut a = vec![s.w[k]];
            a.extend_from_slice(extra);
            a.truncate(n_attr);
            a
        };
        b.begin(s.start, &at(0));
        for (k, g) in s.segs.iter().enumerate() {
            match g {
                Seg::Line(p) => b.line_to(*p, &at(k + 1)),
                Seg::Quad(c, p) => b.quadratic_bezier_to(*c, *p, &at(k + 1)),
                Seg::Cubic(c1, c2, p) => b.cubic_bezier_to(*c1, *c2, *p, &at(k + 1)),
            };
        }
        b.end(s.close);
    }
}

const ENTRY: [&str; 5] = ["tessellate_path", "tessellate", "tessellate_with_ids", "builder", "builder_with_attributes"];

/// reach of a vertex from the path in units of its half width, by join and caps.
/// Measured on the unchanged code (see the manifest): round/bevel joins and butt/round caps stay
/// within 1; square caps reach √2; a miter join is kept while |normal| ≤ 2·miter_limit
/// (`miter_limit_is_exceeded` compares |normal|² with 4·limit²), a clipped miter reaches
/// √(limit² + 1).
fn reach_factor(o: &StrokeOptions, polyline: bool, simple: bool) -> f64 {
    let l = o.miter_limit as f64;
    let j = match o.line_join {
        LineJoin::Miter => 2.0 * l,
        LineJoin::MiterClip => (2.0 * l).max((l * l + 1.0).sqrt()),
        _ => 1.0,
    };
    let c = if o.start_cap == LineCap::Square || o.end_cap == LineCap::Square { std::f64::consts::SQRT_2 } else { 1.0 };
    // * joins inside a flattened curve take the fast path (`flattened_step`): an unclipped miter for turns < 90°;
    // * the inner (concave) vertex of a join is the unclipped miter point; for turns up to 90° it is never
    //   folded away, so with edges shorter than the line width it sticks out by up to √2 half widths.
    // On simple polylines (every edge ≥ 1.5 line widths) neither applies.
    let f = if polyline && simple { 1.0 } else { std::f64::consts::SQRT_2 };
    // variable width: the sides are slanted by the width change, measured ≤ 1.06 × the fixed-width reach
    let v = if o.variable_line_width.is_some() { 1.1 } else { 1.0 };
    j.max(c).max(f) * v
}

/// the smallest speed `|B'(t)|`, `t` in `[0, 1]`, of a Bezier curve given by its control points (sampled)
fn min_speed(ctrl: &[Point]) -> f32 {
    let n = ctrl.len() - 1;
    let d: Vec<(f64, f64)> = ctrl.windows(2).map(|w| ((w[1].x - w[0].x) as f64 * n as f64, (w[1].y - w[0].y) as f64 * n as f64)).collect();
    let mut best = f64::INFINITY;
    for k in 0..=512 {
        let t = k as f64 / 512.0;
        let mut c = d.clone();
        while c.len() > 1 {
            c = c.windows(2).map(|w| (w[0].0 + (w[1].0 - w[0].0) * t, w[0].1 + (w[1].1 - w[0].1) * t)).collect();
        }
        best = best.min(c[0].0.hypot(c[0].1));
    }
    best as f32
}

/// variable width only: some edge of the input is shorter than twice the larger line width at its ends
/// (for a curve: some leg of its control polygon, its chord, or its smallest speed `|B'(t)|` - the length scale of
/// its flattened pieces at a hairpin turn).  In that regime the end circles of an edge overlap or contain each
/// other and the side lines (tangents to both circles) are ill-defined.
fn short_edge_for_width(inp: &StrokeInput, base_width: f32) -> bool {
    for s in &inp.subs {
        let mut prev = s.start;
        let n = s.segs.len();
        for k in 0..=n {
            let (to, len, w1) = if k < n {
                let g = &s.segs[k];
                let len = match g {
                    Seg::Line(p) => (*p - prev).length(),
                    // a curve is flattened into pieces whose length follows the control polygon legs, and the
                    // curve's speed |B'(t)| (for a line: its length): where the curve nearly stops - the sharp
                    // turn of a hairpin - the flattened pieces are that short while the width goes on changing
                    // linearly in t
                    Seg::Quad(c, p) => (*c - prev).length().min((*p - *c).length()).min((*p - prev).length()).min(min_speed(&[prev, *c, *p])),
                    Seg::Cubic(c1, c2, p) => (*c1 - prev).length().min((*c2 - *c1).length()).min((*p - *c2).length()).min((*p - prev).length()).min(min_speed(&[prev, *c1, *c2, *p])),
                };
                (g.to(), len, s.w[k + 1])
            } else if s.close {
                (s.start, (s.start - prev).length(), s.w[0])
            } else {
                break;
            };
            let w = base_width * s.w[k.min(n)].max(w1);
            if len < 2.0 * w {
                return true;
            }
            prev = to;
        }
    }
    false
}

/// largest coordinate magnitude of the input (on-curve and control points)
fn max_coordinate(inp: &StrokeInput) -> f32 {
    let mut m = 0.0f32;
    let mut up = |p: Point| m = m.max(p.x.abs()).max(p.y.abs());
    for s in &inp.subs {
        up(s.start);
        for g in &s.segs {
            match g {
                Seg::Line(p) => up(*p),
                Seg::Quad(c, p) => {
                    up(*c);
                    up(*p)
                }
                Seg::Cubic(c1, c2, p) => {
                    up(*c1);
                    up(*c2);
                    up(*p)
                }
            }
        }
    }
    m
}

/// witness class of finding C05-miter-clip-unscaled-fallback (FIXED by /repo commit ede203df: the fall-back is now
/// the unclipped side point; the class stays active, a failure in it is a VIOLATION), computed from the input and the options:
/// fixed width, `LineJoin::MiterClip`, and a half width below the resolution of the arithmetic -
/// (a) below one float step of the largest coordinate (`half_width < f32::EPSILON x max |coordinate|`):
/// the side points `join +- perp(tangent) x half_width` can round onto the join position, and
/// `get_clip_intersections` is handed `side_point - join = 0` as a line direction; or
/// (b) `half_width x sqrt(4 x miter_limit^2 - 1) <= 1e-8`: the determinant of the two lines is below
/// lyon_geom's f64 `EPSILON`.  In both cases `Line::intersection` answers `None` and the code fell
/// back (before the fix) to the UNSCALED miter normal (`normal.to_point()`): a point `1 / cos(turn / 2) >= 2 x miter_limit`
/// UNITS (not half widths) away from the join
fn miter_clip_below_resolution(inp: &StrokeInput, o: &StrokeOptions) -> bool {
    let l = o.miter_limit as f64;
    let hw = o.line_width as f64 * 0.5;
    o.variable_line_width.is_none()
        && o.line_join == LineJoin::MiterClip
        && (hw < f32::EPSILON as f64 * max_coordinate(inp) as f64 || hw * (4.0 * l * l - 1.0).max(0.0).sqrt() <= 1.0e-8 * 1.01)
}

// line widths around and below the float resolution of the path's coordinates (paths of ordinary size,
// half widths of 0.03 .. 100 float steps of the largest coordinate): the end-to-end oracle of the `stroke`
// family on fixed-width strokes
fn tinyw_case(ctx: &mut Ctx) {
    ctx.case("tinyw", |rng| {
        let tol = match rng.below(3) {
            0 => 10f64.powf(rng.uniform(-3.0, -1.5)),
            _ => rng.uniform(0.02, 0.4),
        } as f32;
        let limit = *rng.pick(&[1.0f32, 1.2, 2.0, 4.0, 4.0, 10.0]);
        let join = if rng.chance(2, 3) { LineJoin::MiterClip } else { gen_join_kind(rng) };
        let (sc, ec) = (gen_cap(rng), gen_cap(rng));
        let entry = rng.below(5) as usize;
        let n_attr = if entry == 4 { rng.range(1, 3) as usize } else if entry == 0 || entry == 2 { rng.below(3) as usize } else { 0 };
        let inp = gen_stroke_input(rng, 1.0, 1e-8);
        let width = ((max_coordinate(&inp) as f64).max(1e-3) * f32::EPSILON as f64 * 10f64.powf(rng.uniform(-1.2, 2.3))) as f32;
        let options = StrokeOptions::tolerance(tol).with_line_width(width).with_line_join(join).with_start_cap(sc).with_end_cap(ec).with_miter_limit(limit);
        let extra = [rng.uniform(-5.0, 5.0) as f32, rng.uniform(-5.0, 5.0) as f32];
        let mut args = Out::new();
        args.t(ENTRY[entry]).t(join_name(join)).t(cap_name(sc)).t(cap_name(ec)).f(width).f(tol).f(limit).b(false).u(n_attr as u64);
        for s in &inp.subs {
            args.t("M").p(s.start).f(s.w[0]);
            for (k, g) in s.segs.iter().enumerate() {
                match g {
                    Seg::Line(p) => args.t("L").p(*p),
                    Seg::Quad(c, p) => args.t("Q").p(*c).p(*p),
                    Seg::Cubic(c1, c2, p) => args.t("C").p(*c1).p(*c2).p(*p),
                };
                args.f(s.w[k + 1]);
            }
            args.t(if s.close { "Z" } else { "E" });
        }
        let tag = format!(
            "tinyw {} {} {}/{} fixed {}{}",
            ENTRY[entry],
            join_name(join),
            cap_name(sc),
            cap_name(ec),
            inp.kind,
            if miter_clip_below_resolution(&inp, &options) { " below-resolution" } else { "" }
        );
        (args, tag, move || run_stroke(&inp, &options, entry, n_attr, &extra))
    });
}

fn stroke_case(ctx: &mut Ctx) {
    ctx.case("stroke", |rng| {
        let width = match rng.below(8) {
            0 => 10f64.powf(rng.uniform(-2.0, -0.5)),
            1 => 10f64.powf(rng.uniform(1.3, 2.5)),
            _ => rng.uniform(0.2, 12.0),
        } as f32;
        let tol = match rng.below(6) {
            0 => 10f64.powf(rng.uniform(-3.0, -1.5)),
            1 => rng.uniform(0.5, 3.0),
            _ => rng.uniform(0.02, 0.4),
        } as f32;
        let limit = *rng.pick(&[1.0f32, 1.2, 2.0, 4.0, 4.0, 10.0, 50.0]);
        let join = gen_join_kind(rng);
        let (sc, ec) = (gen_cap(rng), gen_cap(rng));
        let variable = rng.chance(2, 5);
        let entry = if variable { *rng.pick(&[0usize, 2, 4]) } else { rng.below(5) as usize };
        let n_attr = if variable || entry == 4 { rng.range(1, 3) as usize } else if entry == 0 || entry == 2 { rng.below(3) as usize } else { 0 };
        let mut options = StrokeOptions::tolerance(tol).with_line_width(width).with_line_join(join).with_start_cap(sc).with_end_cap(ec).with_miter_limit(limit);
        if variable {
            options = options.with_variable_line_width(0);
        }
        let thr = (tol * tol * 0.5).min(width * width * 0.05).max(1e-8f32);
        let inp = gen_stroke_input(rng, width * if variable { 2.5 } else { 1.0 }, thr);
        let extra = [rng.uniform(-5.0, 5.0) as f32, rng.uniform(-5.0, 5.0) as f32];
        let mut args = Out::new();
        args.t(ENTRY[entry]).t(join_name(join)).t(cap_name(sc)).t(cap_name(ec)).f(width).f(tol).f(limit).b(variable).u(n_attr as u64);
        for s in &inp.subs {
            args.t("M").p(s.start).f(s.w[0]);
            for (k, g) in s.segs.iter().enumerate() {
                match g {
                    Seg::Line(p) => args.t("L").p(*p),
                    Seg::Quad(c, p) => args.t("Q").p(*c).p(*p),
                    Seg::Cubic(c1, c2, p) => args.t("C").p(*c1).p(*c2).p(*p),
                };
                args.f(s.w[k + 1]);
            }
            args.t(if s.close { "Z" } else { "E" });
        }
        let tag = format!(
            "stroke {} {} {}/{} {} {}{}",
            ENTRY[entry],
            join_name(join),
            cap_name(sc),
            cap_name(ec),
            if variable { "variable" } else { "fixed" },
            inp.kind,
            if inp.simple { " simple" } else { "" }
        );
        (args, tag, move || run_stroke(&inp, &options, entry, n_attr, &extra))
    });
}

/// total length of a set of reference polylines
fn polys_length(polys: &[Vec<(f64, f64)>]) -> f64 {
    polys.iter().map(|v| v.windows(2).map(|w| ((w[1].0 - w[0].0).powi(2) + (w[1].1 - w[0].1).powi(2)).sqrt()).sum::<f64>()).sum()
}

/// what the per-vertex clauses of the end-to-end oracle are measured against: the sub-paths the
/// vertices were emitted for (`inp`, with their reference polylines `polys`), the options in force,
/// the endpoints / edges a source may name; `total_len`, `scale`, `n_curves` of the WHOLE input
/// (advancement runs on from one sub-path to the next); `thr` = the builder's merge threshold
struct VCheck<'a> {
    inp: &'a StrokeInput,
    options: &'a StrokeOptions,
    factor: f64,
    endpoint_pos: &'a std::collections::BTreeMap<u32, Point>,
    edges: &'a [(u32, u32, Vec<Point>)],
    polys: &'a [Vec<(f64, f64)>],
    total_len: f64,
    scale: f64,
    max_w: f32,
    n_curves: usize,
    thr: f32,
    attrs_len: usize,
    /// index of `vs[0]` in the whole output (for the messages)
    index0: usize,
}

/// the per-vertex clauses of the property on vertices of the public stroker: finite, position ==
/// position_on_path + normal * line_width / 2, reported line width == the configured one (fixed width),
/// reach, advancement range, source names an endpoint / edge of the input and position_on_path lies there
fn check_vertices(orc: &mut Oracle, vs: &[RecV], c: &VCheck) {
    let (inp, options) = (c.inp, c.options);
    let variable = options.variable_line_width.is_some();
    let (factor, endpoint_pos, edges, polys, total_len, scale, max_w, n_curves, thr) = (c.factor, c.endpoint_pos, c.edges, c.polys, c.total_len, c.scale, c.max_w, c.n_curves, c.thr);
    let measure = std::env::var("C05_MEASURE").is_ok();
    let reach_class = if variable && short_edge_for_width(inp, options.line_width) {
        "variable-width-short-edge"
    } else if miter_clip_below_resolution(inp, options) {
        "miter-clip-width-below-resolution"
    } else {
        "generic"
    };
    let nan_class = if variable && !inp.polyline { "variable-width-curve" } else { "generic" };
    for (k, v) in vs.iter().enumerate() {
        let k = k + c.index0;
        orc.check(fin(v.position) && finv(v.normal) && fin(v.pop) && v.line_width.is_finite(), "stroke/finite-position", nan_class, || format!("vertex {}: {:?}", k, v));
        orc.check(v.advancement.is_finite(), "stroke/finite-advancement", "generic", || format!("vertex {}: {:?}", k, v));
        if orc.failed() {
            break;
        }
        orc.check(position_def_ok(v.position, v.pop, v.normal, v.line_width), "stroke/position-def", "generic", || format!("vertex {}: {:?}", k, v));
        if !variable {
            orc.check(v.line_width == options.line_width, "stroke/line-width", "generic", || format!("vertex {}: {} vs {}", k, v.line_width, options.line_width));
        } else {
            orc.check(v.line_width >= 0.0 && v.line_width <= options.line_width * max_w * 1.0001, "stroke/line-width", "generic", || format!("vertex {}: {} vs base {} × max factor {}", k, v.line_width, options.line_width, max_w));
        }
        // reach: |position - position_on_path| (position_on_path is validated against the source below),
        // or, for vertices whose normal is long but which still hug an adjacent edge, the distance to the path
        // variable width: the width at the foot point on an adjacent edge is between the widths of its two
        // ends, so the reach is measured against the largest half width of the path
        let hw = if variable { (options.line_width * max_w) as f64 * 0.5 } else { v.line_width as f64 * 0.5 };
        let merge = (thr as f64).sqrt();
        // rounding: the direction of a kept edge (length ≥ merge distance) carries a relative error of about
        // eps × coordinate magnitude / edge length, and so do the cap and join corners built on it
        let dir_err = (8.0 * f32::EPSILON as f64 * scale / merge).min(0.05);
        let own = ((v.position.x as f64 - v.pop.x as f64).hypot(v.position.y as f64 - v.pop.y as f64), hw * factor * (1.001 + dir_err) + 1e-6 * scale);
        let measured = if own.0 <= own.1 && !measure {
            own
        } else {
            let d = dist_to_polys((v.position.x as f64, v.position.y as f64), &polys);
            (d.min(own.0), hw * factor * (1.001 + dir_err) + options.tolerance as f64 * 1.05 + 1e-5 * scale + merge)
        };
        if measure {
            eprintln!("MEAS {} {} {} {} {} {} {}", join_name(options.line_join), if variable { "variable" } else { "fixed" }, if inp.polyline { "polyline" } else { "curves" }, if inp.simple { "simple" } else { "any" }, measured.0 / hw.max(1e-30) / factor, options.miter_limit, reach_class);
        }
        orc.check(measured.0 <= measured.1, "stroke/reach", reach_class, || format!("vertex {}: distance {} > bound {} (half width {}, factor {}) {:?}", k, measured.0, measured.1, hw, factor, v));
        // advancement range
        orc.check(v.advancement >= -1e-3 && (v.advancement as f64) <= total_len * 1.005 + 4.0 * options.tolerance as f64 * n_curves as f64 + 1e-3 * scale + 1e-3, "stroke/advancement-range", "generic", || format!("vertex {}: advancement {} path length {}", k, v.advancement, total_len));
        // source
        match v.source {
            VertexSource::Endpoint { id } => {
                let p = endpoint_pos.get(&id.0);
                orc.check(p.is_some(), "stroke/source-endpoint-valid", "generic", || format!("vertex {}: endpoint {:?} is not an endpoint of the input", k, id));
                if let Some(p) = p {
                    // a merged point keeps its own id but may be moved onto the point it was merged with (close())
                    let dd = (p.x as f64 - v.pop.x as f64).hypot(p.y as f64 - v.pop.y as f64);
                    orc.check(dd <= (thr as f64).sqrt() * 1.001, "stroke/source-endpoint-position", "generic", || format!("vertex {}: endpoint {:?} at {:?}, position_on_path {:?}", k, id, p, v.pop));
                }
            }
            VertexSource::Edge { from, to, t } => {
                let e = edges.iter().find(|e| e.0 == from.0 && e.1 == to.0);
                orc.check(e.is_some(), "stroke/source-edge-valid", "generic", || format!("vertex {}: edge {:?}->{:?} is not an edge of the input", k, from, to));
                orc.check(t > 0.0 && t < 1.0, "stroke/source-edge-t", "generic", || format!("vertex {}: t = {}", k, t));
                if let Some(e) = e {
                    let mut c: Vec<(f64, f64)> = e.2.iter().map(|p| (p.x as f64, p.y as f64)).collect();
                    let tt = t as f64;
                    while c.len() > 1 {
                        c = c.windows(2).map(|w| (w[0].0 + (w[1].0 - w[0].0) * tt, w[0].1 + (w[1].1 - w[0].1) * tt)).collect();
                    }
                    let dd = ((c[0].0 - v.pop.x as f64).powi(2) + (c[0].1 - v.pop.y as f64).powi(2)).sqrt();
                    // lyon flattens a cubic through quadratic approximations: the points are within the tolerance of the cubic
                    orc.check(dd <= options.tolerance as f64 * 1.05 + 1e-5 * scale, "stroke/source-edge-position", "generic", || format!("vertex {}: curve({}) = {:?}, position_on_path {:?}", k, t, c[0], v.pop));
                }
            }
        }
        // attributes
        orc.check(v.attrs.len() == c.attrs_len, "stroke/attributes-len", "generic", || format!("vertex {}: {} attributes", k, v.attrs.len()));
    }
}

fn run_stroke(inp: &StrokeInput, options: &StrokeOptions, entry: usize, n_attr: usize, extra: &[f32]) -> CaseOut {
    let variable = options.variable_line_width.is_some();
    let path = build_path(inp, n_attr, extra);
    let mut mesh: VertexBuffers<RecV, u32> = VertexBuffers::new();
    let mut tess = StrokeTessellator::new();
    let res = {
        let mut out = BuffersBuilder::new(&mut mesh, Ctor);
        match entry {
            0 => tess.tessellate_path(&path, options, &mut out),
            1 => tess.tessellate(path.iter(), options, &mut out),
            2 => tess.tessellate_with_ids(path.id_iter(), &path, Some(&path), options, &mut out),
            3 => {
                let mut b = tess.builder(options, &mut out);
                for s in &inp.subs {
                    b.begin(s.start);
                    for g in &s.segs {
                        match g {
                            Seg::Line(p) => b.line_to(*p),
                            Seg::Quad(c, p) => b.quadratic_bezier_to(*c, *p),
                            Seg::Cubic(c1, c2, p) => b.cubic_bezier_to(*c1, *c2, *p),
                        };
                    }
                    b.end(s.close);
                }
                lyon_path::traits::Build::build(b)
            }
            _ => {
                let mut b = tess.builder_with_attributes(n_attr, options, &mut out);
                drive_builder(&mut b, inp, n_attr, extra);
                lyon_path::traits::Build::build(b)
            }
        }
    };
    let mut o = Out::new();
    let mut orc = Oracle::new();
    orc.check(res.is_ok(), "stroke/ok", "generic", || format!("{:?}", res));
    o.t(if res.is_ok() { "ok" } else { "err" }).u(mesh.vertices.len() as u64).u((mesh.indices.len() / 3) as u64);
    if res.is_err() {
        return CaseOut { imp: o, orcl: orc.verdict };
    }

    // endpoints of the input in the id space the entry point uses
    // (path ids for the *_with_ids / attribute paths, running endpoint counter otherwise)
    let by_path_ids = entry == 2 || (entry == 0 && n_attr > 0);
    let mut endpoint_pos: std::collections::BTreeMap<u32, Point> = std::collections::BTreeMap::new();
    // edges (from id, to id) -> curve control polygon
    let mut edges: Vec<(u32, u32, Vec<Point>)> = Vec::new();
    if by_path_ids {
        for e in path.id_iter() {
            match e {
                Event::Begin { at } => {
                    endpoint_pos.insert(at.0, path[at]);
                }
                Event::Line { from, to } => {
                    endpoint_pos.insert(to.0, path[to]);
                    edges.push((from.0, to.0, vec![path[from], path[to]]));
                }
                Event::Quadratic { from, ctrl, to } => {
                    endpoint_pos.insert(to.0, path[to]);
                    edges.push((from.0, to.0, vec![path[from], path[ctrl], path[to]]));
                }
                Event::Cubic { from, ctrl1, ctrl2, to } => {
                    endpoint_pos.insert(to.0, path[to]);
                    edges.push((from.0, to.0, vec![path[from], path[ctrl1], path[ctrl2], path[to]]));
                }
                Event::End { .. } => {}
            }
        }
    } else {
        let mut id = 0u32;
        for s in &inp.subs {
            endpoint_pos.insert(id, s.start);
            let mut prev = (id, s.start);
            id += 1;
            for g in &s.segs {
                endpoint_pos.insert(id, g.to());
                let ctrl = match g {
                    Seg::Line(p) => vec![prev.1, *p],
                    Seg::Quad(c, p) => vec![prev.1, *c, *p],
                    Seg::Cubic(c1, c2, p) => vec![prev.1, *c1, *c2, *p],
                };
                edges.push((prev.0, id, ctrl));
                prev = (id, g.to());
                id += 1;
            }
        }
    }

    let polys = flatten64(inp, 0.02 * options.tolerance as f64);
    let total_len: f64 = polys_length(&polys);
    let scale = polys.iter().flatten().fold(1.0f64, |m, p| m.max(p.0.abs()).max(p.1.abs()));
    let max_w = inp.subs.iter().flat_map(|s| s.w.iter()).fold(0.0f32, |m, w| m.max(*w));
    let factor = reach_factor(options, inp.polyline, inp.simple);
    let nv = mesh.vertices.len() as u32;
    // the reference polyline may step over a cusp of a curve: allow for it in the length
    let n_curves = inp.subs.iter().flat_map(|s| s.segs.iter()).filter(|g| !matches!(g, Seg::Line(_))).count();
    let thr = (options.tolerance * options.tolerance * 0.5).min(options.line_width * options.line_width * 0.05).max(1e-8f32);

    for t in mesh.indices.chunks(3) {
        orc.check(t.len() == 3 && t[0] != t[1] && t[1] != t[2] && t[0] != t[2], "stroke/distinct-ids", "generic", || format!("{:?}", t));
        orc.check(t.iter().all(|i| *i < nv), "stroke/valid-ids", "generic", || format!("{:?} of {}", t, nv));
    }
    check_vertices(
        &mut orc,
        &mesh.vertices,
        &VCheck {
            inp,
            options,
            factor,
            endpoint_pos: &endpoint_pos,
            edges: &edges,
            polys: &polys,
            total_len,
            scale,
            max_w,
            n_curves,
            thr,
            attrs_len: if entry == 1 || entry == 3 { 0 } else { n_attr },
            index0: 0,
        },
    );

    // simple polylines: advancement is the arc length at the source endpoint, sides follow the normals
    if inp.simple && !orc.failed() {
        let s = &inp.subs[0];
        let mut pts = vec![s.start];
        pts.extend(s.segs.iter().map(|g| g.to()));
        let n = pts.len();
        let ids: Vec<u32> = endpoint_pos.keys().cloned().collect();
        let mut cum = vec![0.0f64];
        for k in 1..n {
            cum.push(cum[k - 1] + (pts[k] - pts[k - 1]).to_f64().length());
        }
        let closing = (pts[0] - pts[n - 1]).to_f64().length();
        for (k, v) in mesh.vertices.iter().enumerate() {
            if let VertexSource::Endpoint { id } = v.source {
                let i = ids.iter().position(|x| *x == id.0).unwrap();
                let a = v.advancement as f64;
                let tolr = 1e-4 * (1.0 + total_len);
                let ok = (a - cum[i]).abs() <= tolr || (s.close && i == 0 && (a - (cum[n - 1] + closing)).abs() <= tolr);
                orc.check(ok, "stroke/advancement-arc-length", "generic", || format!("vertex {} at endpoint {}: advancement {} arc length {}", k, i, a, cum[i]));
                if !variable {
                    // side: the normal of a positive vertex has a non-negative component along the left
                    // normal of an adjacent edge
                    let mut dots = Vec::new();
                    let mut tangents = Vec::new();
                    let mut adj = |a: usize, b: usize| {
                        let t = (pts[b] - pts[a]).to_f64().normalize();
                        dots.push(-t.y * v.normal.x as f64 + t.x * v.normal.y as f64);
                        tangents.push(t);
                    };
                    if i > 0 {
                        adj(i - 1, i);
                    } else if s.close {
                        adj(n - 1, 0);
                    }
                    if i + 1 < n {
                        adj(i, i + 1);
                    } else if s.close {
                        adj(n - 1, 0);
                    }
                    // rounding: `position` is rounded to the float grid of the path's coordinates, so the normal
                    // read back from it carries an absolute error of about one float step / half width
                    // (negligible unless the half width is within a few thousand float steps of the coordinates)
                    let slack = 1e-3 * (1.0 + (v.normal.x as f64).hypot(v.normal.y as f64)) + 2.0 * f32::EPSILON as f64 * scale / (options.line_width as f64 * 0.5).max(1e-300);
                    let ok = match v.side {
                        Side::Positive => dots.iter().any(|d| *d >= -slack),
                        Side::Negative => dots.iter().any(|d| *d <= slack),
                    };
                    // A round join between (numerically) collinear edges may sweep the full circle on one side when
                    // the angle difference rounds to the wrong sign (`tessellate_round_join`); those fan vertices
                    // carry that side's label all the way round. Harmless for the mesh, so not checked here.
                    let straight_round = options.line_join == LineJoin::Round && tangents.len() == 2 && tangents[0].cross(tangents[1]).abs() < 1e-3 && tangents[0].dot(tangents[1]) > 0.0;
                    orc.check(ok || straight_round, "stroke/side", "generic", || format!("vertex {} at endpoint {}: side {:?} normal {:?} dots {:?}", k, i, v.side, v.normal, dots));
                }
            } else {
                orc.check(false, "stroke/source-polyline-endpoint", "generic", || format!("vertex {}: edge source on a polyline {:?}", k, v.source));
            }
        }
        // every endpoint of a simple polyline is named by some vertex
        for (i, id) in ids.iter().enumerate() {
            orc.check(
                mesh.vertices.iter().any(|v| matches!(v.source, VertexSource::Endpoint { id: x } if x.0 == *id)),
                "stroke/source-covers-endpoints",
                "generic",
                || format!("no vertex names endpoint {}", i),
            );
        }
        orc.check(!mesh.indices.is_empty(), "stroke/non-empty", "generic", || "no triangle for a simple polyline".to_string());
    }
    CaseOut { imp: o, orcl: orc.verdict }
}


// ---------------------------------------------------------------------------------------------
// polyline skeleton: vertex (source, side) sequence and triangle list of the public stroker for
// fixed width, bevel joins, butt caps — predicted by the model's `Poly.path`

fn poly_case(ctx: &mut Ctx) {
    ctx.case("poly:32", |rng| {
        let width = match rng.below(4) {
            0 => 10f64.powf(rng.uniform(-1.5, 0.0)),
            1 => rng.uniform(5.0, 40.0),
            _ => rng.uniform(0.5, 6.0),
        } as f32;
        let tol = match rng.below(4) {
            0 => 10f64.powf(rng.uniform(-3.0, -1.5)),
            1 => rng.uniform(0.5, 3.0),
            _ => rng.uniform(0.02, 0.4),
        } as f32;
        let thr = (tol * tol * 0.5).min(width * width * 0.05).max(1e-8f32);
        let lattice = rng.chance(1, 3);
        let n_sub = rng.range(1, 3) as usize;
        let mut subs: Vec<(Vec<Point>, bool)> = Vec::new();
        let mut kinds = [0u32; 6];
        for _ in 0..n_sub {
            let n = rng.range(1, 9) as usize;
            let mut rp = |rng: &mut Rng| -> Point {
                if lattice {
                    point(rng.range(-8, 8) as f32, rng.range(-8, 8) as f32)
                } else {
                    point(rng.uniform(-10.0, 10.0) as f32, rng.uniform(-10.0, 10.0) as f32)
                }
            };
            let mut pts = vec![rp(rng)];
            while pts.len() < n {
                let cur = *pts.last().unwrap();
                let k = rng.below(10) as usize;
                let next = match k {
                    0 => cur,
                    1 => cur + vector(thr.sqrt() * rng.uniform(-1.5, 1.5) as f32, thr.sqrt() * rng.uniform(-1.5, 1.5) as f32),
                    2 => cur + vector(width * rng.uniform(-0.6, 0.6) as f32, width * rng.uniform(-0.6, 0.6) as f32),
                    3 if pts.len() >= 2 => {
                        // back along the previous edge (exact or nearly a 180° turn)
                        let prev = pts[pts.len() - 2];
                        let t = rng.uniform(0.1, 1.5) as f32;
                        cur + (prev - cur) * t + if rng.chance(1, 2) { vector(0.0, 0.0) } else { vector(rng.uniform(-0.2, 0.2) as f32, rng.uniform(-0.2, 0.2) as f32) }
                    }
                    4 if pts.len() >= 2 => cur + (cur - pts[pts.len() - 2]),
                    5 => pts[0],
                    _ => rp(rng),
                };
                kinds[k.min(5)] += 1;
                pts.push(next);
            }
            subs.push((pts, rng.chance(1, 2)));
        }
        let mut args = Out::new();
        args.f(tol).f(width).u(subs.len() as u64);
        for (pts, closed) in &subs {
            args.u(pts.len() as u64).b(*closed);
            for p in pts {
                args.p(*p);
            }
        }
        let total: usize = subs.iter().map(|s| s.0.len()).sum();
        let tag = format!(
            "poly subs={} points={} closed={} {}{}",
            subs.len(),
            total,
            subs.iter().filter(|s| s.1).count(),
            if lattice { "lattice" } else { "float" },
            if total <= 1 { " trivial" } else { "" }
        );
        (args, tag, move || {
            let options = StrokeOptions::tolerance(tol).with_line_width(width).with_line_join(LineJoin::Bevel).with_line_cap(LineCap::Butt);
            let mut b = Path::builder();
            for (pts, closed) in &subs {
                b.begin(pts[0]);
                for p in &pts[1..] {
                    b.line_to(*p);
                }
                b.end(*closed);
            }
            let path = b.build();
            let mut mesh: VertexBuffers<RecV, u32> = VertexBuffers::new();
            let res = StrokeTessellator::new().tessellate(path.iter(), &options, &mut BuffersBuilder::new(&mut mesh, Ctor));
            let mut o = Out::new();
            let mut orc = Oracle::new();
            orc.check(res.is_ok(), "poly/ok", "generic", || format!("{:?}", res));
            o.t("V").u(mesh.vertices.len() as u64);
            for v in &mesh.vertices {
                match v.source {
                    VertexSource::Endpoint { id } => o.u(id.0 as u64),
                    VertexSource::Edge { .. } => o.t("edge"),
                };
                put_side(&mut o, v.side);
                orc.check(fin(v.position) && finv(v.normal) && v.advancement.is_finite(), "poly/finite", "generic", || format!("{:?}", v));
                orc.check(position_def_ok(v.position, v.pop, v.normal, v.line_width), "poly/position-def", "generic", || format!("{:?}", v));
            }
            o.t("T").u((mesh.indices.len() / 3) as u64);
            let nv = mesh.vertices.len() as u32;
            for t in mesh.indices.chunks(3) {
                o.u(t[0] as u64).u(t[1] as u64).u(t[2] as u64);
                orc.check(t[0] != t[1] && t[1] != t[2] && t[0] != t[2], "poly/distinct-ids", "generic", || format!("{:?}", t));
                orc.check(t.iter().all(|i| *i < nv), "poly/valid-ids", "generic", || format!("{:?} of {}", t, nv));
            }
            CaseOut { imp: o, orcl: orc.verdict }
        })
    });
}

// ---------------------------------------------------------------------------------------------
// the COMPLETE output of the public stroker (every vertex with all accessors + every triangle),
// predicted by the model of the whole StrokeBuilderImpl (`Model/Tess/StrokeFull.lean`)

fn gen_polyline_subs(rng: &mut Rng, width: f32, thr: f32, scale: f32, lattice: bool) -> Vec<(Vec<Point>, bool)> {
    let n_sub = rng.range(1, 3) as usize;
    let mut subs: Vec<(Vec<Point>, bool)> = Vec::new();
    for _ in 0..n_sub {
        let n = rng.range(1, 9) as usize;
        let mut rp = |rng: &mut Rng| -> Point {
            if lattice {
                point(rng.range(-8, 8) as f32 * scale, rng.range(-8, 8) as f32 * scale)
            } else {
                point(rng.uniform(-10.0, 10.0) as f32 * scale, rng.uniform(-10.0, 10.0) as f32 * scale)
            }
        };
        let mut pts = vec![rp(rng)];
        while pts.len() < n {
            let cur = *pts.last().unwrap();
            let k = rng.below(12) as usize;
            let next = match k {
                0 => cur,
                1 => cur + vector(thr.sqrt() * rng.uniform(-1.5, 1.5) as f32, thr.sqrt() * rng.uniform(-1.5, 1.5) as f32),
                2 => cur + vector(width * rng.uniform(-0.6, 0.6) as f32, width * rng.uniform(-0.6, 0.6) as f32),
                3 if pts.len() >= 2 => {
                    // back along the previous edge (exact or nearly a 180° turn)
                    let prev = pts[pts.len() - 2];
                    let t = rng.uniform(0.1, 1.5) as f32;
                    cur + (prev - cur) * t + if rng.chance(1, 2) { vector(0.0, 0.0) } else { vector(rng.uniform(-0.2, 0.2) as f32, rng.uniform(-0.2, 0.2) as f32) * scale }
                }
                // collinear continuation
                4 if pts.len() >= 2 => cur + (cur - pts[pts.len() - 2]),
                5 => pts[0],
                // a sharp spike with a short next edge (fold candidates)
                6 if pts.len() >= 2 => {
                    let prev = pts[pts.len() - 2];
                    let d = (prev - cur).normalize();
                    let d = if d.x.is_finite() { d } else { vector(1.0, 0.0) };
                    let a = rng.uniform(-0.5, 0.5) as f32;
                    let r = vector(d.x * a.cos() - d.y * a.sin(), d.x * a.sin() + d.y * a.cos());
                    cur + r * (width * rng.uniform(0.05, 3.0) as f32)
                }
                // tiny / huge segment
                7 => cur + vector(rng.uniform(-1.0, 1.0) as f32, rng.uniform(-1.0, 1.0) as f32) * (scale * 10f64.powf(rng.uniform(-4.0, 3.0)) as f32),
                _ => rp(rng),
            };
            pts.push(next);
        }
        subs.push((pts, rng.chance(1, 2)));
    }
    subs
}

/// Records the output like `hk::Rec` and checks, at every `add_triangle` call, that the three ids
/// have been returned by an earlier `add_stroke_vertex`: validity AT EMISSION TIME, which is what
/// `Lyon.C05c.VSteps` (`stroke_indices_valid_*`) states about the model.  `early` collects
/// `(a, b, c, number of vertices emitted so far)` of the offending calls.
#[derive(Default)]
struct EmitRec {
    rec: hk::Rec,
    early: Vec<(u32, u32, u32, u32)>,
}

impl GeometryBuilder for EmitRec {
    fn add_triangle(&mut self, a: VertexId, b: VertexId, c: VertexId) {
        let n = self.rec.vertices.len() as u32;
        if a.0 >= n || b.0 >= n || c.0 >= n {
            self.early.push((a.0, b.0, c.0, n));
        }
        self.rec.add_triangle(a, b, c);
    }
}

impl StrokeGeometryBuilder for EmitRec {
    fn add_stroke_vertex(&mut self, v: StrokeVertex) -> Result<VertexId, GeometryBuilderError> {
        self.rec.add_stroke_vertex(v)
    }
}

/// the id clauses of the `full` / `fulle` families: three distinct ids per triangle, all valid in
/// the finished mesh, all valid already when the triangle was emitted
fn check_ids(orc: &mut Oracle, site: &str, er: &EmitRec) {
    let nv = er.rec.vertices.len() as u32;
    for t in &er.rec.triangles {
        orc.check(tris_distinct(t), &format!("{}/distinct-ids", site), "generic", || format!("{:?}", t));
        orc.check(t.0 < nv && t.1 < nv && t.2 < nv, &format!("{}/valid-ids", site), "generic", || format!("{:?} of {}", t, nv));
    }
    orc.check(er.early.is_empty(), &format!("{}/ids-valid-when-emitted", site), "generic", || {
        format!("(a, b, c, vertices so far) {:?}", &er.early[..er.early.len().min(4)])
    });
}

fn full_case(ctx: &mut Ctx) {
    ctx.case("full:32", |rng| {
        let scale = match rng.below(8) {
            0 => 10f64.powf(rng.uniform(-3.0, -1.0)) as f32,
            1 => 10f64.powf(rng.uniform(1.0, 5.0)) as f32,
            _ => 1.0,
        };
        let width = scale
            * match rng.below(4) {
                0 => 10f64.powf(rng.uniform(-1.5, 0.0)),
                1 => rng.uniform(5.0, 40.0),
                _ => rng.uniform(0.5, 6.0),
            } as f32;
        let tol = scale
            * match rng.below(4) {
                0 => 10f64.powf(rng.uniform(-3.0, -1.5)),
                1 => rng.uniform(0.5, 3.0),
                _ => rng.uniform(0.02, 0.4),
            } as f32;
        let thr = (tol * tol * 0.5).min(width * width * 0.05).max(1e-8f32);
        let lattice = rng.chance(1, 3);
        let join = gen_join_kind(rng);
        let (cap1, cap2) = if rng.chance(1, 2) { let c = gen_cap(rng); (c, c) } else { (gen_cap(rng), gen_cap(rng)) };
        let ml = match rng.below(4) {
            0 => 1.0,
            1 => rng.uniform(1.0, 1.5) as f32,
            2 => 4.0,
            _ => rng.uniform(1.0, 12.0) as f32,
        };
        let subs = gen_polyline_subs(rng, width, thr, scale, lattice);
        let mut args = Out::new();
        args.f(tol).f(width).f(ml).t(join_name(join)).t(cap_name(cap1)).t(cap_name(cap2)).u(subs.len() as u64);
        for (pts, closed) in &subs {
            args.u(pts.len() as u64).b(*closed);
            for p in pts {
                args.p(*p);
            }
        }
        let total: usize = subs.iter().map(|s| s.0.len()).sum();
        let tag = format!(
            "full fw polyline {} {}/{} subs={} closed={} {}{}{}",
            join_name(join),
            cap_name(cap1),
            cap_name(cap2),
            subs.len(),
            subs.iter().filter(|s| s.1).count(),
            if lattice { "lattice" } else { "float" },
            if scale != 1.0 { " scaled" } else { "" },
            if total <= 1 { " trivial" } else { "" }
        );
        (args, tag, move || {
            let mut options = StrokeOptions::tolerance(tol).with_line_width(width).with_line_join(join).with_miter_limit(ml);
            options.start_cap = cap1;
            options.end_cap = cap2;
            let mut b = Path::builder();
            for (pts, closed) in &subs {
                b.begin(pts[0]);
                for p in &pts[1..] {
                    b.line_to(*p);
                }
                b.end(*closed);
            }
            let path = b.build();
            let mut er = EmitRec::default();
            let res = StrokeTessellator::new().tessellate(path.iter(), &options, &mut er);
            let mut o = Out::new();
            let mut orc = Oracle::new();
            orc.check(res.is_ok(), "full/ok", "generic", || format!("{:?}", res));
            put_full(&mut o, &er.rec, false);
            check_ids(&mut orc, "full", &er);
            CaseOut { imp: o, orcl: orc.verdict }
        })
    });
}

/// every vertex (all accessors; the interpolated attributes when `attrs`) and every triangle
fn put_full(o: &mut Out, r: &hk::Rec, attrs: bool) {
    o.t("V").u(r.vertices.len() as u64);
    for v in &r.vertices {
        put_vtx(o, v);
        if attrs {
            o.t("A").u(v.attributes.len() as u64);
            for a in &v.attributes {
                o.f(*a);
            }
        }
    }
    o.t("T").u(r.triangles.len() as u64);
    for t in &r.triangles {
        o.u(t.0 as u64).u(t.1 as u64).u(t.2 as u64);
    }
}

/// curve-heavy inputs: sharp quadratic turns (find_sharp_turn), cusps, curves that are short or
/// long relative to the line width (fast path of flattened curves, skipped joins), strongly varying
/// width factors
fn gen_curvy_input(rng: &mut Rng, width: f32) -> StrokeInput {
    let scale = width * 10f64.powf(rng.uniform(-0.7, 1.8)) as f32;
    let lattice = rng.chance(1, 4);
    let mut rp = |rng: &mut Rng| -> Point {
        if lattice {
            point(rng.range(-6, 6) as f32 * scale * 0.125, rng.range(-6, 6) as f32 * scale * 0.125)
        } else {
            point(rng.uniform(-1.0, 1.0) as f32 * scale, rng.uniform(-1.0, 1.0) as f32 * scale)
        }
    };
    let mut subs = Vec::new();
    for _ in 0..rng.range(1, 2) {
        let start = rp(rng);
        let mut cur = start;
        let mut segs = Vec::new();
        for _ in 0..rng.range(1, 5) {
            let to = rp(rng);
            let g = match rng.below(10) {
                0 => Seg::Line(to),
                // control point far beyond the end point / behind the start: sharp turn
                1 => Seg::Quad(cur + (to - cur) * rng.uniform(1.5, 8.0) as f32 + vector(rng.uniform(-0.05, 0.05) as f32, rng.uniform(-0.05, 0.05) as f32) * scale, to),
                2 => Seg::Quad(cur - (to - cur) * rng.uniform(0.5, 8.0) as f32 + vector(rng.uniform(-0.05, 0.05) as f32, rng.uniform(-0.05, 0.05) as f32) * scale, to),
                // nearly closed quadratic
                3 => Seg::Quad(rp(rng), cur + vector(rng.uniform(-0.05, 0.05) as f32, rng.uniform(-0.05, 0.05) as f32) * scale),
                4 | 5 => Seg::Quad(rp(rng), to),
                // loop / cusp-like cubic
                6 => Seg::Cubic(to + vector(rng.uniform(-0.3, 0.3) as f32, rng.uniform(-0.3, 0.3) as f32) * scale, cur + vector(rng.uniform(-0.3, 0.3) as f32, rng.uniform(-0.3, 0.3) as f32) * scale, to),
                _ => Seg::Cubic(rp(rng), rp(rng), to),
            };
            cur = g.to();
            segs.push(g);
        }
        let close = rng.chance(1, 3);
        let n = segs.len() + 1;
        let strong = rng.chance(1, 2);
        let w = (0..n).map(|_| if strong { 10f64.powf(rng.uniform(-1.0, 0.7)) as f32 } else { rng.uniform(0.5, 1.5) as f32 }).collect();
        subs.push(Sub { start, segs, close, w });
    }
    StrokeInput { subs, kind: "curvy".to_string(), polyline: false, simple: false }
}

/// curves a few float steps across, far from the origin (coordinates near `±2^k`, features of
/// `1 … 3000` ulps, line width and tolerance of that order): the regime where rounding could make
/// `flattened_step`'s two dot products both negative, i.e. where the arithmetic premises (R1), (R2)
/// of `Lyon.C05c.stroke_indices_valid_of_reg` are exercised (the `ids-valid-when-emitted` clause
/// reports a failure of either)
fn gen_far_curvy_input(rng: &mut Rng) -> (StrokeInput, f32, f32) {
    let k = rng.uniform(3.0, 22.0);
    let m = 2f64.powf(k);
    let sx = if rng.chance(1, 2) { -1.0 } else { 1.0 };
    let mx = sx * if rng.chance(1, 2) { 2f64.powf(k.floor()) } else { m };
    let my = match rng.below(3) {
        0 => 0.0,
        1 => mx,
        _ => m * rng.uniform(-1.0, 1.0),
    };
    let ulp = (m as f32 * f32::EPSILON) as f64;
    let s = ulp * 10f64.powf(rng.uniform(0.0, 3.5));
    let width = (s * 10f64.powf(rng.uniform(-2.0, 1.0))) as f32;
    let tol = (s * 10f64.powf(rng.uniform(-3.5, -0.5))) as f32;
    let rp = |rng: &mut Rng| -> Point { point((mx + rng.uniform(-1.0, 1.0) * s) as f32, (my + rng.uniform(-1.0, 1.0) * s) as f32) };
    let start = rp(rng);
    let mut segs = Vec::new();
    for _ in 0..rng.range(1, 3) {
        let g = match rng.below(4) {
            0 => Seg::Line(rp(rng)),
            1 | 2 => Seg::Quad(rp(rng), rp(rng)),
            _ => Seg::Cubic(rp(rng), rp(rng), rp(rng)),
        };
        segs.push(g);
    }
    let close = rng.chance(1, 3);
    let n = segs.len() + 1;
    let w = (0..n).map(|_| rng.uniform(0.5, 1.5) as f32).collect();
    (StrokeInput { subs: vec![Sub { start, segs, close, w }], kind: "far".to_string(), polyline: false, simple: false }, width.max(1e-30), tol.max(1e-30))
}

/// witness class of finding C05-empty-cap-stale-attributes, computed from the input: a sub-path that
/// contains a curve is followed (later in the path) by a sub-path all of whose points lie within the
/// merge distance of its first point (on-curve points within sqrt(thr), control points within 4 x),
/// so that only one point is kept and `end` may emit an empty cap
fn degenerate_subpath_after_curve(inp: &StrokeInput, thr: f32) -> bool {
    let d = (thr as f64).sqrt() * 1.01;
    let near = |a: Point, b: Point, f: f64| (((a.x - b.x) as f64).powi(2) + ((a.y - b.y) as f64).powi(2)).sqrt() <= d * f;
    let mut curve_before = false;
    for s in &inp.subs {
        let degenerate = s.segs.iter().all(|g| match g {
            Seg::Line(p) => near(*p, s.start, 1.0),
            Seg::Quad(c, p) => near(*p, s.start, 1.0) && near(*c, s.start, 4.0),
            Seg::Cubic(c1, c2, p) => near(*p, s.start, 1.0) && near(*c1, s.start, 4.0) && near(*c2, s.start, 4.0),
        });
        if degenerate && curve_before {
            return true;
        }
        if s.segs.iter().any(|g| !matches!(g, Seg::Line(_))) {
            curve_before = true;
        }
    }
    false
}

// the general form: all five entry points, fixed / variable width, curves, custom attributes.
// `fulle tol width ml join cap1 cap2 variable fw_ids nattr nev (B id x y a* | L id x y a* |
//  Q cx cy id x y a* | C c1x c1y c2x c2y id x y a* | E close)*`
fn fulle_case(ctx: &mut Ctx) {
    ctx.case("fulle:32", |rng| {
        let width = match rng.below(8) {
            0 => 10f64.powf(rng.uniform(-2.0, -0.5)),
            1 => 10f64.powf(rng.uniform(1.3, 2.5)),
            _ => rng.uniform(0.2, 12.0),
        } as f32;
        let tol = match rng.below(6) {
            0 => 10f64.powf(rng.uniform(-3.0, -1.5)),
            1 => rng.uniform(0.5, 3.0),
            _ => rng.uniform(0.02, 0.4),
        } as f32;
        let far = if rng.chance(1, 8) { Some(gen_far_curvy_input(rng)) } else { None };
        let (width, tol) = match &far {
            Some((_, w, t)) => (*w, *t),
            None => (width, tol),
        };
        let limit = *rng.pick(&[1.0f32, 1.2, 2.0, 4.0, 4.0, 10.0, 50.0]);
        let join = gen_join_kind(rng);
        let (sc, ec) = (gen_cap(rng), gen_cap(rng));
        let variable = if far.is_some() { rng.chance(1, 4) } else { rng.chance(1, 2) };
        let entry = if variable { *rng.pick(&[0usize, 2, 4]) } else { rng.below(5) as usize };
        let n_attr = if variable || entry == 4 { rng.range(1, 3) as usize } else if entry == 0 || entry == 2 { rng.below(3) as usize } else { 0 };
        let mut options = StrokeOptions::tolerance(tol).with_line_width(width).with_line_join(join).with_start_cap(sc).with_end_cap(ec).with_miter_limit(limit);
        if variable {
            options = options.with_variable_line_width(0);
        }
        let thr = (tol * tol * 0.5).min(width * width * 0.05).max(1e-8f32);
        let inp = if let Some((i, _, _)) = far {
            i
        } else if rng.chance(1, 3) {
            gen_stroke_input(rng, width * if variable { 2.5 } else { 1.0 }, thr)
        } else if rng.chance(1, 2) {
            gen_curvy_input(rng, width)
        } else {
            let lattice = rng.chance(1, 3);
            let subs = gen_polyline_subs(rng, width, thr, 1.0, lattice);
            StrokeInput {
                subs: subs
                    .into_iter()
                    .map(|(pts, close)| Sub {
                        start: pts[0],
                        segs: pts[1..].iter().map(|p| Seg::Line(*p)).collect(),
                        close,
                        w: pts.iter().map(|_| if rng.chance(1, 6) { 1.0 } else { rng.uniform(0.3, 2.5) as f32 }).collect(),
                    })
                    .collect(),
                kind: "folds".to_string(),
                polyline: true,
                simple: false,
            }
        };
        let extra = [rng.uniform(-5.0, 5.0) as f32, rng.uniform(-5.0, 5.0) as f32];
        // the endpoint ids the entry point hands to the stroker
        let path = build_path(&inp, n_attr, &extra);
        let by_path_ids = entry == 2 || (entry == 0 && n_attr > 0);
        let fw_ids = entry == 1 || (entry == 0 && n_attr == 0);
        let mut ids: Vec<u32> = Vec::new();
        if by_path_ids {
            for e in path.id_iter() {
                match e {
                    Event::Begin { at } => ids.push(at.0),
                    Event::Line { to, .. } | Event::Quadratic { to, .. } | Event::Cubic { to, .. } => ids.push(to.0),
                    Event::End { .. } => {}
                }
            }
        } else {
            let n: usize = inp.subs.iter().map(|s| 1 + s.segs.len()).sum();
            ids = (0..n as u32).collect();
        }
        let n_ev: usize = inp.subs.iter().map(|s| 2 + s.segs.len()).sum();
        let mut args = Out::new();
        args.f(tol).f(width).f(limit).t(join_name(join)).t(cap_name(sc)).t(cap_name(ec)).b(variable).b(fw_ids).u(n_attr as u64).u(n_ev as u64);
        let mut k_id = 0;
        // endpoint id -> its custom attributes (what the attribute store answers)
        let mut attr_of: Vec<(u32, Vec<f32>)> = Vec::new();
        for s in &inp.subs {
            let at = |k: usize| -> Vec<f32> {
                let mut a = vec![s.w[k]];
                a.extend_from_slice(&extra);
                a.truncate(n_attr);
                a
            };
            args.t("B").u(ids[k_id] as u64).p(s.start);
            attr_of.push((ids[k_id], at(0)));
            for a in at(0) {
                args.f(a);
            }
            k_id += 1;
            for (k, g) in s.segs.iter().enumerate() {
                match g {
                    Seg::Line(p) => args.t("L").u(ids[k_id] as u64).p(*p),
                    Seg::Quad(c, p) => args.t("Q").p(*c).u(ids[k_id] as u64).p(*p),
                    Seg::Cubic(c1, c2, p) => args.t("C").p(*c1).p(*c2).u(ids[k_id] as u64).p(*p),
                };
                attr_of.push((ids[k_id], at(k + 1)));
                for a in at(k + 1) {
                    args.f(a);
                }
                k_id += 1;
            }
            args.t("E").b(s.close);
        }
        // one case in three: the tessellator has been used before (another entry point, another attribute count)
        let salt = rng.next();
        let reused = salt % 3 == 0;
        if reused {
            args.t("reused-tessellator");
        }
        let tag = format!(
            "fulle {} {} {}/{} {} attrs={} {}{}",
            ENTRY[entry],
            join_name(join),
            cap_name(sc),
            cap_name(ec),
            if variable { "variable" } else { "fixed" },
            n_attr,
            inp.kind,
            if reused { " reused-tessellator" } else { "" },
        );
        (args, tag, move || {
            let mut rec = EmitRec::default();
            let mut tess = StrokeTessellator::new();
            if reused {
                warm_up(&mut tess, salt);
            }
            let res = match entry {
                0 => tess.tessellate_path(&path, &options, &mut rec),
                1 => tess.tessellate(path.iter(), &options, &mut rec),
                2 => tess.tessellate_with_ids(path.id_iter(), &path, Some(&path), &options, &mut rec),
                3 => {
                    let mut b = tess.builder(&options, &mut rec);
                    for s in &inp.subs {
                        b.begin(s.start);
                        for g in &s.segs {
                            match g {
                                Seg::Line(p) => b.line_to(*p),
                                Seg::Quad(c, p) => b.quadratic_bezier_to(*c, *p),
                                Seg::Cubic(c1, c2, p) => b.cubic_bezier_to(*c1, *c2, *p),
                            };
                        }
                        b.end(s.close);
                    }
                    lyon_path::traits::Build::build(b)
                }
                _ => {
                    let mut b = tess.builder_with_attributes(n_attr, &options, &mut rec);
                    drive_builder(&mut b, &inp, n_attr, &extra);
                    lyon_path::traits::Build::build(b)
                }
            };
            let mut o = Out::new();
            let mut orc = Oracle::new();
            orc.check(res.is_ok(), "fulle/ok", "generic", || format!("{:?}", res));
            // attributes are visible to the vertex constructor when the entry point has a store
            put_full(&mut o, &rec.rec, true);
            check_ids(&mut orc, "fulle", &rec);
            // every vertex reports the attributes of its source: the endpoint's own, or the two
            // endpoints' interpolated at `t` (same f32 expression as lyon's: a*(1-t) + b*t)
            if !fw_ids && n_attr > 0 {
                let class = if degenerate_subpath_after_curve(&inp, thr) { "degenerate-subpath-after-curve" } else { "generic" };
                let get = |id: EndpointId| attr_of.iter().find(|a| a.0 == id.0).map(|a| a.1.clone());
                for (k, v) in rec.rec.vertices.iter().enumerate() {
                    let expect: Option<Vec<f32>> = match v.source {
                        VertexSource::Endpoint { id } => get(id),
                        VertexSource::Edge { from, to, t } => match (get(from), get(to)) {
                            (Some(a), Some(b)) => Some(a.iter().zip(b.iter()).map(|(x, y)| x * (1.0 - t) + y * t).collect()),
                            _ => None,
                        },
                    };
                    let ok = match &expect {
                        Some(e) => e.len() == v.attributes.len() && e.iter().zip(v.attributes.iter()).all(|(x, y)| x == y || ulp_close(*x, *y, 2.0)),
                        None => false,
                    };
                    orc.check(ok, "fulle/attributes-match-source", class, || {
                        format!("vertex {} source {:?}: interpolated_attributes {:?}, expected {:?}", k, v.source, v.attributes, expect)
                    });
                }
            }
            CaseOut { imp: o, orcl: orc.verdict }
        })
    });
}


// ---------------------------------------------------------------------------------------------
// PROGRAMS on one `StrokeBuilder` object (`StrokeTessellator::builder` / `builder_with_attributes`, and the
// one-shot `tessellate_rectangle` / `_circle` / `_ellipse` / `_polygon` built on it): several sub-paths
// interleaved with the shape helpers (add_rectangle incl. thin, borderline and degenerate rectangles,
// add_circle, add_ellipse, add_rounded_rectangle, add_polygon, add_line_segment, add_point) and the option
// setters (set_line_join, set_start_cap, set_end_cap, set_miter_limit - also inside a sub-path), fixed and
// variable width.
//   `prog:32`  un-faulted: the complete output compared bit for bit with `Model/Tess/StrokeBuilderProg.lean`
//              (`tessellateProg`: the builder-level state that survives between calls = options, id counter,
//              `self.prev`, the whole StrokeBuilderImpl), and the end-to-end per-vertex oracle applied PER
//              SUB-PATH with the options in force for that sub-path (a thin rectangle is stroked, as documented
//              in stroke.rs, as its centre segment with `line_width + thickness / 2` and square / round caps;
//              every other sub-path must report the configured line width)
//   `progf`    (oracle only) the same programs, and plain paths through the iterator entry points, with a
//              geometry builder that REFUSES the k-th vertex - once, twice or from then on, InvalidVertex or
//              TooManyVertices - for every k: whatever is emitted, before or after the refusal, must be
//              triangles with three distinct ids that were returned by an earlier add_stroke_vertex

use lyon_path::geom::{Angle, Box2D, LineSegment};
use lyon_path::{Polygon, Winding};
use lyon_path::builder::BorderRadii;
use std::cell::Cell;
use std::rc::Rc;

/// one call on the builder; the last field of the path / shape calls is the width factor (custom attribute 0)
#[derive(Clone, Debug)]
enum Cmd {
    Begin(Point, f32),
    Line(Point, f32),
    Quad(Point, Point, f32),
    Cubic(Point, Point, Point, f32),
    End(bool),
    Rect(Box2D<f32>, bool, f32),
    Polygon(Vec<Point>, bool, f32),
    Segment(Point, Point, f32),
    PointAt(Point, f32),
    Circle(Point, f32, bool, f32),
    Ellipse(Point, Vector, f32, bool, f32),
    RoundRect(Box2D<f32>, [f32; 4], bool, f32),
    SetJoin(LineJoin),
    SetStartCap(LineCap),
    SetEndCap(LineCap),
    SetMiterLimit(f32),
}

/// what the model is told: the calls with the lyon_path-generic helpers (circle, ellipse, rounded rectangle)
/// expanded into the begin / line_to / curve / end calls they make
#[derive(Clone, Debug)]
enum Op {
    Begin(Point, Vec<f32>),
    Line(Point, Vec<f32>),
    Quad(Point, Point, Vec<f32>),
    Cubic(Point, Point, Point, Vec<f32>),
    End(bool),
    Rect(Box2D<f32>, bool, Vec<f32>),
    Polygon(Vec<Point>, bool, Vec<f32>),
    Segment(Point, Point, Vec<f32>),
    PointAt(Point, Vec<f32>),
    SetJoin(LineJoin),
    SetStartCap(LineCap),
    SetEndCap(LineCap),
    SetMiterLimit(f32),
}

fn winding(positive: bool) -> Winding {
    if positive {
        Winding::Positive
    } else {
        Winding::Negative
    }
}

fn radii_of(r: &[f32; 4]) -> BorderRadii {
    BorderRadii { top_left: r[0], top_right: r[1], bottom_left: r[2], bottom_right: r[3] }
}

/// records the begin / line_to / curve / end calls a generic `PathBuilder` helper makes
struct Expand {
    n_attr: usize,
    ops: Vec<Op>,
    next: u32,
}

impl PathBuilder for Expand {
    fn num_attributes(&self) -> usize {
        self.n_attr
    }
    fn begin(&mut self, at: Point, a: &[f32]) -> EndpointId {
        self.ops.push(Op::Begin(at, a.to_vec()));
        self.next += 1;
        EndpointId(self.next - 1)
    }
    fn end(&mut self, close: bool) {
        self.ops.push(Op::End(close));
    }
    fn line_to(&mut self, to: Point, a: &[f32]) -> EndpointId {
        self.ops.push(Op::Line(to, a.to_vec()));
        self.next += 1;
        EndpointId(self.next - 1)
    }
    fn quadratic_bezier_to(&mut self, ctrl: Point, to: Point, a: &[f32]) -> EndpointId {
        self.ops.push(Op::Quad(ctrl, to, a.to_vec()));
        self.next += 1;
        EndpointId(self.next - 1)
    }
    fn cubic_bezier_to(&mut self, c1: Point, c2: Point, to: Point, a: &[f32]) -> EndpointId {
        self.ops.push(Op::Cubic(c1, c2, to, a.to_vec()));
        self.next += 1;
        EndpointId(self.next - 1)
    }
}

/// the calls `cmd` makes, as the model sees them
fn ops_of(cmd: &Cmd, n_attr: usize, extra: &[f32]) -> Vec<Op> {
    let at = |w: f32| -> Vec<f32> {
        let mut a = vec![w];
        a.extend_from_slice(extra);
        a.truncate(n_attr);
        a
    };
    let mut ex = Expand { n_attr, ops: Vec::new(), next: 0 };
    match cmd {
        Cmd::Begin(p, w) => vec![Op::Begin(*p, at(*w))],
        Cmd::Line(p, w) => vec![Op::Line(*p, at(*w))],
        Cmd::Quad(c, p, w) => vec![Op::Quad(*c, *p, at(*w))],
        Cmd::Cubic(c1, c2, p, w) => vec![Op::Cubic(*c1, *c2, *p, at(*w))],
        Cmd::End(c) => vec![Op::End(*c)],
        Cmd::Rect(r, pos, w) => vec![Op::Rect(*r, *pos, at(*w))],
        Cmd::Polygon(pts, closed, w) => vec![Op::Polygon(pts.clone(), *closed, at(*w))],
        Cmd::Segment(p, q, w) => vec![Op::Segment(*p, *q, at(*w))],
        Cmd::PointAt(p, w) => vec![Op::PointAt(*p, at(*w))],
        Cmd::Circle(c, r, pos, w) => {
            ex.add_circle(*c, *r, winding(*pos), &at(*w));
            ex.ops
        }
        Cmd::Ellipse(c, r, rot, pos, w) => {
            ex.add_ellipse(*c, *r, Angle::radians(*rot), winding(*pos), &at(*w));
            ex.ops
        }
        Cmd::RoundRect(b, r, pos, w) => {
            ex.add_rounded_rectangle(b, &radii_of(r), winding(*pos), &at(*w));
            ex.ops
        }
        Cmd::SetJoin(j) => vec![Op::SetJoin(*j)],
        Cmd::SetStartCap(c) => vec![Op::SetStartCap(*c)],
        Cmd::SetEndCap(c) => vec![Op::SetEndCap(*c)],
        Cmd::SetMiterLimit(m) => vec![Op::SetMiterLimit(*m)],
    }
}

fn put_ops(args: &mut Out, ops: &[Op]) {
    let fl = |args: &mut Out, a: &[f32]| {
        for x in a {
            args.f(*x);
        }
    };
    for op in ops {
        match op {
            Op::Begin(p, a) => {
                args.t("B").p(*p);
                fl(args, a);
            }
            Op::Line(p, a) => {
                args.t("L").p(*p);
                fl(args, a);
            }
            Op::Quad(c, p, a) => {
                args.t("Q").p(*c).p(*p);
                fl(args, a);
            }
            Op::Cubic(c1, c2, p, a) => {
                args.t("C").p(*c1).p(*c2).p(*p);
                fl(args, a);
            }
            Op::End(c) => {
                args.t("E").b(*c);
            }
            Op::Rect(r, pos, a) => {
                args.t("R").p(r.min).p(r.max).b(*pos);
                fl(args, a);
            }
            Op::Polygon(pts, closed, a) => {
                args.t("P").u(pts.len() as u64).b(*closed);
                for p in pts {
                    args.p(*p);
                }
                fl(args, a);
            }
            Op::Segment(p, q, a) => {
                args.t("S").p(*p).p(*q);
                fl(args, a);
            }
            Op::PointAt(p, a) => {
                args.t("O").p(*p);
                fl(args, a);
            }
            Op::SetJoin(j) => {
                args.t("SJ").t(join_name(*j));
            }
            Op::SetStartCap(c) => {
                args.t("SS").t(cap_name(*c));
            }
            Op::SetEndCap(c) => {
                args.t("SE").t(cap_name(*c));
            }
            Op::SetMiterLimit(m) => {
                args.t("SM").f(*m);
            }
        }
    }
}

/// one sub-path as the stroker is asked to stroke it: the geometry, the ids of its endpoints (`first_id`
/// upwards: what the builder's attribute store hands out), the custom attributes per endpoint, and every
/// options record in force while it was built (`opts[0]` at its begin, the last one at its end)
#[derive(Clone, Debug)]
struct Piece {
    sub: Sub,
    first_id: u32,
    attrs: Vec<Vec<f32>>,
    opts: Vec<StrokeOptions>,
    kind: &'static str,
}

/// `StrokeBuilder::add_rectangle`'s test, and `approximate_thin_rectangle`'s segment and widening, restated
/// from the comments in stroke.rs (same f32 expressions): `Some((from, to, d))` if the rectangle is replaced
/// by its centre segment stroked `d` wider
fn thin_rectangle(o: &StrokeOptions, r: &Box2D<f32>) -> Option<(Point, Point, f32)> {
    let threshold = if o.line_join == LineJoin::Miter { 1.0 } else { 0.05 } * o.line_width;
    if o.variable_line_width.is_some() || !(r.width().abs() < threshold || r.height().abs() < threshold) {
        return None;
    }
    Some(if r.width() > r.height() {
        let d = r.height() * 0.5;
        let y = (r.min.y + r.max.y) * 0.5;
        (point(r.min.x + d, y), point(r.max.x - d, y), d)
    } else {
        let d = r.width() * 0.5;
        let x = (r.min.x + r.max.x) * 0.5;
        (point(x, r.min.y + d), point(x, r.max.y - d), d)
    })
}

/// the sub-paths a program makes the stroker stroke
fn pieces_of(ops: &[Op], options: &StrokeOptions) -> Vec<Piece> {
    let mut o = *options;
    let mut next_id = 0u32;
    let mut out: Vec<Piece> = Vec::new();
    let mut cur: Option<Piece> = None;
    let w0 = |a: &Vec<f32>| a.first().cloned().unwrap_or(1.0);
    let poly = |pts: &[Point], closed: bool, a: &Vec<f32>, first_id: u32, o: StrokeOptions, kind: &'static str| Piece {
        sub: Sub { start: pts[0], segs: pts[1..].iter().map(|p| Seg::Line(*p)).collect(), close: closed, w: vec![w0(a); pts.len()] },
        first_id,
        attrs: vec![a.clone(); pts.len()],
        opts: vec![o],
        kind,
    };
    for op in ops {
        match op {
            Op::Begin(p, a) => {
                cur = Some(Piece { sub: Sub { start: *p, segs: Vec::new(), close: false, w: vec![w0(a)] }, first_id: next_id, attrs: vec![a.clone()], opts: vec![o], kind: "path" });
                next_id += 1;
            }
            Op::Line(p, a) | Op::Quad(_, p, a) | Op::Cubic(_, _, p, a) => {
                if let Some(c) = cur.as_mut() {
                    c.sub.segs.push(match op {
                        Op::Line(..) => Seg::Line(*p),
                        Op::Quad(ct, ..) => Seg::Quad(*ct, *p),
                        Op::Cubic(c1, c2, ..) => Seg::Cubic(*c1, *c2, *p),
                        _ => unreachable!(),
                    });
                    c.sub.w.push(w0(a));
                    c.attrs.push(a.clone());
                }
                next_id += 1;
            }
            Op::End(close) => {
                if let Some(mut c) = cur.take() {
                    c.sub.close = *close;
                    c.opts.push(o);
                    out.push(c);
                }
            }
            Op::Rect(r, positive, a) => match thin_rectangle(&o, r) {
                Some((from, to, d)) => {
                    let mut t = o;
                    t.line_width += d;
                    let cap = if o.line_join == LineJoin::Round { LineCap::Round } else { LineCap::Square };
                    t.start_cap = cap;
                    t.end_cap = cap;
                    out.push(poly(&[from, to], false, a, next_id, t, "thin-rectangle"));
                    next_id += 2;
                }
                None => {
                    let c = if *positive {
                        [r.min, point(r.max.x, r.min.y), r.max, point(r.min.x, r.max.y)]
                    } else {
                        [r.min, point(r.min.x, r.max.y), r.max, point(r.max.x, r.min.y)]
                    };
                    out.push(poly(&c, true, a, next_id, o, "rectangle"));
                    next_id += 4;
                }
            },
            Op::Polygon(pts, closed, a) => {
                if !pts.is_empty() {
                    out.push(poly(pts, *closed, a, next_id, o, "polygon"));
                    next_id += pts.len() as u32;
                }
            }
            Op::Segment(p, q, a) => {
                out.push(poly(&[*p, *q], false, a, next_id, o, "segment"));
                next_id += 2;
            }
            Op::PointAt(p, a) => {
                out.push(poly(&[*p], false, a, next_id, o, "point"));
                next_id += 1;
            }
            Op::SetJoin(j) => o.line_join = *j,
            Op::SetStartCap(c) => o.start_cap = *c,
            Op::SetEndCap(c) => o.end_cap = *c,
            Op::SetMiterLimit(m) => o.miter_limit = *m,
        }
        if matches!(op, Op::SetJoin(_) | Op::SetStartCap(_) | Op::SetEndCap(_) | Op::SetMiterLimit(_)) {
            if let Some(c) = cur.as_mut() {
                c.opts.push(o);
            }
        }
    }
    out
}

/// how the geometry builder of a faulted run refuses: vertex calls `at .. at + count` (0-based) fail
#[derive(Clone, Copy, Debug)]
struct Fault {
    at: u32,
    count: u32,
    too_many: bool,
}

/// recording geometry builder of the program families: every accessor of every vertex, the sub-path
/// (`piece`) each vertex was emitted for, every triangle checked AT EMISSION TIME against the ids handed out so
/// far, and optionally a fault
struct ProgRec {
    rec: hk::Rec,
    piece_of: Vec<u32>,
    early: Vec<(u32, u32, u32, u32)>,
    cur: Rc<Cell<u32>>,
    calls: u32,
    refused: u32,
    fault: Option<Fault>,
}

impl ProgRec {
    fn new(cur: Rc<Cell<u32>>, fault: Option<Fault>) -> ProgRec {
        ProgRec { rec: hk::Rec::default(), piece_of: Vec::new(), early: Vec::new(), cur, calls: 0, refused: 0, fault }
    }
}

impl GeometryBuilder for ProgRec {
    fn add_triangle(&mut self, a: VertexId, b: VertexId, c: VertexId) {
        let n = self.rec.vertices.len() as u32;
        if a.0 >= n || b.0 >= n || c.0 >= n {
            self.early.push((a.0, b.0, c.0, n));
        }
        self.rec.triangles.push((a.0, b.0, c.0));
    }
}

impl StrokeGeometryBuilder for ProgRec {
    fn add_stroke_vertex(&mut self, mut v: StrokeVertex) -> Result<VertexId, GeometryBuilderError> {
        let k = self.calls;
        self.calls += 1;
        if let Some(f) = self.fault {
            if k >= f.at && k - f.at < f.count {
                self.refused += 1;
                return Err(if f.too_many { GeometryBuilderError::TooManyVertices } else { GeometryBuilderError::InvalidVertex });
            }
        }
        self.rec.vertices.push(hk::read_vertex(&mut v));
        self.piece_of.push(self.cur.get());
        self.rec.next_id += 1;
        Ok(VertexId(self.rec.next_id - 1))
    }
}

/// the call-history dimension on the `StrokeTessellator` OBJECT: an earlier, unrelated tessellation on the
/// same tessellator (another entry point, usually MORE custom attributes, curves, possibly a builder that was
/// refused a vertex) before the one under test.  The property quantifies over inputs and configurations, not
/// over what the tessellator did before: the output must be that of a fresh tessellator (the tie compares it
/// with the model of a fresh one).  Returns a description for the tag.
fn warm_up(tess: &mut StrokeTessellator, salt: u64) {
    let mut rng = Rng::new(salt, 1);
    let n_attr = rng.range(1, 5) as usize;
    let variable = rng.chance(1, 3);
    let mut options = StrokeOptions::tolerance(rng.uniform(0.02, 0.5) as f32).with_line_width(rng.uniform(0.5, 8.0) as f32).with_line_join(gen_join_kind(&mut rng)).with_line_cap(gen_cap(&mut rng));
    if variable {
        options = options.with_variable_line_width(0);
    }
    let inp = gen_curvy_input(&mut rng, options.line_width);
    let extra = [0.25f32, -3.0, 7.5, 11.0];
    let fault = if rng.chance(1, 4) { Some(Fault { at: rng.below(12) as u32, count: if rng.chance(1, 2) { 1 } else { u32::MAX }, too_many: rng.chance(1, 2) }) } else { None };
    let mut rec = ProgRec::new(Rc::new(Cell::new(0)), fault);
    let path = build_path(&inp, n_attr, &extra);
    let _ = match rng.below(4) {
        0 => tess.tessellate_path(&path, &options, &mut rec),
        1 => tess.tessellate_with_ids(path.id_iter(), &path, Some(&path), &options, &mut rec),
        2 => {
            let mut b = tess.builder_with_attributes(n_attr, &options, &mut rec);
            drive_builder(&mut b, &inp, n_attr, &extra);
            lyon_path::traits::Build::build(b)
        }
        _ => {
            // a builder that is dropped without build()
            let mut b = tess.builder_with_attributes(n_attr, &options, &mut rec);
            drive_builder(&mut b, &inp, n_attr, &extra);
            Ok(())
        }
    };
}

const PROG_ENTRY: [&str; 6] = ["builder", "builder_with_attributes", "tessellate_rectangle", "tessellate_circle", "tessellate_ellipse", "tessellate_polygon"];

/// the program on the real builder; `cur` is advanced after every call that completes a sub-path
fn run_program(tess: &mut StrokeTessellator, cmds: &[Cmd], options: &StrokeOptions, entry: usize, n_attr: usize, extra: &[f32], rec: &mut ProgRec) -> Result<(), lyon_tessellation::TessellationError> {
    let cur = rec.cur.clone();
    let done = |n: usize| cur.set(cur.get() + n as u32);
    // how many sub-paths a call completes
    let subpaths = |c: &Cmd| ops_of(c, n_attr, extra).iter().map(|o| match o {
        Op::End(_) | Op::Rect(..) | Op::Segment(..) | Op::PointAt(..) => 1,
        Op::Polygon(pts, ..) => (!pts.is_empty()) as usize,
        _ => 0,
    }).sum::<usize>();
    match entry {
        0 => {
            let mut b = tess.builder(options, rec);
            for c in cmds {
                match c {
                    Cmd::Begin(p, _) => {
                        b.begin(*p);
                    }
                    Cmd::Line(p, _) => {
                        b.line_to(*p);
                    }
                    Cmd::Quad(ct, p, _) => {
                        b.quadratic_bezier_to(*ct, *p);
                    }
                    Cmd::Cubic(c1, c2, p, _) => {
                        b.cubic_bezier_to(*c1, *c2, *p);
                    }
                    Cmd::End(close) => b.end(*close),
                    Cmd::Rect(r, pos, _) => b.add_rectangle(r, winding(*pos)),
                    Cmd::Polygon(pts, closed, _) => b.add_polygon(Polygon { points: &pts[..], closed: *closed }),
                    Cmd::Segment(p, q, _) => {
                        b.add_line_segment(&LineSegment { from: *p, to: *q });
                    }
                    Cmd::PointAt(p, _) => {
                        b.add_point(*p);
                    }
                    Cmd::Circle(ce, r, pos, _) => b.add_circle(*ce, *r, winding(*pos)),
                    Cmd::Ellipse(ce, r, rot, pos, _) => b.add_ellipse(*ce, *r, Angle::radians(*rot), winding(*pos)),
                    Cmd::RoundRect(bx, r, pos, _) => b.add_rounded_rectangle(bx, &radii_of(r), winding(*pos)),
                    Cmd::SetJoin(j) => b.inner_mut().set_line_join(*j),
                    Cmd::SetStartCap(cp) => b.inner_mut().set_start_cap(*cp),
                    Cmd::SetEndCap(cp) => b.inner_mut().set_end_cap(*cp),
                    Cmd::SetMiterLimit(m) => b.inner_mut().set_miter_limit(*m),
                }
                done(subpaths(c));
            }
            lyon_path::traits::Build::build(b)
        }
        1 => {
            let mut b = tess.builder_with_attributes(n_attr, options, rec);
            let at = |w: f32| -> Vec<f32> {
                let mut a = vec![w];
                a.extend_from_slice(extra);
                a.truncate(n_attr);
                a
            };
            for c in cmds {
                match c {
                    Cmd::Begin(p, w) => {
                        b.begin(*p, &at(*w));
                    }
                    Cmd::Line(p, w) => {
                        b.line_to(*p, &at(*w));
                    }
                    Cmd::Quad(ct, p, w) => {
                        b.quadratic_bezier_to(*ct, *p, &at(*w));
                    }
                    Cmd::Cubic(c1, c2, p, w) => {
                        b.cubic_bezier_to(*c1, *c2, *p, &at(*w));
                    }
                    Cmd::End(close) => b.end(*close),
                    Cmd::Rect(r, pos, w) => b.add_rectangle(r, winding(*pos), &at(*w)),
                    Cmd::Polygon(pts, closed, w) => b.add_polygon(Polygon { points: &pts[..], closed: *closed }, &at(*w)),
                    Cmd::Segment(p, q, w) => {
                        b.add_line_segment(&LineSegment { from: *p, to: *q }, &at(*w));
                    }
                    Cmd::PointAt(p, w) => {
                        b.add_point(*p, &at(*w));
                    }
                    Cmd::Circle(ce, r, pos, w) => b.add_circle(*ce, *r, winding(*pos), &at(*w)),
                    Cmd::Ellipse(ce, r, rot, pos, w) => b.add_ellipse(*ce, *r, Angle::radians(*rot), winding(*pos), &at(*w)),
                    Cmd::RoundRect(bx, r, pos, w) => b.add_rounded_rectangle(bx, &radii_of(r), winding(*pos), &at(*w)),
                    Cmd::SetJoin(j) => b.set_line_join(*j),
                    Cmd::SetStartCap(cp) => b.set_start_cap(*cp),
                    Cmd::SetEndCap(cp) => b.set_end_cap(*cp),
                    Cmd::SetMiterLimit(m) => b.set_miter_limit(*m),
                }
                done(subpaths(c));
            }
            lyon_path::traits::Build::build(b)
        }
        // the one-shot shape entry points: the program is that one call
        _ => match &cmds[0] {
            Cmd::Rect(r, _, _) => tess.tessellate_rectangle(r, options, rec),
            Cmd::Circle(ce, r, _, _) => tess.tessellate_circle(*ce, *r, options, rec),
            Cmd::Ellipse(ce, r, rot, pos, _) => tess.tessellate_ellipse(*ce, *r, Angle::radians(*rot), winding(*pos), options, rec),
            Cmd::Polygon(pts, closed, _) => tess.tessellate_polygon(Polygon { points: &pts[..], closed: *closed }, options, rec),
            _ => unreachable!(),
        },
    }
}


/// the raw sub-paths of a generated input as begin / line_to / curve / end calls; with probability 1/4 an
/// option setter is called INSIDE a sub-path
fn push_subs(rng: &mut Rng, cmds: &mut Vec<Cmd>, subs: &[Sub]) {
    for s in subs {
        cmds.push(Cmd::Begin(s.start, s.w[0]));
        for (k, g) in s.segs.iter().enumerate() {
            if rng.chance(1, 12) {
                cmds.push(gen_setter(rng));
            }
            cmds.push(match g {
                Seg::Line(p) => Cmd::Line(*p, s.w[k + 1]),
                Seg::Quad(c, p) => Cmd::Quad(*c, *p, s.w[k + 1]),
                Seg::Cubic(c1, c2, p) => Cmd::Cubic(*c1, *c2, *p, s.w[k + 1]),
            });
        }
        if rng.chance(1, 12) {
            cmds.push(gen_setter(rng));
        }
        cmds.push(Cmd::End(s.close));
    }
}

fn gen_setter(rng: &mut Rng) -> Cmd {
    match rng.below(4) {
        0 => Cmd::SetJoin(gen_join_kind(rng)),
        1 => Cmd::SetStartCap(gen_cap(rng)),
        2 => Cmd::SetEndCap(gen_cap(rng)),
        _ => Cmd::SetMiterLimit(*rng.pick(&[1.0f32, 1.2, 2.0, 4.0, 10.0])),
    }
}

/// axis-aligned boxes: ordinary, thin in one direction (around both thin-rectangle thresholds `line_width`
/// and `0.05 x line_width`), of zero thickness, tiny in both directions, a point
fn gen_box(rng: &mut Rng, width: f32, scale: f32, lattice: bool) -> Box2D<f32> {
    let c = if lattice {
        point(rng.range(-6, 6) as f32 * scale * 0.125, rng.range(-6, 6) as f32 * scale * 0.125)
    } else {
        point(rng.uniform(-1.0, 1.0) as f32 * scale, rng.uniform(-1.0, 1.0) as f32 * scale)
    };
    let long = if lattice { rng.range(1, 8) as f32 * scale * 0.125 } else { scale * rng.uniform(0.05, 1.5) as f32 };
    let thin = |rng: &mut Rng| width * *rng.pick(&[1.0f32, 0.05]) * rng.uniform(0.0, 1.25) as f32;
    let (w, h) = match rng.below(10) {
        0 | 1 | 2 => (long, thin(rng)),
        3 | 4 => (thin(rng), long),
        5 => (long, 0.0),
        6 => (thin(rng), thin(rng)),
        7 => (0.0, 0.0),
        _ => (long, if lattice { rng.range(1, 8) as f32 * scale * 0.125 } else { scale * rng.uniform(0.05, 1.5) as f32 }),
    };
    Box2D { min: c, max: point(c.x + w, c.y + h) }
}

/// a program: `n` shape-level items on one builder
fn gen_program(rng: &mut Rng, width: f32, thr: f32, variable: bool, shape_only: Option<usize>) -> Vec<Cmd> {
    let scale = match rng.below(8) {
        0 => 10f64.powf(rng.uniform(-1.0, 0.0)),
        1 => 10f64.powf(rng.uniform(2.0, 3.0)),
        _ => rng.uniform(5.0, 60.0),
    } as f32;
    let lattice = rng.chance(1, 4);
    let rp = |rng: &mut Rng| -> Point {
        if lattice {
            point(rng.range(-6, 6) as f32 * scale * 0.125, rng.range(-6, 6) as f32 * scale * 0.125)
        } else {
            point(rng.uniform(-1.0, 1.0) as f32 * scale, rng.uniform(-1.0, 1.0) as f32 * scale)
        }
    };
    let wf = |rng: &mut Rng| if variable { rng.uniform(0.3, 2.5) as f32 } else { 1.0 };
    let radius = |rng: &mut Rng| match rng.below(6) {
        0 => 0.0,
        1 => thr.sqrt() * rng.uniform(0.0, 3.0) as f32,
        2 => width * rng.uniform(0.05, 1.5) as f32,
        _ => scale * rng.uniform(0.05, 1.0) as f32,
    };
    let mut cmds = Vec::new();
    let n = if shape_only.is_some() { 1 } else { rng.range(1, 6) };
    for _ in 0..n {
        let kind = match shape_only {
            Some(2) => 5,
            Some(3) => 8,
            Some(4) => 9,
            Some(_) => 11,
            None => rng.below(17),
        };
        match kind {
            0..=4 => {
                // a generated path: its sub-paths
                let inp = match rng.below(3) {
                    0 => gen_stroke_input(rng, width * if variable { 2.5 } else { 1.0 }, thr),
                    1 => gen_curvy_input(rng, width),
                    _ => {
                        let subs = gen_polyline_subs(rng, width, thr, 1.0, lattice);
                        StrokeInput {
                            subs: subs
                                .into_iter()
                                .map(|(pts, close)| Sub { start: pts[0], segs: pts[1..].iter().map(|p| Seg::Line(*p)).collect(), close, w: pts.iter().map(|_| rng.uniform(0.3, 2.5) as f32).collect() })
                                .collect(),
                            kind: String::new(),
                            polyline: true,
                            simple: false,
                        }
                    }
                };
                let subs: Vec<Sub> = inp.subs.into_iter().map(|mut s| {
                    if !variable {
                        for w in s.w.iter_mut() {
                            *w = 1.0;
                        }
                    }
                    s
                }).collect();
                push_subs(rng, &mut cmds, &subs);
            }
            5..=7 => {
                let positive = shape_only.is_some() || rng.chance(1, 2);
                cmds.push(Cmd::Rect(gen_box(rng, width, scale, lattice), positive, wf(rng)));
            }
            8 => {
                let r = radius(rng) * if shape_only.is_none() && rng.chance(1, 6) { -1.0 } else { 1.0 };
                cmds.push(Cmd::Circle(rp(rng), r, shape_only.is_some() || rng.chance(1, 2), wf(rng)));
            }
            9 => cmds.push(Cmd::Ellipse(rp(rng), vector(radius(rng), radius(rng)), rng.uniform(-4.0, 4.0) as f32, rng.chance(1, 2), wf(rng))),
            10 => {
                let b = gen_box(rng, width, scale, lattice);
                let m = b.width().min(b.height());
                let mut r = [0.0f32; 4];
                for x in r.iter_mut() {
                    *x = match rng.below(5) {
                        0 => 0.0,
                        1 => m * rng.uniform(0.5, 2.0) as f32,
                        2 => -m * rng.uniform(0.0, 0.5) as f32,
                        _ => m * rng.uniform(0.0, 0.5) as f32,
                    };
                }
                cmds.push(Cmd::RoundRect(b, r, rng.chance(1, 2), wf(rng)));
            }
            11 => {
                let k = if shape_only.is_some() { rng.below(7) } else { rng.below(6) } as usize;
                let mut pts: Vec<Point> = Vec::new();
                for _ in 0..k {
                    let p = match (rng.below(8), pts.last()) {
                        (0, Some(l)) => *l,
                        (1, Some(l)) => *l + vector(thr.sqrt() * rng.uniform(-1.5, 1.5) as f32, thr.sqrt() * rng.uniform(-1.5, 1.5) as f32),
                        (2, Some(l)) => *l + vector(width * rng.uniform(-0.6, 0.6) as f32, width * rng.uniform(-0.6, 0.6) as f32),
                        _ => rp(rng),
                    };
                    pts.push(p);
                }
                cmds.push(Cmd::Polygon(pts, rng.chance(1, 2), wf(rng)));
            }
            12 => {
                let p = rp(rng);
                let q = match rng.below(4) {
                    0 => p,
                    1 => p + vector(thr.sqrt() * rng.uniform(-1.5, 1.5) as f32, 0.0),
                    _ => rp(rng),
                };
                cmds.push(Cmd::Segment(p, q, wf(rng)));
            }
            13 => cmds.push(Cmd::PointAt(rp(rng), wf(rng))),
            _ => cmds.push(gen_setter(rng)),
        }
    }
    cmds
}

/// everything a program case needs
struct ProgInput {
    cmds: Vec<Cmd>,
    options: StrokeOptions,
    entry: usize,
    n_attr: usize,
    extra: [f32; 2],
    ops: Vec<Op>,
    pieces: Vec<Piece>,
}

fn gen_prog_input(rng: &mut Rng) -> ProgInput {
    let width = match rng.below(8) {
        0 => 10f64.powf(rng.uniform(-2.0, -0.5)),
        1 => 10f64.powf(rng.uniform(1.3, 2.5)),
        _ => rng.uniform(0.2, 12.0),
    } as f32;
    let tol = match rng.below(6) {
        0 => 10f64.powf(rng.uniform(-3.0, -1.5)),
        1 => rng.uniform(0.5, 3.0),
        _ => rng.uniform(0.02, 0.4),
    } as f32;
    let limit = *rng.pick(&[1.0f32, 1.2, 2.0, 4.0, 4.0, 10.0, 50.0]);
    let join = gen_join_kind(rng);
    let (sc, ec) = (gen_cap(rng), gen_cap(rng));
    let entry = match rng.below(10) {
        0..=3 => 0,
        4..=7 => 1,
        _ => 2 + rng.below(4) as usize,
    };
    let variable = entry == 1 && rng.chance(2, 5);
    let n_attr = if entry == 1 { rng.range(1, 3) as usize } else { 0 };
    let mut options = StrokeOptions::tolerance(tol).with_line_width(width).with_line_join(join).with_start_cap(sc).with_end_cap(ec).with_miter_limit(limit);
    if variable {
        options = options.with_variable_line_width(0);
    }
    let thr = (tol * tol * 0.5).min(width * width * 0.05).max(1e-8f32);
    let cmds = gen_program(rng, width, thr, variable, if entry >= 2 { Some(entry) } else { None });
    let extra = [rng.uniform(-5.0, 5.0) as f32, rng.uniform(-5.0, 5.0) as f32];
    let ops: Vec<Op> = cmds.iter().flat_map(|c| ops_of(c, n_attr, &extra)).collect();
    let pieces = pieces_of(&ops, &options);
    ProgInput { cmds, options, entry, n_attr, extra, ops, pieces }
}

fn prog_args(pi: &ProgInput) -> Out {
    let o = &pi.options;
    let mut args = Out::new();
    args.f(o.tolerance).f(o.line_width).f(o.miter_limit).t(join_name(o.line_join)).t(cap_name(o.start_cap)).t(cap_name(o.end_cap));
    args.b(o.variable_line_width.is_some()).u(pi.n_attr as u64).u(pi.ops.len() as u64);
    put_ops(&mut args, &pi.ops);
    args.t(PROG_ENTRY[pi.entry]);
    args
}

fn prog_tag(family: &str, pi: &ProgInput) -> String {
    let mut kinds: Vec<&str> = pi.pieces.iter().map(|p| p.kind).collect();
    kinds.dedup();
    let thin_then_join = pi.pieces.windows(2).any(|w| w[0].kind == "thin-rectangle" && w[1].kind != "thin-rectangle" && w[1].sub.segs.len() >= 2);
    format!(
        "{} {} {} {} subpaths={} setters={} [{}]{}{}",
        family,
        PROG_ENTRY[pi.entry],
        join_name(pi.options.line_join),
        if pi.options.variable_line_width.is_some() { "variable" } else { "fixed" },
        pi.pieces.len(),
        pi.ops.iter().filter(|o| matches!(o, Op::SetJoin(_) | Op::SetStartCap(_) | Op::SetEndCap(_) | Op::SetMiterLimit(_))).count(),
        kinds.join(","),
        if thin_then_join { " thin-then-joins" } else { "" },
        if pi.pieces.is_empty() { " trivial" } else { "" }
    )
}

fn to_recv(v: &hk::Vtx) -> RecV {
    RecV { position: v.position, normal: v.normal, pop: v.position_on_path, line_width: v.line_width, advancement: v.advancement, side: v.side, source: v.source, attrs: v.attributes.clone() }
}

fn piece_input(p: &Piece) -> StrokeInput {
    StrokeInput { subs: vec![p.sub.clone()], kind: p.kind.to_string(), polyline: p.sub.segs.iter().all(|g| matches!(g, Seg::Line(_))), simple: false }
}

/// the per-vertex clauses, sub-path by sub-path, each against the options in force for it
fn check_pieces(orc: &mut Oracle, pi: &ProgInput, rec: &ProgRec) {
    let o = &pi.options;
    let thr = (o.tolerance * o.tolerance * 0.5).min(o.line_width * o.line_width * 0.05).max(1e-8f32);
    let inputs: Vec<StrokeInput> = pi.pieces.iter().map(piece_input).collect();
    let polys: Vec<Vec<Vec<(f64, f64)>>> = inputs.iter().map(|i| flatten64(i, 0.02 * o.tolerance as f64)).collect();
    let total_len: f64 = polys.iter().map(|p| polys_length(p)).sum();
    let scale = polys.iter().flatten().flatten().fold(1.0f64, |m, p| m.max(p.0.abs()).max(p.1.abs()));
    let n_curves = pi.pieces.iter().flat_map(|p| p.sub.segs.iter()).filter(|g| !matches!(g, Seg::Line(_))).count();
    let nv = rec.rec.vertices.len();
    orc.check(rec.piece_of.iter().all(|k| (*k as usize) < pi.pieces.len()), "prog/vertex-within-subpath", "generic", || {
        format!("a vertex was emitted after the last sub-path ended ({} sub-paths)", pi.pieces.len())
    });
    let mut k0 = 0usize;
    while k0 < nv && !orc.failed() {
        let pk = rec.piece_of[k0] as usize;
        let mut k1 = k0;
        while k1 < nv && rec.piece_of[k1] as usize == pk {
            k1 += 1;
        }
        if pk >= pi.pieces.len() {
            break;
        }
        let piece = &pi.pieces[pk];
        let vs: Vec<RecV> = rec.rec.vertices[k0..k1].iter().map(to_recv).collect();
        let mut endpoint_pos: std::collections::BTreeMap<u32, Point> = std::collections::BTreeMap::new();
        let mut edges: Vec<(u32, u32, Vec<Point>)> = Vec::new();
        let mut id = piece.first_id;
        endpoint_pos.insert(id, piece.sub.start);
        let mut prev = (id, piece.sub.start);
        id += 1;
        for g in &piece.sub.segs {
            endpoint_pos.insert(id, g.to());
            let ctrl = match g {
                Seg::Line(p) => vec![prev.1, *p],
                Seg::Quad(c, p) => vec![prev.1, *c, *p],
                Seg::Cubic(c1, c2, p) => vec![prev.1, *c1, *c2, *p],
            };
            edges.push((prev.0, id, ctrl));
            prev = (id, g.to());
            id += 1;
        }
        // the options at the sub-path's end (its caps), the widest reach of any record in force while it was built
        let mut eff = *piece.opts.last().unwrap();
        for x in &piece.opts {
            for y in &piece.opts {
                let mut z = *x;
                z.miter_limit = y.miter_limit;
                // the witness class of finding C05-miter-clip-unscaled-fallback, whichever record made the join
                if miter_clip_below_resolution(&inputs[pk], &z) {
                    eff.line_join = LineJoin::MiterClip;
                    eff.miter_limit = z.miter_limit;
                }
            }
        }
        // (an endpoint keeps the join kind in force when it was created, the miter limit is read when its join is
        // computed - for the first point of a closed sub-path that is in close(): every combination of a record's
        // join / caps with another record's miter limit can occur)
        let mut factor = 0.0f64;
        for x in &piece.opts {
            for y in &piece.opts {
                let mut z = *x;
                z.miter_limit = y.miter_limit;
                factor = factor.max(reach_factor(&z, inputs[pk].polyline, false));
            }
        }
        let max_w = piece.sub.w.iter().fold(0.0f32, |m, w| m.max(*w));
        check_vertices(
            orc,
            &vs,
            &VCheck {
                inp: &inputs[pk],
                options: &eff,
                factor,
                endpoint_pos: &endpoint_pos,
                edges: &edges,
                polys: &polys[pk],
                total_len,
                scale,
                max_w,
                n_curves,
                thr,
                attrs_len: pi.n_attr,
                index0: k0,
            },
        );
        // every vertex reports the attributes of its source
        if pi.n_attr > 0 && !orc.failed() {
            let whole = StrokeInput { subs: pi.pieces.iter().map(|p| p.sub.clone()).collect(), kind: String::new(), polyline: false, simple: false };
            let class = if degenerate_subpath_after_curve(&whole, thr) { "degenerate-subpath-after-curve" } else { "generic" };
            let get = |id: EndpointId| (id.0 >= piece.first_id).then(|| piece.attrs.get((id.0 - piece.first_id) as usize).cloned()).flatten();
            for (k, v) in rec.rec.vertices[k0..k1].iter().enumerate() {
                let expect: Option<Vec<f32>> = match v.source {
                    VertexSource::Endpoint { id } => get(id),
                    VertexSource::Edge { from, to, t } => match (get(from), get(to)) {
                        (Some(a), Some(b)) => Some(a.iter().zip(b.iter()).map(|(x, y)| x * (1.0 - t) + y * t).collect()),
                        _ => None,
                    },
                };
                let ok = match &expect {
                    Some(e) => e.len() == v.attributes.len() && e.iter().zip(v.attributes.iter()).all(|(x, y)| x == y || ulp_close(*x, *y, 2.0)),
                    None => false,
                };
                orc.check(ok, "fulle/attributes-match-source", class, || format!("vertex {} source {:?}: interpolated_attributes {:?}, expected {:?}", k0 + k, v.source, v.attributes, expect));
            }
        }
        k0 = k1;
    }
}

/// the id clauses on whatever a (possibly faulted) run emitted
fn check_emitted_ids(orc: &mut Oracle, site: &str, rec: &ProgRec, what: &str) {
    let nv = rec.rec.vertices.len() as u32;
    for t in &rec.rec.triangles {
        orc.check(tris_distinct(t), &format!("{}/distinct-ids", site), "generic", || format!("{}: {:?}", what, t));
        orc.check(t.0 < nv && t.1 < nv && t.2 < nv, &format!("{}/valid-ids", site), "generic", || format!("{}: {:?} of {}", what, t, nv));
    }
    orc.check(rec.early.is_empty(), &format!("{}/ids-valid-when-emitted", site), "generic", || {
        format!("{}: (a, b, c, ids handed out so far) {:?}", what, &rec.early[..rec.early.len().min(4)])
    });
}

fn prog_case(ctx: &mut Ctx) {
    ctx.case("prog:32", |rng| {
        let pi = gen_prog_input(rng);
        let mut args = prog_args(&pi);
        let salt = rng.next();
        let reused = salt % 3 == 0;
        if reused {
            args.t("reused-tessellator");
        }
        let tag = format!("{}{}", prog_tag("prog", &pi), if reused { " reused-tessellator" } else { "" });
        (args, tag, move || {
            let mut tess = StrokeTessellator::new();
            if reused {
                warm_up(&mut tess, salt);
            }
            let mut rec = ProgRec::new(Rc::new(Cell::new(0)), None);
            let res = run_program(&mut tess, &pi.cmds, &pi.options, pi.entry, pi.n_attr, &pi.extra, &mut rec);
            let mut o = Out::new();
            let mut orc = Oracle::new();
            orc.check(res.is_ok(), "prog/ok", "generic", || format!("{:?}", res));
            put_full(&mut o, &rec.rec, true);
            check_emitted_ids(&mut orc, "prog", &rec, "program");
            if !orc.failed() {
                check_pieces(&mut orc, &pi, &rec);
            }
            CaseOut { imp: o, orcl: orc.verdict }
        })
    });
}

/// a plain path through the iterator entry points with a given geometry builder
fn run_plain(tess: &mut StrokeTessellator, inp: &StrokeInput, options: &StrokeOptions, entry: usize, n_attr: usize, extra: &[f32], rec: &mut ProgRec) -> Result<(), lyon_tessellation::TessellationError> {
    let path = build_path(inp, n_attr, extra);
    match entry {
        0 => tess.tessellate_path(&path, options, rec),
        1 => tess.tessellate(path.iter(), options, rec),
        _ => tess.tessellate_with_ids(path.id_iter(), &path, Some(&path), options, rec),
    }
}

fn progf_case(ctx: &mut Ctx) {
    ctx.case("progf", |rng| {
        // a program on the builder interface / a one-shot shape, or a plain path through tessellate*
        let plain = rng.chance(1, 3);
        let pi = gen_prog_input(rng);
        let plain_entry = rng.below(3) as usize;
        let variable = pi.options.variable_line_width.is_some();
        let plain_n_attr = if variable { pi.n_attr.max(1) } else if plain_entry == 1 { 0 } else { rng.below(3) as usize };
        let mut options = pi.options;
        if plain && plain_entry == 1 {
            options.variable_line_width = None;
        }
        let plain_inp = StrokeInput { subs: pi.pieces.iter().map(|p| p.sub.clone()).collect(), kind: String::new(), polyline: false, simple: false };
        let mut args = prog_args(&pi);
        let salt = rng.next();
        if plain {
            args.t(ENTRY[plain_entry]).u(plain_n_attr as u64);
        }
        let tag = format!(
            "{}{}",
            if plain { format!("progf plain {} {} subpaths={}", ENTRY[plain_entry], join_name(options.line_join), plain_inp.subs.len()) } else { prog_tag("progf", &pi) },
            if salt % 3 == 0 { " reused-tessellator" } else { "" }
        );
        if salt % 3 == 0 {
            args.t("reused-tessellator");
        }
        (args, tag, move || {
            let run = |fault: Option<Fault>| -> Option<(ProgRec, bool)> {
                vh::guarded(|| {
                    let mut tess = StrokeTessellator::new();
                    if salt % 3 == 0 {
                        warm_up(&mut tess, salt);
                    }
                    let mut rec = ProgRec::new(Rc::new(Cell::new(0)), fault);
                    let res = if plain {
                        run_plain(&mut tess, &plain_inp, &options, plain_entry, plain_n_attr, &pi.extra, &mut rec)
                    } else {
                        run_program(&mut tess, &pi.cmds, &pi.options, pi.entry, pi.n_attr, &pi.extra, &mut rec)
                    };
                    (rec, res.is_ok())
                })
            };
            let mut o = Out::new();
            let mut orc = Oracle::new();
            let n = match run(None) {
                Some((rec, ok)) => {
                    orc.check(ok, "progf/ok", "generic", || "the un-faulted run fails".to_string());
                    check_emitted_ids(&mut orc, "progf", &rec, "no fault");
                    rec.calls
                }
                None => {
                    orc.check(false, "progf/no-panic", "generic", || "the un-faulted run panics".to_string());
                    0
                }
            };
            o.t("vertices").u(n as u64);
            // every k below 64, a sample beyond; for each k: refuse once, twice, from then on
            let mut r = Rng::new(salt, 0);
            let mut ks: Vec<u32> = (0..n.min(64)).collect();
            for _ in 0..8 {
                if n > 64 {
                    ks.push(64 + r.below((n - 64) as u64) as u32);
                }
            }
            let mut runs = 0u64;
            for k in ks {
                for count in [1u32, 2, u32::MAX] {
                    if orc.failed() {
                        break;
                    }
                    let fault = Fault { at: k, count, too_many: r.chance(1, 2) };
                    runs += 1;
                    let what = format!("vertex calls {}..{} refused with {}", k, if count == u32::MAX { "".to_string() } else { format!("{}", k + count) }, if fault.too_many { "TooManyVertices" } else { "InvalidVertex" });
                    match run(Some(fault)) {
                        Some((rec, _)) => check_emitted_ids(&mut orc, "progf", &rec, &what),
                        None => orc.check(false, "progf/no-panic", "generic", || what.clone()),
                    }
                }
            }
            o.t("runs").u(runs);
            CaseOut { imp: o, orcl: orc.verdict }
        })
    });
}

fn main() {
    let mut ctx = Ctx::from_args("C05");
    // PointBuffer: every operation sequence up to length L over {push, replace_last, clear}
    let l = ctx.n(6, 8);
    for len in 1..=l {
        for code in 0..3u32.pow(len as u32) {
            let mut c = code;
            let ops: Vec<u8> = (0..len).map(|_| {
                let o = (c % 3) as u8;
                c /= 3;
                o
            }).collect();
            pbuf_case(&mut ctx, Some(ops));
        }
    }
    for _ in 0..ctx.n(300, 20000) {
        pbuf_case(&mut ctx, None);
    }
    for _ in 0..ctx.n(1500, 60000) {
        cn_case(&mut ctx);
    }
    for _ in 0..ctx.n(300, 10000) {
        cfs_case(&mut ctx);
    }
    for _ in 0..ctx.n(600, 20000) {
        vtx_case(&mut ctx);
    }
    for _ in 0..ctx.n(1500, 60000) {
        win_case(&mut ctx);
    }
    for _ in 0..ctx.n(2000, 60000) {
        edge_case(&mut ctx);
    }
    for _ in 0..ctx.n(1200, 40000) {
        join_case(&mut ctx);
    }
    for _ in 0..ctx.n(600, 20000) {
        arc_case(&mut ctx);
    }
    for _ in 0..ctx.n(600, 20000) {
        cap_case(&mut ctx);
    }
    for _ in 0..ctx.n(300, 10000) {
        ecap_case(&mut ctx);
    }
    for _ in 0..ctx.n(6000, 250000) {
        stroke_case(&mut ctx);
    }
    for _ in 0..ctx.n(3000, 100000) {
        poly_case(&mut ctx);
    }
    for _ in 0..ctx.n(4000, 150000) {
        full_case(&mut ctx);
    }
    for _ in 0..ctx.n(5000, 200000) {
        fulle_case(&mut ctx);
    }
    for _ in 0..ctx.n(400, 10000) {
        tinyw_case(&mut ctx);
    }
    for _ in 0..ctx.n(4000, 150000) {
        prog_case(&mut ctx);
    }
    for _ in 0..ctx.n(1200, 40000) {
        progf_case(&mut ctx);
    }
    ctx.finish();
}
