//! C14 — every view of a stored path tells the same story, safely.
//!
//! Families: `path` (both `Path` builders, all views, reversal, first/last endpoint),
//! `concat` (`extend_from_paths`), `buffer` (`PathBuffer` with both builders), `cmds`
//! (`PathCommands` with external stores, random access by event id), `polygon`
//! (`Polygon`, `IdPolygon`, `FromPolyline`).
//!
//! Coordinates and attributes are integer-valued `f32`, printed as integers, so every payload is
//! exact.  IMPL prints every view as an event list (the Lean model prints the same);
//! ORCL compares the views of the REAL implementation with each other and with the
//! specification events computed by an independent reference interpreter of the program.

use lyon_path::commands::PathCommands;
use lyon_path::iterator::FromPolyline;
use lyon_path::math::{point, Point, Translation};
use lyon_path::path_buffer::PathBuffer;
use lyon_path::polygon::{IdPolygon, Polygon};
use lyon_path::{ControlPointId, EndpointId, Event, EventId, IdEvent, Path, PathEvent, PathSlice};
use vh::{CaseOut, Ctx, Oracle, Out, Rng};

type P = (i32, i32);

#[derive(Clone, Debug)]
enum Op {
    B(P, Vec<i32>),
    L(P, Vec<i32>),
    Q(P, P, Vec<i32>),
    C(P, P, P, Vec<i32>),
    E(bool),
}

fn pt(p: &P) -> Point {
    point(p.0 as f32, p.1 as f32)
}
fn fa(a: &[i32]) -> Vec<f32> {
    a.iter().map(|v| *v as f32).collect()
}

// ---------------------------------------------------------------------------------------------
// canonical events

/// a point of an event: position and (for endpoints of attribute-carrying views) attributes
#[derive(Clone, Debug, PartialEq)]
struct Cp {
    p: (f32, f32),
    a: Option<Vec<f32>>,
}

#[derive(Clone, Debug, PartialEq)]
struct Ce {
    k: char,
    pts: Vec<Cp>,
    close: bool,
}

#[derive(Clone, Debug, PartialEq)]
struct Ie {
    k: char,
    ids: Vec<u32>,
    close: bool,
}

fn cp(p: Point) -> Cp {
    Cp { p: (p.x, p.y), a: None }
}
fn cpa(p: &(Point, &[f32])) -> Cp {
    Cp { p: (p.0.x, p.0.y), a: Some(p.1.to_vec()) }
}

fn ce_gen<E, C>(e: &Event<E, C>, fe: &dyn Fn(&E) -> Cp, fc: &dyn Fn(&C) -> Cp) -> Ce {
    match e {
        Event::Begin { at } => Ce { k: 'B', pts: vec![fe(at)], close: false },
        Event::Line { from, to } => Ce { k: 'L', pts: vec![fe(from), fe(to)], close: false },
        Event::Quadratic { from, ctrl, to } => Ce { k: 'Q', pts: vec![fe(from), fc(ctrl), fe(to)], close: false },
        Event::Cubic { from, ctrl1, ctrl2, to } => Ce { k: 'C', pts: vec![fe(from), fc(ctrl1), fc(ctrl2), fe(to)], close: false },
        Event::End { last, first, close } => Ce { k: 'E', pts: vec![fe(last), fe(first)], close: *close },
    }
}

fn ce_path(e: &PathEvent) -> Ce {
    ce_gen(e, &|p| cp(*p), &|p| cp(*p))
}
fn ce_attr(e: &Event<(Point, &[f32]), Point>) -> Ce {
    ce_gen(e, &|p| cpa(p), &|p| cp(*p))
}
fn ie(e: &IdEvent) -> Ie {
    match e {
        Event::Begin { at } => Ie { k: 'B', ids: vec![at.0], close: false },
        Event::Line { from, to } => Ie { k: 'L', ids: vec![from.0, to.0], close: false },
        Event::Quadratic { from, ctrl, to } => Ie { k: 'Q', ids: vec![from.0, ctrl.0, to.0], close: false },
        Event::Cubic { from, ctrl1, ctrl2, to } => Ie { k: 'C', ids: vec![from.0, ctrl1.0, ctrl2.0, to.0], close: false },
        Event::End { last, first, close } => Ie { k: 'E', ids: vec![last.0, first.0], close: *close },
    }
}

fn strip(evs: &[Ce]) -> Vec<Ce> {
    evs.iter()
        .map(|e| Ce { k: e.k, pts: e.pts.iter().map(|p| Cp { p: p.p, a: None }).collect(), close: e.close })
        .collect()
}

fn put_f(o: &mut Out, x: f32) {
    if x.is_finite() && x.fract() == 0.0 && x.abs() < 1e9 {
        o.i(x as i64);
    } else {
        o.t(&format!("f{:08x}", x.to_bits()));
    }
}
fn put_ce(o: &mut Out, e: &Ce) {
    o.t(&e.k.to_string());
    for p in &e.pts {
        put_f(o, p.p.0);
        put_f(o, p.p.1);
        if let Some(a) = &p.a {
            for v in a {
                put_f(o, *v);
            }
        }
    }
    if e.k == 'E' {
        o.b(e.close);
    }
}
fn put_ces(o: &mut Out, label: &str, evs: &[Ce]) {
    o.t(label);
    for e in evs {
        put_ce(o, e);
    }
}
fn put_ie(o: &mut Out, e: &Ie) {
    o.t(&e.k.to_string());
    for i in &e.ids {
        o.u(*i as u64);
    }
    if e.k == 'E' {
        o.b(e.close);
    }
}
fn put_ies(o: &mut Out, label: &str, evs: &[Ie]) {
    o.t(label);
    for e in evs {
        put_ie(o, e);
    }
}

// ---------------------------------------------------------------------------------------------
// independent reference: specification events of a program, well-formedness, reversal

/// events denoted by a (well-nested) program; endpoints carry their attributes
fn spec_events(prog: &[Op]) -> Vec<Ce> {
    let e = |p: &P, a: &Vec<i32>| Cp { p: (p.0 as f32, p.1 as f32), a: Some(fa(a)) };
    let c = |p: &P| Cp { p: (p.0 as f32, p.1 as f32), a: None };
    let mut out = Vec::new();
    let mut first: Option<Cp> = None;
    let mut cur: Option<Cp> = None;
    for op in prog {
        match op {
            Op::B(p, a) => {
                let x = e(p, a);
                first = Some(x.clone());
                cur = Some(x.clone());
                out.push(Ce { k: 'B', pts: vec![x], close: false });
            }
            Op::L(p, a) => {
                let x = e(p, a);
                out.push(Ce { k: 'L', pts: vec![cur.clone().unwrap(), x.clone()], close: false });
                cur = Some(x);
            }
            Op::Q(k, p, a) => {
                let x = e(p, a);
                out.push(Ce { k: 'Q', pts: vec![cur.clone().unwrap(), c(k), x.clone()], close: false });
                cur = Some(x);
            }
            Op::C(k1, k2, p, a) => {
                let x = e(p, a);
                out.push(Ce { k: 'C', pts: vec![cur.clone().unwrap(), c(k1), c(k2), x.clone()], close: false });
                cur = Some(x);
            }
            Op::E(cl) => {
                out.push(Ce { k: 'E', pts: vec![cur.clone().unwrap(), first.clone().unwrap()], close: *cl });
                first = None;
                cur = None;
            }
        }
    }
    out
}

/// each sub-path is Begin, edges, End; each edge starts where the previous ended; End names the
/// last point and the sub-path's first point (positions and, where present, attributes)
fn well_formed(evs: &[Ce]) -> Result<(), String> {
    let mut st: Option<(Cp, Cp)> = None; // (first, current)
    for (i, e) in evs.iter().enumerate() {
        match (e.k, &st) {
            ('B', None) => st = Some((e.pts[0].clone(), e.pts[0].clone())),
            ('L', Some((f, c))) | ('Q', Some((f, c))) | ('C', Some((f, c))) => {
                if e.pts[0] != *c {
                    return Err(format!("event {} does not start where the previous one ended", i));
                }
                st = Some((f.clone(), e.pts.last().unwrap().clone()));
            }
            ('E', Some((f, c))) => {
                if e.pts[0] != *c {
                    return Err(format!("End {} does not name the last point", i));
                }
                if e.pts[1] != *f {
                    return Err(format!("End {} does not name the sub-path's first point", i));
                }
                st = None;
            }
            _ => return Err(format!("event {} ({}) out of place", i, e.k)),
        }
    }
    if st.is_some() {
        return Err("last sub-path has no End".to_string());
    }
    Ok(())
}

/// the reversed path: sub-paths in reverse order, each traversed backwards
fn spec_reversed(evs: &[Ce]) -> Vec<Ce> {
    let mut subs: Vec<Vec<Ce>> = Vec::new();
    for e in evs {
        if e.k == 'B' {
            subs.push(Vec::new());
        }
        subs.last_mut().unwrap().push(e.clone());
    }
    let mut out = Vec::new();
    for sub in subs.iter().rev() {
        let end = sub.last().unwrap();
        let last = end.pts[0].clone();
        let first = end.pts[1].clone();
        out.push(Ce { k: 'B', pts: vec![last.clone()], close: false });
        for e in sub[1..sub.len() - 1].iter().rev() {
            let mut pts = e.pts.clone();
            pts.reverse();
            out.push(Ce { k: e.k, pts, close: false });
        }
        out.push(Ce { k: 'E', pts: vec![first, last], close: end.close });
    }
    out
}

fn first_diff<T: PartialEq + std::fmt::Debug>(a: &[T], b: &[T]) -> String {
    for i in 0..a.len().max(b.len()) {
        if a.get(i) != b.get(i) {
            return format!("at event {}: {:?} vs {:?}", i, a.get(i), b.get(i)).chars().take(300).collect();
        }
    }
    "equal".to_string()
}

// ---------------------------------------------------------------------------------------------
// generators

fn gen_coord(rng: &mut Rng) -> i32 {
    if rng.chance(1, 8) {
        rng.range(-1000, 1000) as i32
    } else {
        rng.range(-3, 3) as i32
    }
}
fn gen_pt(rng: &mut Rng) -> P {
    (gen_coord(rng), gen_coord(rng))
}
fn gen_attrs(rng: &mut Rng, n: usize) -> Vec<i32> {
    (0..n).map(|_| rng.range(-9, 99) as i32).collect()
}

/// a random well-nested program with `n` attributes per endpoint
fn gen_prog(rng: &mut Rng, n: usize, max_sub: u64) -> Vec<Op> {
    let mut prog = Vec::new();
    let subs = rng.below(max_sub + 1);
    for _ in 0..subs {
        prog.push(Op::B(gen_pt(rng), gen_attrs(rng, n)));
        let edges = if rng.chance(1, 4) { 0 } else { rng.range(1, 5) };
        for _ in 0..edges {
            match rng.below(4) {
                0 | 1 => prog.push(Op::L(gen_pt(rng), gen_attrs(rng, n))),
                2 => prog.push(Op::Q(gen_pt(rng), gen_pt(rng), gen_attrs(rng, n))),
                _ => prog.push(Op::C(gen_pt(rng), gen_pt(rng), gen_pt(rng), gen_attrs(rng, n))),
            }
        }
        prog.push(Op::E(rng.chance(1, 2)));
    }
    prog
}

fn put_p(o: &mut Out, p: &P) {
    o.i(p.0 as i64).i(p.1 as i64);
}
fn put_a(o: &mut Out, a: &[i32]) {
    for v in a {
        o.i(*v as i64);
    }
}
fn put_prog(o: &mut Out, prog: &[Op]) {
    for op in prog {
        match op {
            Op::B(p, a) => {
                o.t("B");
                put_p(o, p);
                put_a(o, a);
            }
            Op::L(p, a) => {
                o.t("L");
                put_p(o, p);
                put_a(o, a);
            }
            Op::Q(c, p, a) => {
                o.t("Q");
                put_p(o, c);
                put_p(o, p);
                put_a(o, a);
            }
            Op::C(c1, c2, p, a) => {
                o.t("C");
                put_p(o, c1);
                put_p(o, c2);
                put_p(o, p);
                put_a(o, a);
            }
            Op::E(c) => {
                o.t("E").b(*c);
            }
        }
    }
    o.t(";");
}

fn prog_tag(prog: &[Op]) -> String {
    let subs = prog.iter().filter(|o| matches!(o, Op::B(..))).count();
    let curves = prog.iter().any(|o| matches!(o, Op::Q(..) | Op::C(..)));
    let closes = prog.iter().any(|o| matches!(o, Op::E(true)));
    let mut single = false;
    for w in prog.windows(2) {
        if matches!(w[0], Op::B(..)) && matches!(w[1], Op::E(_)) {
            single = true;
        }
    }
    format!(
        "s{} e{}{}{}{}{}",
        subs.min(4),
        (prog.len() - 2 * subs).min(9),
        if curves { " curves" } else { "" },
        if closes { " close" } else { "" },
        if single { " single-point" } else { "" },
        if prog.is_empty() { " trivial" } else { "" }
    )
}

// ---------------------------------------------------------------------------------------------
// driving the real builders

trait AnyBuilder {
    fn b(&mut self, p: &P, a: &[i32]) -> u32;
    fn l(&mut self, p: &P, a: &[i32]) -> u32;
    fn q(&mut self, c: &P, p: &P, a: &[i32]) -> u32;
    fn c(&mut self, c1: &P, c2: &P, p: &P, a: &[i32]) -> u32;
    fn e(&mut self, close: bool);
}

macro_rules! impl_plain {
    ($t:ty) => {
        impl AnyBuilder for $t {
            fn b(&mut self, p: &P, _a: &[i32]) -> u32 {
                self.begin(pt(p)).0
            }
            fn l(&mut self, p: &P, _a: &[i32]) -> u32 {
                self.line_to(pt(p)).0
            }
            fn q(&mut self, c: &P, p: &P, _a: &[i32]) -> u32 {
                self.quadratic_bezier_to(pt(c), pt(p)).0
            }
            fn c(&mut self, c1: &P, c2: &P, p: &P, _a: &[i32]) -> u32 {
                self.cubic_bezier_to(pt(c1), pt(c2), pt(p)).0
            }
            fn e(&mut self, close: bool) {
                self.end(close)
            }
        }
    };
}
macro_rules! impl_attr {
    ($t:ty) => {
        impl AnyBuilder for $t {
            fn b(&mut self, p: &P, a: &[i32]) -> u32 {
                self.begin(pt(p), &fa(a)).0
            }
            fn l(&mut self, p: &P, a: &[i32]) -> u32 {
                self.line_to(pt(p), &fa(a)).0
            }
            fn q(&mut self, c: &P, p: &P, a: &[i32]) -> u32 {
                self.quadratic_bezier_to(pt(c), pt(p), &fa(a)).0
            }
            fn c(&mut self, c1: &P, c2: &P, p: &P, a: &[i32]) -> u32 {
                self.cubic_bezier_to(pt(c1), pt(c2), pt(p), &fa(a)).0
            }
            fn e(&mut self, close: bool) {
                self.end(close)
            }
        }
    };
}
impl_plain!(lyon_path::path::Builder);
impl_attr!(lyon_path::path::BuilderWithAttributes);
impl_plain!(lyon_path::path_buffer::Builder<'_>);
impl_attr!(lyon_path::path_buffer::BuilderWithAttributes<'_>);

fn run_prog<B: AnyBuilder>(b: &mut B, prog: &[Op]) -> Vec<u32> {
    let mut ids = Vec::new();
    for op in prog {
        match op {
            Op::B(p, a) => ids.push(b.b(p, a)),
            Op::L(p, a) => ids.push(b.l(p, a)),
            Op::Q(c, p, a) => ids.push(b.q(c, p, a)),
            Op::C(c1, c2, p, a) => ids.push(b.c(c1, c2, p, a)),
            Op::E(c) => b.e(*c),
        }
    }
    ids
}

fn build_path(plain: bool, n: usize, prog: &[Op]) -> (Path, Vec<u32>) {
    if plain {
        let mut b = Path::builder();
        let ids = run_prog(&mut b, prog);
        (b.build(), ids)
    } else {
        let mut b = Path::builder_with_attributes(n);
        let ids = run_prog(&mut b, prog);
        (b.build(), ids)
    }
}

/// the endpoints (position, attributes) a program hands to the builder, in call order
fn prog_endpoints(prog: &[Op]) -> Vec<(P, Vec<i32>)> {
    prog.iter()
        .filter_map(|o| match o {
            Op::B(p, a) | Op::L(p, a) | Op::Q(_, p, a) | Op::C(_, _, p, a) => Some((*p, a.clone())),
            Op::E(_) => None,
        })
        .collect()
}

struct Views {
    iter: Vec<Ce>,
    idit: Vec<Ie>,
    attr: Vec<Ce>,
    res: Vec<Ce>,
    resa: Vec<Ce>,
}

/// every forward view of a `Path` or a `PathSlice` (both have the same inherent methods)
macro_rules! views {
    ($p:expr) => {{
        let p = $p;
        let idevs: Vec<IdEvent> = p.id_iter().collect();
        Views {
            iter: p.iter().map(|e| ce_path(&e)).collect(),
            idit: idevs.iter().map(ie).collect(),
            attr: p.iter_with_attributes().map(|e| ce_attr(&e)).collect(),
            res: idevs.iter().map(|e| ce_gen(e, &|id: &EndpointId| cp(p[*id]), &|id: &ControlPointId| cp(p[*id]))).collect(),
            resa: idevs
                .iter()
                .map(|e| {
                    ce_gen(
                        e,
                        &|id: &EndpointId| Cp { p: (p[*id].x, p[*id].y), a: Some(p.attributes(*id).to_vec()) },
                        &|id: &ControlPointId| cp(p[*id]),
                    )
                })
                .collect(),
        }
    }};
}

fn put_views(o: &mut Out, v: &Views) {
    put_ces(o, "iter", &v.iter);
    put_ies(o, "idit", &v.idit);
    put_ces(o, "attr", &v.attr);
    put_ces(o, "res", &v.res);
    put_ces(o, "resa", &v.resa);
}

/// the forward views agree with the specification and with each other; returns the first
/// failing sub-clause
fn views_failure(v: &Views, spec: &[Ce]) -> Option<(&'static str, String)> {
    let spec_pos = strip(spec);
    if v.iter != spec_pos {
        return Some(("iter/spec", first_diff(&v.iter, &spec_pos)));
    }
    if let Err(e) = well_formed(&v.iter) {
        return Some(("iter/well-formed", e));
    }
    if v.res != v.iter {
        return Some(("id_iter/resolves", first_diff(&v.res, &v.iter)));
    }
    if v.attr != spec {
        return Some(("iter_with_attributes/spec", first_diff(&v.attr, spec)));
    }
    if let Err(e) = well_formed(&v.attr) {
        return Some(("iter_with_attributes/well-formed", e));
    }
    if v.resa != v.attr {
        return Some(("attributes/by-id", first_diff(&v.resa, &v.attr)));
    }
    None
}

fn check_views(orc: &mut Oracle, site: &str, v: &Views, spec: &[Ce]) {
    if let Some((sub, detail)) = views_failure(v, spec) {
        orc.check(false, &format!("{}.{}", site, sub), "generic", || detail);
    }
}

fn put_endpoint(o: &mut Out, label: &str, e: &Option<(Point, &[f32])>) {
    o.t(label);
    match e {
        None => {
            o.t("none");
        }
        Some((p, a)) => {
            o.t("some");
            put_f(o, p.x);
            put_f(o, p.y);
            for v in a.iter() {
                put_f(o, *v);
            }
        }
    }
}

// ---------------------------------------------------------------------------------------------

fn family_path(ctx: &mut Ctx) {
    path_case(ctx, "path", |rng: &mut Rng| {
        let n = if rng.chance(1, 3) { 0 } else { rng.range(1, 5) as usize };
        let plain = n == 0 && rng.chance(1, 2);
        let prog = gen_prog(rng, n, 4);
        (plain, n, prog)
    });
}

/// all well-nested programs of at most `max_ops` calls over the two points (0,0), (1,2)
fn enumerate_programs(max_ops: usize) -> Vec<Vec<Op>> {
    let pts: [P; 2] = [(0, 0), (1, 2)];
    let mut edges: Vec<Op> = Vec::new();
    for a in pts {
        edges.push(Op::L(a, vec![]));
        for b in pts {
            edges.push(Op::Q(a, b, vec![]));
            for c in pts {
                edges.push(Op::C(a, b, c, vec![]));
            }
        }
    }
    // sub-paths by length
    let mut subs: Vec<Vec<Vec<Op>>> = vec![Vec::new(); max_ops + 1];
    fn rec(cur: &mut Vec<Op>, left: usize, edges: &[Op], out: &mut Vec<Vec<Vec<Op>>>) {
        for close in [false, true] {
            let mut s = cur.clone();
            s.push(Op::E(close));
            let l = s.len();
            out[l].push(s);
        }
        if left > 0 {
            for e in edges {
                cur.push(e.clone());
                rec(cur, left - 1, edges, out);
                cur.pop();
            }
        }
    }
    for b in pts {
        let mut cur = vec![Op::B(b, vec![])];
        rec(&mut cur, max_ops - 2, &edges, &mut subs);
    }
    // programs = sequences of sub-paths with total length <= max_ops
    let mut progs: Vec<Vec<Op>> = vec![Vec::new()];
    let mut frontier: Vec<Vec<Op>> = vec![Vec::new()];
    while !frontier.is_empty() {
        let mut next = Vec::new();
        for p in &frontier {
            for l in 2..=max_ops.saturating_sub(p.len()) {
                for s in &subs[l] {
                    let mut q = p.clone();
                    q.extend(s.iter().cloned());
                    next.push(q);
                }
            }
        }
        progs.extend(next.iter().cloned());
        frontier = next;
    }
    progs
}

/// give the endpoints of a program `n` attributes each, numbered consecutively
fn with_numbered_attrs(prog: &[Op], n: usize) -> Vec<Op> {
    let mut k = 0i32;
    let mut at = || {
        let v: Vec<i32> = (0..n).map(|j| k * 10 + j as i32 + 1).collect();
        k += 1;
        v
    };
    prog.iter()
        .map(|o| match o {
            Op::B(p, _) => Op::B(*p, at()),
            Op::L(p, _) => Op::L(*p, at()),
            Op::Q(c, p, _) => Op::Q(*c, *p, at()),
            Op::C(c1, c2, p, _) => Op::C(*c1, *c2, *p, at()),
            Op::E(c) => Op::E(*c),
        })
        .collect()
}

fn path_case<G: FnOnce(&mut Rng) -> (bool, usize, Vec<Op>)>(ctx: &mut Ctx, label: &'static str, g: G) {
    ctx.case("path", |rng: &mut Rng| {
        let (plain, n, prog) = g(rng);
        let (dx, dy) = (rng.range(-5, 5) as i32, rng.range(-5, 5) as i32);
        let mut args = Out::new();
        args.t(if plain { "plain" } else { "attr" }).u(n as u64).i(dx as i64).i(dy as i64);
        put_prog(&mut args, &prog);
        let tag = format!("{} {} n{} {}", label, if plain { "plain" } else { "attr" }, n, prog_tag(&prog));
        (args, tag, move || {
            let mut o = Out::new();
            let mut orc = Oracle::new();
            let (path, ids) = build_path(plain, n, &prog);
            o.t("ids");
            for i in &ids {
                o.u(*i as u64);
            }
            let v = views!(&path);
            put_views(&mut o, &v);
            let rev: Vec<Ce> = path.reversed().with_attributes().map(|e| ce_attr(&e)).collect();
            let revp: Vec<Ce> = path.reversed().map(|e| ce_path(&e)).collect();
            let back = path.reversed().with_attributes().into_path();
            let rev2: Vec<Ce> = back.reversed().with_attributes().map(|e| ce_attr(&e)).collect();
            put_ces(&mut o, "rev", &rev);
            put_ces(&mut o, "revp", &revp);
            put_ces(&mut o, "rev2", &rev2);
            let fe = path.first_endpoint();
            let le = path.last_endpoint();
            put_endpoint(&mut o, "first", &fe);
            put_endpoint(&mut o, "last", &le);
            let sl = path.as_slice();
            let slice_attr: Vec<Ce> = sl.iter_with_attributes().map(|e| ce_attr(&e)).collect();
            put_ces(&mut o, "slice", &slice_attr);
            let xfp = path.clone().transformed(&Translation::new(dx as f32, dy as f32));
            let xf: Vec<Ce> = xfp.iter().map(|e| ce_path(&e)).collect();
            let xfa: Vec<Ce> = xfp.iter_with_attributes().map(|e| ce_attr(&e)).collect();
            let xfl = xfp.last_endpoint();
            put_ces(&mut o, "xf", &xf);
            put_ces(&mut o, "xfa", &xfa);
            put_endpoint(&mut o, "xflast", &xfl);

            // oracle
            let spec = spec_events(&prog);
            check_views(&mut orc, "path", &v, &spec);
            let sl = path.as_slice();
            let sv = views!(&sl);
            orc.check(sv.iter == v.iter && sv.attr == v.attr && sv.idit == v.idit && sv.res == v.res && sv.resa == v.resa,
                "path.slice/same-views", "generic", || first_diff(&sv.attr, &v.attr));
            // the ids handed back by the builder index the position and attribute stores
            let eps = prog_endpoints(&prog);
            let mut ok = ids.len() == eps.len();
            let mut why = format!("{} ids for {} endpoints", ids.len(), eps.len());
            if ok {
                for (id, (p, a)) in ids.iter().zip(eps.iter()) {
                    let q = path[EndpointId(*id)];
                    let at = path.attributes(EndpointId(*id));
                    if q != pt(p) || at != &fa(a)[..] {
                        ok = false;
                        why = format!("id {} reads {:?} {:?}, given {:?} {:?}", id, q, at, p, a);
                        break;
                    }
                }
            }
            orc.check(ok, "path.builder-ids/index", "generic", || why.clone());
            // reversal
            let want = spec_reversed(&spec);
            orc.check(rev == want, "path.reversed/spec", "generic", || first_diff(&rev, &want));
            let wf = well_formed(&rev);
            orc.check(wf.is_ok(), "path.reversed/well-formed", "generic", || wf.clone().unwrap_err());
            orc.check(strip(&rev) == revp, "path.reversed/no-attributes", "generic", || first_diff(&strip(&rev), &revp));
            orc.check(rev2 == v.attr, "path.reversed/twice", "generic", || first_diff(&rev2, &v.attr));
            // first / last endpoint
            let want_first = spec.first().map(|e| e.pts[0].clone());
            let got_first = fe.map(|e| cpa(&e));
            orc.check(got_first == want_first, "path.first_endpoint/spec", "generic", || format!("{:?} vs {:?}", got_first, want_first));
            // after a close the current position is the sub-path's first point
            let want_last = spec.last().map(|e| if e.close { e.pts[1].clone() } else { e.pts[0].clone() });
            let got_last = le.map(|e| cpa(&e));
            orc.check(got_last == want_last, "path.last_endpoint/spec", "generic", || format!("{:?} vs {:?}", got_last, want_last));
            // Path::transformed: every view of the transformed path is the transformed view
            let mv = |c: &Cp| Cp { p: (c.p.0 + dx as f32, c.p.1 + dy as f32), a: c.a.clone() };
            let spec_xf: Vec<Ce> = spec.iter().map(|e| Ce { k: e.k, pts: e.pts.iter().map(mv).collect(), close: e.close }).collect();
            orc.check(xf == strip(&spec_xf), "path.transformed.iter/spec", "generic", || first_diff(&xf, &strip(&spec_xf)));
            orc.check(xfa == spec_xf, "path.transformed.iter_with_attributes/spec", "generic", || first_diff(&xfa, &spec_xf));
            let closed_last = spec.last().map(|e| e.close).unwrap_or(false);
            let want_xfl = want_last.as_ref().map(mv);
            let got_xfl = xfl.map(|e| cpa(&e));
            orc.check(got_xfl == want_xfl, "path.transformed.last_endpoint/spec",
                if closed_last && (dx != 0 || dy != 0) { "closed-last-sub-path" } else { "generic" },
                || format!("{:?} vs {:?}", got_xfl, want_xfl));
            CaseOut { imp: o, orcl: orc.verdict }
        })
    });
}

fn family_concat(ctx: &mut Ctx) {
    ctx.case("concat", |rng: &mut Rng| {
        let n = if rng.chance(1, 3) { 0 } else { rng.range(1, 5) as usize };
        let plain = n == 0 && rng.chance(1, 2);
        let k = rng.below(4) as usize;
        let prog0 = gen_prog(rng, n, 1);
        let progs: Vec<Vec<Op>> = (0..k).map(|_| gen_prog(rng, n, 2)).collect();
        let prog_last = gen_prog(rng, n, 1);
        let mut args = Out::new();
        args.t(if plain { "plain" } else { "attr" }).u(n as u64).u(k as u64);
        put_prog(&mut args, &prog0);
        for p in &progs {
            put_prog(&mut args, p);
        }
        put_prog(&mut args, &prog_last);
        let total: usize = progs.iter().map(|p| p.len()).sum::<usize>() + prog0.len() + prog_last.len();
        let tag = format!("concat {} n{} k{}{}", if plain { "plain" } else { "attr" }, n, k, if total == 0 { " trivial" } else { "" });
        (args, tag, move || {
            let mut o = Out::new();
            let mut orc = Oracle::new();
            let parts: Vec<Path> = progs.iter().map(|p| build_path(plain, n, p).0).collect();
            let slices: Vec<PathSlice> = parts.iter().map(|p| p.as_slice()).collect();
            let path = if plain {
                let mut b = Path::builder();
                run_prog(&mut b, &prog0);
                b.extend_from_paths(&slices);
                run_prog(&mut b, &prog_last);
                b.build()
            } else {
                let mut b = Path::builder_with_attributes(n);
                run_prog(&mut b, &prog0);
                b.extend_from_paths(&slices);
                run_prog(&mut b, &prog_last);
                b.build()
            };
            let v = views!(&path);
            put_views(&mut o, &v);
            // the concatenation reads as the concatenation of the programs …
            let mut whole: Vec<Op> = prog0.clone();
            for p in &progs {
                whole.extend(p.iter().cloned());
            }
            whole.extend(prog_last.iter().cloned());
            let spec = spec_events(&whole);
            check_views(&mut orc, "concat", &v, &spec);
            // … and as the concatenation of what the parts themselves read as
            let mut app: Vec<Ce> = build_path(plain, n, &prog0).0.iter_with_attributes().map(|e| ce_attr(&e)).collect();
            for p in &parts {
                app.extend(p.iter_with_attributes().map(|e| ce_attr(&e)));
            }
            app.extend(build_path(plain, n, &prog_last).0.iter_with_attributes().map(|e| ce_attr(&e)));
            orc.check(v.attr == app, "concat.iter/append", "generic", || first_diff(&v.attr, &app));
            CaseOut { imp: o, orcl: orc.verdict }
        })
    });
}

fn family_buffer(ctx: &mut Ctx) {
    ctx.case("buffer", |rng: &mut Rng| {
        let k = rng.range(1, 4) as usize;
        let mut entries: Vec<(bool, usize, Vec<Op>)> = Vec::new();
        for _ in 0..k {
            let n = if rng.chance(1, 2) { 0 } else { rng.range(1, 5) as usize };
            let plain = n == 0 && rng.chance(2, 3);
            entries.push((plain, n, gen_prog(rng, n, 3)));
        }
        let mut args = Out::new();
        args.u(k as u64);
        for (plain, n, prog) in &entries {
            args.t(if *plain { "plain" } else { "attr" }).u(*n as u64);
            put_prog(&mut args, prog);
        }
        let any_attr = entries.iter().any(|e| e.1 > 0);
        let empty = entries.iter().all(|e| e.2.is_empty());
        let tag = format!("buffer k{}{}{}", k, if any_attr { " attributes" } else { "" }, if empty { " trivial" } else { "" });
        (args, tag, move || {
            let mut o = Out::new();
            let mut orc = Oracle::new();
            let mut buffer = PathBuffer::new();
            let mut all_ids = Vec::new();
            for (plain, n, prog) in &entries {
                let (idx, ids) = if *plain {
                    let mut b = buffer.builder();
                    let ids = run_prog(&mut b, prog);
                    (b.build(), ids)
                } else if (prog.len() + *n) % 2 == 0 {
                    let mut b = buffer.builder().with_attributes(*n);
                    let ids = run_prog(&mut b, prog);
                    (b.build(), ids)
                } else {
                    // the public constructor of the attribute-carrying builder (a different code path
                    // from `builder().with_attributes(n)`)
                    let mut b = lyon_path::path_buffer::BuilderWithAttributes::new(&mut buffer, *n);
                    let ids = run_prog(&mut b, prog);
                    (b.build(), ids)
                };
                o.t("add").u(idx as u64).t("ids");
                for i in &ids {
                    o.u(*i as u64);
                }
                all_ids.push((idx, ids));
            }
            o.t("len").u(buffer.len() as u64);
            orc.check(buffer.len() == k, "buffer.len", "generic", || format!("{} vs {}", buffer.len(), k));
            let mut vs = Vec::new();
            for i in 0..k {
                let sl = buffer.get(i);
                o.t("get").u(i as u64).t("na").u(lyon_path::AttributeStore::num_attributes(&sl) as u64);
                let v = views!(&sl);
                put_views(&mut o, &v);
                vs.push(v);
            }
            // every entry reads back as the path that was written, ids are relative to the entry.
            // entries without attributes first (class generic), then the ones with attributes.
            for pass in 0..2 {
                for (i, (_plain, n, prog)) in entries.iter().enumerate() {
                    if (*n > 0) != (pass == 1) {
                        continue;
                    }
                    let sl = buffer.get(i);
                    orc.check(all_ids[i].0 == i, "buffer.build/index", "generic", || format!("{} vs {}", all_ids[i].0, i));
                    let eps = prog_endpoints(prog);
                    let ids = &all_ids[i].1;
                    let ok = ids.len() == eps.len() && ids.iter().zip(eps.iter()).all(|(id, (p, _))| vh::guarded(|| sl[EndpointId(*id)]) == Some(pt(p)));
                    orc.check(ok, "buffer.builder-ids/position", "generic", || format!("entry {} ids {:?}", i, ids));
                    let spec = spec_events(prog);
                    if *n == 0 {
                        check_views(&mut orc, "buffer.get", &vs[i], &spec);
                    } else if let Some((sub, detail)) = views_failure(&vs[i], &spec) {
                        // one clause for an entry written with attributes (listed finding)
                        orc.check(false, "buffer.get/entry-with-attributes", "with-attributes", || format!("entry {} {}: {}", i, sub, detail));
                    }
                }
            }
            CaseOut { imp: o, orcl: orc.verdict }
        })
    });
}

#[derive(Clone, Debug)]
enum IdOp {
    B(u32),
    L(u32),
    Q(u32, u32),
    C(u32, u32, u32),
    E(bool),
}

fn spec_id_events(prog: &[IdOp]) -> Vec<Ie> {
    let mut out = Vec::new();
    let (mut first, mut cur) = (0u32, 0u32);
    for op in prog {
        match op {
            IdOp::B(a) => {
                first = *a;
                cur = *a;
                out.push(Ie { k: 'B', ids: vec![*a], close: false });
            }
            IdOp::L(a) => {
                out.push(Ie { k: 'L', ids: vec![cur, *a], close: false });
                cur = *a;
            }
            IdOp::Q(c, a) => {
                out.push(Ie { k: 'Q', ids: vec![cur, *c, *a], close: false });
                cur = *a;
            }
            IdOp::C(c1, c2, a) => {
                out.push(Ie { k: 'C', ids: vec![cur, *c1, *c2, *a], close: false });
                cur = *a;
            }
            IdOp::E(cl) => out.push(Ie { k: 'E', ids: vec![cur, first], close: *cl }),
        }
    }
    out
}

fn resolve_ie(e: &Ie, eps: &[P], cps: &[P]) -> Ce {
    let ep = |i: u32| Cp { p: (eps[i as usize].0 as f32, eps[i as usize].1 as f32), a: None };
    let cpf = |i: u32| Cp { p: (cps[i as usize].0 as f32, cps[i as usize].1 as f32), a: None };
    let pts = match e.k {
        'Q' => vec![ep(e.ids[0]), cpf(e.ids[1]), ep(e.ids[2])],
        'C' => vec![ep(e.ids[0]), cpf(e.ids[1]), cpf(e.ids[2]), ep(e.ids[3])],
        _ => e.ids.iter().map(|i| ep(*i)).collect(),
    };
    Ce { k: e.k, pts, close: e.close }
}

fn family_cmds(ctx: &mut Ctx) {
    ctx.case("cmds", |rng: &mut Rng| {
        let ne = rng.range(1, 8) as usize;
        let nc = rng.range(1, 6) as usize;
        let eps: Vec<P> = (0..ne).map(|_| gen_pt(rng)).collect();
        let cps: Vec<P> = (0..nc).map(|_| gen_pt(rng)).collect();
        let mut prog = Vec::new();
        let subs = rng.below(5);
        for _ in 0..subs {
            prog.push(IdOp::B(rng.below(ne as u64) as u32));
            let edges = if rng.chance(1, 4) { 0 } else { rng.range(1, 5) };
            for _ in 0..edges {
                let to = rng.below(ne as u64) as u32;
                match rng.below(4) {
                    0 | 1 => prog.push(IdOp::L(to)),
                    2 => prog.push(IdOp::Q(rng.below(nc as u64) as u32, to)),
                    _ => prog.push(IdOp::C(rng.below(nc as u64) as u32, rng.below(nc as u64) as u32, to)),
                }
            }
            prog.push(IdOp::E(rng.chance(1, 2)));
        }
        let mut args = Out::new();
        args.u(ne as u64);
        for p in &eps {
            put_p(&mut args, p);
        }
        args.u(nc as u64);
        for p in &cps {
            put_p(&mut args, p);
        }
        for op in &prog {
            match op {
                IdOp::B(a) => args.t("B").u(*a as u64),
                IdOp::L(a) => args.t("L").u(*a as u64),
                IdOp::Q(c, a) => args.t("Q").u(*c as u64).u(*a as u64),
                IdOp::C(c1, c2, a) => args.t("C").u(*c1 as u64).u(*c2 as u64).u(*a as u64),
                IdOp::E(c) => args.t("E").b(*c),
            };
        }
        args.t(";");
        let tag = format!("cmds s{} ops{}{}", subs, prog.len().min(12), if prog.is_empty() { " trivial" } else { "" });
        (args, tag, move || {
            let mut o = Out::new();
            let mut orc = Oracle::new();
            let mut b = PathCommands::builder();
            let mut evids = Vec::new();
            for op in &prog {
                let id = match op {
                    IdOp::B(a) => b.begin(EndpointId(*a)),
                    IdOp::L(a) => b.line_to(EndpointId(*a)),
                    IdOp::Q(c, a) => b.quadratic_bezier_to(ControlPointId(*c), EndpointId(*a)),
                    IdOp::C(c1, c2, a) => b.cubic_bezier_to(ControlPointId(*c1), ControlPointId(*c2), EndpointId(*a)),
                    IdOp::E(c) => b.end(*c).unwrap(),
                };
                evids.push(id.0);
            }
            let cmds = b.build();
            let epts: Vec<Point> = eps.iter().map(pt).collect();
            let cpts: Vec<Point> = cps.iter().map(pt).collect();
            let it: Vec<Ie> = cmds.iter().map(|e| ie(&e)).collect();
            let events: Vec<Ce> = cmds.events(&epts, &cpts).map(|e| ce_gen(&e, &|p: &&Point| cp(**p), &|p: &&Point| cp(**p))).collect();
            let pevents: Vec<Ce> = cmds.events(&epts, &cpts).points().map(|e| ce_path(&e)).collect();
            let slice_events: Vec<Ce> = cmds.path_slice(&epts, &cpts).events().points().map(|e| ce_path(&e)).collect();
            // random access: walk the ids
            let mut walk = Vec::new();
            if !it.is_empty() {
                let mut id = EventId(0);
                loop {
                    walk.push(id.0);
                    match cmds.next_event_id_in_path(id) {
                        Some(n) if walk.len() <= 4 * prog.len() + 4 => id = n,
                        _ => break,
                    }
                }
            }
            let byid: Vec<Ie> = walk.iter().map(|i| ie(&cmds.event(EventId(*i)))).collect();
            let sub: Vec<u32> = walk.iter().map(|i| cmds.next_event_id_in_sub_path(EventId(*i)).0).collect();
            o.t("evids");
            for i in &evids {
                o.u(*i as u64);
            }
            put_ies(&mut o, "iter", &it);
            put_ces(&mut o, "events", &events);
            put_ces(&mut o, "pevents", &pevents);
            o.t("walk");
            for i in &walk {
                o.u(*i as u64);
            }
            put_ies(&mut o, "byid", &byid);
            o.t("sub");
            for i in &sub {
                o.u(*i as u64);
            }

            let spec = spec_id_events(&prog);
            orc.check(it == spec, "cmds.iter/spec", "generic", || first_diff(&it, &spec));
            let spec_pos: Vec<Ce> = spec.iter().map(|e| resolve_ie(e, &eps, &cps)).collect();
            orc.check(events == spec_pos, "cmds.events/spec", "generic", || first_diff(&events, &spec_pos));
            let wf = well_formed(&events);
            orc.check(wf.is_ok(), "cmds.events/well-formed", "generic", || wf.clone().unwrap_err());
            orc.check(pevents == events && slice_events == events, "cmds.point_events/events", "generic", || first_diff(&pevents, &events));
            orc.check(walk == evids, "cmds.next_event_id_in_path/builder-ids", "generic", || format!("{:?} vs {:?}", walk, evids));
            orc.check(byid == it, "cmds.event/iter", "generic", || first_diff(&byid, &it));
            // next_event_id_in_sub_path: next event, End loops back to the sub-path's Begin
            let mut want = Vec::new();
            let mut begin = 0u32;
            for (j, e) in spec.iter().enumerate() {
                if e.k == 'B' {
                    begin = evids[j];
                }
                want.push(if e.k == 'E' { begin } else { *evids.get(j + 1).unwrap_or(&u32::MAX) });
            }
            orc.check(sub == want, "cmds.next_event_id_in_sub_path/cycle", "generic", || format!("{:?} vs {:?}", sub, want));
            CaseOut { imp: o, orcl: orc.verdict }
        })
    });
}

fn family_polygon(ctx: &mut Ctx) {
    ctx.case("polygon", |rng: &mut Rng| {
        let closed = rng.chance(1, 2);
        let np = match rng.below(12) {
            0 => 0,
            1 => 1,
            _ => rng.range(2, 6) as usize,
        };
        let ni = match rng.below(12) {
            0 => 0,
            1 => 1,
            _ => rng.range(2, 6) as usize,
        };
        let pts: Vec<P> = (0..np).map(|_| gen_pt(rng)).collect();
        let ids: Vec<u32> = (0..ni).map(|_| rng.below(20) as u32).collect();
        let mut args = Out::new();
        args.b(closed).u(np as u64);
        for p in &pts {
            put_p(&mut args, p);
        }
        args.u(ni as u64);
        for i in &ids {
            args.u(*i as u64);
        }
        let tag = format!("polygon {} np{} ni{}{}", if closed { "closed" } else { "open" }, np, ni, if np == 0 && ni == 0 { " trivial" } else { "" });
        (args, tag, move || {
            let mut o = Out::new();
            let mut orc = Oracle::new();
            let points: Vec<Point> = pts.iter().map(pt).collect();
            let poly = Polygon { points: &points[..], closed };
            let conv = |e: &Event<&Point, ()>| ce_gen(e, &|p: &&Point| cp(**p), &|_| cp(point(0.0, 0.0)));
            let it: Vec<Ce> = poly.iter().map(|e| conv(&e)).collect();
            let idit: Vec<Ie> = poly.id_iter().take(np + 5).map(|e| ie(&e)).collect();
            let pe: Vec<Ce> = poly.path_events().map(|e| ce_path(&e)).collect();
            let ev: Vec<Option<Ce>> = (0..np + 2).map(|k| vh::guarded(|| conv(&poly.event(EventId(k as u32))))).collect();
            let eids: Vec<EndpointId> = ids.iter().map(|i| EndpointId(*i)).collect();
            let idpoly = IdPolygon { points: &eids[..], closed };
            let iditer: Vec<Ie> = idpoly.iter().map(|e| ie(&e)).collect();
            let idev: Vec<Option<Ie>> = (0..ni + 2).map(|k| vh::guarded(|| ie(&idpoly.event(EventId(k as u32))))).collect();
            let fp: Vec<Ce> = FromPolyline::new(closed, points.iter().cloned()).map(|e| ce_path(&e)).collect();
            put_ces(&mut o, "iter", &it);
            put_ies(&mut o, "idit", &idit);
            put_ces(&mut o, "pe", &pe);
            o.t("ev");
            for e in &ev {
                match e {
                    Some(e) => put_ce(&mut o, e),
                    None => {
                        o.t("panic");
                    }
                }
            }
            put_ies(&mut o, "iditer", &iditer);
            o.t("idev");
            for e in &idev {
                match e {
                    Some(e) => put_ie(&mut o, e),
                    None => {
                        o.t("panic");
                    }
                }
            }
            put_ces(&mut o, "fp", &fp);

            // specification: the polygon is the program  begin p0, line p1 …, end(closed)
            let mut prog = Vec::new();
            for (i, p) in pts.iter().enumerate() {
                prog.push(if i == 0 { Op::B(*p, vec![]) } else { Op::L(*p, vec![]) });
            }
            if !pts.is_empty() {
                prog.push(Op::E(closed));
            }
            let spec = strip(&spec_events(&prog));
            orc.check(it == spec, "polygon.iter/spec", "generic", || first_diff(&it, &spec));
            orc.check(pe == it, "polygon.path_events/iter", "generic", || first_diff(&pe, &it));
            let mut idprog = Vec::new();
            for (i, p) in ids.iter().enumerate() {
                idprog.push(if i == 0 { IdOp::B(*p) } else { IdOp::L(*p) });
            }
            if !ids.is_empty() {
                idprog.push(IdOp::E(closed));
            }
            let idspec = spec_id_events(&idprog);
            orc.check(iditer == idspec, "idpolygon.iter/spec", "generic", || first_diff(&iditer, &idspec));
            let byid: Vec<Option<Ie>> = (0..iditer.len()).map(|k| idev[k].clone()).collect();
            let want: Vec<Option<Ie>> = iditer.iter().cloned().map(Some).collect();
            orc.check(byid == want, "idpolygon.event/iter", "generic", || first_diff(&byid, &want));
            // Polygon::event against Polygon::iter, ids away from the end first
            let n_ev = it.len();
            for pass in 0..2 {
                for k in 0..n_ev {
                    let at_end = k + 2 >= n_ev; // the last Line (or Begin of a 1-gon) and End
                    if at_end != (pass == 1) {
                        continue;
                    }
                    let class = if at_end { "end-index" } else { "generic" };
                    orc.check(ev[k].as_ref() == Some(&it[k]), "polygon.event/iter", class, || format!("id {}: {:?} vs {:?}", k, ev[k], it[k]));
                }
            }
            // id_iter resolved through the polygon's own store, and FromPolyline (for the empty
            // polygon both are listed findings: alternate which one is reported)
            let res: Option<Vec<Ce>> = vh::guarded(|| {
                idit.iter()
                    .map(|e| Ce { k: e.k, pts: e.ids.iter().map(|i| cp(poly[EndpointId(*i)])).collect(), close: e.close })
                    .collect()
            });
            for pass in 0..2 {
                if (pass == 0) != closed {
                    let class = if np == 0 { "empty-polygon" } else { "generic" };
                    orc.check(res.as_ref() == Some(&it), "polygon.id_iter/resolves", class, || format!("{:?} vs {:?}", idit, it).chars().take(300).collect());
                } else {
                    let class = if np == 0 { "empty-polyline" } else { "generic" };
                    orc.check(fp == spec, "from_polyline/spec", class, || first_diff(&fp, &spec));
                }
            }
            CaseOut { imp: o, orcl: orc.verdict }
        })
    });
}

fn main() {
    let mut ctx = Ctx::from_args("C14");
    let n = ctx.n(1, 40);
    for _ in 0..2400 * n {
        family_path(&mut ctx);
    }
    for _ in 0..600 * n {
        family_concat(&mut ctx);
    }
    for _ in 0..800 * n {
        family_buffer(&mut ctx);
    }
    for _ in 0..700 * n {
        family_cmds(&mut ctx);
    }
    for _ in 0..500 * n {
        family_polygon(&mut ctx);
    }
    if ctx.thorough {
        // bounded-exhaustive: every well-nested program of <= 5 calls over a 2-point alphabet,
        // through the plain builder and with 1 and 2 attributes
        for prog in enumerate_programs(5) {
            for (plain, na) in [(true, 0usize), (false, 1), (false, 2)] {
                let p = with_numbered_attrs(&prog, na);
                path_case(&mut ctx, "path-exhaustive", move |_| (plain, na, p));
            }
        }
    }
    ctx.finish();
}
