//! C18 — winding number, hit test, signed area, orientation agree with geometry and fill.
//!
//! * `hit:32`   polygonal paths × query points (incl. points level with vertices / horizontal
//!              edges): winding numbers, hit tests under both rules, signed area, winding
//!              direction — compared exactly with the Lean model; oracle: exact crossing number
//!              computed independently, reversal, shoelace, agreement with the fill output.
//! * `curved`   curved paths and the shape helpers: winding numbers / hit tests at 48 query points
//!              (incl. points level with control points: bounding-range early-outs), signed area
//!              through `PathIterator::flattened`, winding direction — compared exactly with the
//!              Lean model (Model/Algo/WindingCurves.lean over Model/Geom/Flatten.lean); oracle: hit
//!              test vs the crossing number of an independent fine flattening away from the
//!              outline; area sign = requested winding of the shape helpers.

use lyon_algorithms::area::approximate_signed_area;
use lyon_algorithms::hit_test::{hit_test_path, path_winding_number_at_position};
use lyon_algorithms::winding::compute_winding;
use lyon_path::math::{point, vector, Angle, Box2D, Point};
use lyon_path::builder::BorderRadii;
use lyon_path::{FillRule, Path, PathEvent, Winding};
use lyon_tessellation::FillTessellator;
use vh::fillgen::*;
use vh::{CaseOut, Ctx, Oracle, Out, Rng};

/// exact-ish reference crossing number in f64; `None` if q is (nearly) on the outline
fn ref_winding(edges: &[(Point, Point)], q: (f64, f64), margin: f64) -> Option<i32> {
    let mut w = 0;
    for (a, b) in edges {
        let (ax, ay, bx, by) = (a.x as f64, a.y as f64, b.x as f64, b.y as f64);
        // distance from q to the segment
        let (vx, vy) = (bx - ax, by - ay);
        let l2 = vx * vx + vy * vy;
        let t = if l2 == 0.0 { 0.0 } else { (((q.0 - ax) * vx + (q.1 - ay) * vy) / l2).clamp(0.0, 1.0) };
        let (dx, dy) = (q.0 - (ax + t * vx), q.1 - (ay + t * vy));
        if (dx * dx + dy * dy).sqrt() <= margin {
            return None;
        }
        if (ay <= q.1) != (by <= q.1) {
            // crosses the horizontal line through q (half-open rule); which side?
            let orient = vx * (q.1 - ay) - vy * (q.0 - ax); // >0: q left of a→b
            if by > ay {
                // upward edge: crossing is left of q iff q is to the right of a→b
                if orient < 0.0 {
                    w += 1;
                }
            } else if orient > 0.0 {
                w -= 1;
            }
        }
    }
    Some(w)
}

fn in_triangle(q: (f64, f64), a: Point, b: Point, c: Point) -> Option<bool> {
    let s = |p: Point, r: Point| (r.x as f64 - p.x as f64) * (q.1 - p.y as f64) - (r.y as f64 - p.y as f64) * (q.0 - p.x as f64);
    let (d1, d2, d3) = (s(a, b), s(b, c), s(c, a));
    let scale = 1e-7 * (1.0 + a.x.abs().max(a.y.abs()).max(b.x.abs()).max(b.y.abs()).max(c.x.abs()).max(c.y.abs()) as f64).powi(2);
    if d1.abs() <= scale || d2.abs() <= scale || d3.abs() <= scale {
        return None; // on / near an edge: undecided
    }
    let neg = d1 < 0.0 || d2 < 0.0 || d3 < 0.0;
    let pos = d1 > 0.0 || d2 > 0.0 || d3 > 0.0;
    Some(!(neg && pos))
}

fn shoelace(pts: &[Point]) -> f64 {
    let n = pts.len();
    let mut s = 0.0;
    for i in 0..n {
        let (a, b) = (pts[i], pts[(i + 1) % n]);
        s += a.x as f64 * b.y as f64 - b.x as f64 * a.y as f64;
    }
    0.5 * s
}

fn gen_queries(rng: &mut Rng, poly: &Poly, n: usize) -> Vec<Point> {
    let all: Vec<Point> = poly.subs.iter().flat_map(|s| s.0.iter().copied()).collect();
    let sc = poly.scale();
    (0..n)
        .map(|_| match rng.below(5) {
            // level with a vertex
            0 if !all.is_empty() => point(rng.uniform(-1.2, 1.2) as f32 * sc, rng.pick(&all).y),
            // same x as a vertex
            1 if !all.is_empty() => point(rng.pick(&all).x, rng.uniform(-1.2, 1.2) as f32 * sc),
            // mid-point between two vertices (often inside)
            2 if all.len() >= 2 => {
                let (a, b) = (*rng.pick(&all), *rng.pick(&all));
                point((a.x + b.x) * 0.5 + 0.125 * sc * 1e-2, (a.y + b.y) * 0.5)
            }
            // half-integer lattice (never on a lattice vertex row)
            3 => point((rng.range(-2, 18) as f32 * 0.5) * sc / 8.0, (rng.range(-2, 18) as f32 * 0.5 + 0.25) * sc / 8.0),
            _ => point(rng.uniform(-1.2, 1.2) as f32 * sc, rng.uniform(-1.2, 1.2) as f32 * sc),
        })
        .collect()
}

fn hit_case(ctx: &mut Ctx) {
    ctx.case("hit:32", |rng| {
        let poly = gen_poly(rng, 12);
        let queries = gen_queries(rng, &poly, 12);
        let mut args = Out::new();
        let subs: Vec<&(Vec<Point>, bool)> = poly.subs.iter().filter(|s| !s.0.is_empty()).collect();
        args.u(subs.len() as u64);
        for (pts, _) in &subs {
            args.u(pts.len() as u64);
            for p in pts {
                args.p(*p);
            }
        }
        args.u(queries.len() as u64);
        for q in &queries {
            args.p(*q);
        }
        let tag = format!("hit {} subs={}", poly.kind, subs.len());
        (args, tag, move || {
            let path = poly.to_path();
            let mut o = Out::new();
            let mut orc = Oracle::new();
            let edges = poly.edges();
            let sc = poly.scale() as f64;
            let margin = 1e-5 * sc;
            // fill output for the agreement clause
            let cfg = FillCfg { rule: FillRule::NonZero, orientation: lyon_tessellation::Orientation::Vertical, tolerance: 0.01, entry: 0 };
            let mut mesh_nz = Mesh::new();
            let mut mesh_eo = Mesh::new();
            let mut tess = FillTessellator::new();
            let ok_nz = run_fill(&mut tess, &poly, &cfg, &mut mesh_nz).is_ok();
            let ok_eo = run_fill(&mut tess, &poly, &FillCfg { rule: FillRule::EvenOdd, ..cfg }, &mut mesh_eo).is_ok();
            o.t("w");
            for q in &queries {
                let w = path_winding_number_at_position(q, path.iter(), 0.01);
                let h_eo = hit_test_path(q, path.iter(), FillRule::EvenOdd, 0.01);
                let h_nz = hit_test_path(q, path.iter(), FillRule::NonZero, 0.01);
                o.i(w as i64).b(h_eo).b(h_nz);
                let qq = (q.x as f64, q.y as f64);
                if let Some(rw) = ref_winding(&edges, qq, margin) {
                    orc.check(w == rw, "hit_test/winding-number", "generic", || format!("q=({},{}) lyon={} reference={}", q.x, q.y, w, rw));
                    orc.check(h_eo == (rw % 2 != 0), "hit_test/even-odd", "generic", || format!("q=({},{}) w={}", q.x, q.y, rw));
                    orc.check(h_nz == (rw != 0), "hit_test/non-zero", "generic", || format!("q=({},{}) w={}", q.x, q.y, rw));
                    // agreement with the fill: away from the outline by more than the fill tolerance
                    if ref_winding(&edges, qq, 0.02 + 1e-4 * sc).is_some() {
                        for (ok, mesh, hit, name) in [(ok_nz, &mesh_nz, h_nz, "non-zero"), (ok_eo, &mesh_eo, h_eo, "even-odd")] {
                            if !ok {
                                continue;
                            }
                            let mut covered = Some(false);
                            for t in mesh.indices.chunks(3) {
                                match in_triangle(qq, mesh.vertices[t[0] as usize], mesh.vertices[t[1] as usize], mesh.vertices[t[2] as usize]) {
                                    Some(true) => {
                                        covered = Some(true);
                                        break;
                                    }
                                    None => covered = None,
                                    _ => {}
                                }
                                if covered.is_none() {
                                    break;
                                }
                            }
                            if let Some(c) = covered {
                                orc.check(c == hit, "hit_test/agrees-with-fill", "generic", || {
                                    format!("q=({},{}) rule={} hit={} covered={}", q.x, q.y, name, hit, c)
                                });
                            }
                        }
                    }
                }
            }
            // area, per sub-path winding
            let area = approximate_signed_area(0.01, path.iter());
            o.t("area").f(area);
            let mut it = path.iter();
            o.t("dir");
            let mut ref_area = 0.0;
            for (pts, _) in poly.subs.iter().filter(|s| !s.0.is_empty()) {
                let d = compute_winding(&mut it);
                o.t(match d {
                    Some(Winding::Positive) => "pos",
                    Some(Winding::Negative) => "neg",
                    None => "none",
                });
                let a = shoelace(pts);
                ref_area += a;
                let tol = 1e-5 * (1.0 + sc * sc);
                if a.abs() > tol {
                    orc.check(d == Some(if a > 0.0 { Winding::Positive } else { Winding::Negative }), "winding/sign-of-area", "generic", || {
                        format!("shoelace={} dir={:?}", a, d)
                    });
                }
            }
            let tol = 1e-4 * (1.0 + sc * sc);
            orc.check((area as f64 - ref_area).abs() <= tol, "area/shoelace", "generic", || format!("lyon={} reference={}", area, ref_area));
            // reversal: area changes sign, winding numbers change sign
            let rev: Path = {
                let mut b = Path::builder();
                for e in path.reversed() {
                    b.path_event(e);
                }
                b.build()
            };
            let rarea = approximate_signed_area(0.01, rev.iter());
            orc.check((rarea as f64 + area as f64).abs() <= tol, "area/reversed", "generic", || format!("area={} reversed={}", area, rarea));
            for q in &queries {
                if ref_winding(&edges, (q.x as f64, q.y as f64), margin).is_some() {
                    let w = path_winding_number_at_position(q, path.iter(), 0.01);
                    let rw = path_winding_number_at_position(q, rev.iter(), 0.01);
                    orc.check(w == -rw, "hit_test/reversed", "generic", || format!("q=({},{}) w={} reversed={}", q.x, q.y, w, rw));
                }
            }
            CaseOut { imp: o, orcl: orc.verdict }
        })
    });
}

fn flatten_ref(path: &Path, tol: f32) -> Vec<(Point, Point)> {
    let mut v = Vec::new();
    for e in path.iter() {
        match e {
            PathEvent::Line { from, to } => v.push((from, to)),
            PathEvent::End { last, first, .. } => v.push((last, first)),
            PathEvent::Quadratic { from, ctrl, to } => {
                let c = lyon_path::geom::QuadraticBezierSegment { from, ctrl, to };
                let n = 256;
                let mut p = from;
                for i in 1..=n {
                    let q = c.sample(i as f32 / n as f32);
                    v.push((p, q));
                    p = q;
                }
            }
            PathEvent::Cubic { from, ctrl1, ctrl2, to } => {
                let c = lyon_path::geom::CubicBezierSegment { from, ctrl1, ctrl2, to };
                let n = 256;
                let mut p = from;
                for i in 1..=n {
                    let q = c.sample(i as f32 / n as f32);
                    v.push((p, q));
                    p = q;
                }
            }
            _ => {}
        }
    }
    let _ = tol;
    v
}

fn curved_case(ctx: &mut Ctx) {
    ctx.case("curved", |rng| {
        let kind = rng.below(6);
        let want = if rng.chance(1, 2) { Winding::Positive } else { Winding::Negative };
        let tol = *rng.pick(&[0.001f32, 0.01, 0.1]);
        let mut b = Path::builder();
        let c = point(rng.uniform(-5.0, 5.0) as f32, rng.uniform(-5.0, 5.0) as f32);
        let name;
        match kind {
            0 => {
                b.add_circle(c, rng.uniform(0.5, 20.0) as f32, want);
                name = "circle";
            }
            1 => {
                b.add_ellipse(c, vector(rng.uniform(0.5, 20.0) as f32, rng.uniform(0.5, 20.0) as f32), Angle::radians(rng.uniform(-3.0, 3.0) as f32), want);
                name = "ellipse";
            }
            2 => {
                b.add_rectangle(&Box2D { min: c, max: point(c.x + rng.uniform(0.5, 20.0) as f32, c.y + rng.uniform(0.5, 20.0) as f32) }, want);
                name = "rectangle";
            }
            3 => {
                let (w, h) = (rng.uniform(2.0, 20.0) as f32, rng.uniform(2.0, 20.0) as f32);
                // radii: uniform, all zero (a plain rectangle through the rounded-rectangle helper),
                // some zero, over-large (clamped) and independent per corner
                let m = w.min(h) * 0.5;
                let radii = match rng.below(6) {
                    0 => BorderRadii::new(0.0),
                    1 => BorderRadii { top_left: 0.0, top_right: rng.uniform(0.0, 1.0) as f32 * m, bottom_left: rng.uniform(0.0, 1.0) as f32 * m, bottom_right: 0.0 },
                    2 => BorderRadii::new(rng.uniform(1.0, 3.0) as f32 * m),
                    3 => BorderRadii { top_left: rng.uniform(0.0, 1.0) as f32 * m, top_right: rng.uniform(0.0, 1.0) as f32 * m, bottom_left: rng.uniform(0.0, 1.0) as f32 * m, bottom_right: rng.uniform(0.0, 1.0) as f32 * m },
                    _ => BorderRadii::new(rng.uniform(0.0, 1.0) as f32 * m),
                };
                b.add_rounded_rectangle(&Box2D { min: c, max: point(c.x + w, c.y + h) }, &radii, want);
                name = "rounded-rectangle";
            }
            _ => {
                // random closed path of curves
                b.begin(c);
                let n = rng.range(2, 5);
                for _ in 0..n {
                    let p = |rng: &mut Rng| point(rng.uniform(-10.0, 10.0) as f32, rng.uniform(-10.0, 10.0) as f32);
                    match rng.below(3) {
                        0 => {
                            b.line_to(p(rng));
                        }
                        1 => {
                            b.quadratic_bezier_to(p(rng), p(rng));
                        }
                        _ => {
                            b.cubic_bezier_to(p(rng), p(rng), p(rng));
                        }
                    }
                }
                b.end(true);
                name = "curves";
            }
        }
        let path = b.build();
        // control points and end points of the path: query points level with them exercise the
        // bounding-range early-outs of the hit test
        let mut ctrl_pts: Vec<Point> = Vec::new();
        for e in path.iter() {
            match e {
                PathEvent::Begin { at } => ctrl_pts.push(at),
                PathEvent::Line { to, .. } => ctrl_pts.push(to),
                PathEvent::Quadratic { ctrl, to, .. } => {
                    ctrl_pts.push(ctrl);
                    ctrl_pts.push(to);
                }
                PathEvent::Cubic { ctrl1, ctrl2, to, .. } => {
                    ctrl_pts.push(ctrl1);
                    ctrl_pts.push(ctrl2);
                    ctrl_pts.push(to);
                }
                _ => {}
            }
        }
        let mut queries: Vec<Point> = (0..12).map(|_| point(rng.uniform(-25.0, 25.0) as f32, rng.uniform(-25.0, 25.0) as f32)).collect();
        for _ in 0..12 {
            if !ctrl_pts.is_empty() {
                let a = *rng.pick(&ctrl_pts);
                let b2 = *rng.pick(&ctrl_pts);
                queries.push(point(rng.uniform(-25.0, 25.0) as f32, a.y));
                queries.push(point((a.x + b2.x) * 0.5, a.y));
                queries.push(point(a.x, rng.uniform(-25.0, 25.0) as f32));
            }
        }
        let mut args = Out::new();
        args.t(name).f(tol);
        // the path as `Path::iter()` yields it: nsubs (first nseg (L to | Q ctrl to | C ctrl1 ctrl2 to)*)*
        {
            let evs: Vec<PathEvent> = path.iter().collect();
            args.u(evs.iter().filter(|e| matches!(e, PathEvent::Begin { .. })).count() as u64);
            let mut i = 0;
            while i < evs.len() {
                if let PathEvent::Begin { at } = evs[i] {
                    args.p(at);
                    let mut j = i + 1;
                    while j < evs.len() && !matches!(evs[j], PathEvent::End { .. }) {
                        j += 1;
                    }
                    args.u((j - i - 1) as u64);
                    for e in &evs[i + 1..j] {
                        match *e {
                            PathEvent::Line { to, .. } => {
                                args.t("L").p(to);
                            }
                            PathEvent::Quadratic { ctrl, to, .. } => {
                                args.t("Q").p(ctrl).p(to);
                            }
                            PathEvent::Cubic { ctrl1, ctrl2, to, .. } => {
                                args.t("C").p(ctrl1).p(ctrl2).p(to);
                            }
                            _ => {}
                        }
                    }
                    i = j + 1;
                } else {
                    i += 1;
                }
            }
        }
        args.u(queries.len() as u64);
        for q in &queries {
            args.p(*q);
        }
        let tag = format!("curved {}", name);
        (args, tag, move || {
            let mut o = Out::new();
            // compared with the model (Model/Algo/WindingCurves.lean): winding number and both hit
            // tests at every query point, signed area through the flattened iterator, winding
            // direction of every sub-path (control polygon)
            o.t("w");
            for q in &queries {
                let w = path_winding_number_at_position(q, path.iter(), tol);
                let h_eo = hit_test_path(q, path.iter(), FillRule::EvenOdd, tol);
                let h_nz = hit_test_path(q, path.iter(), FillRule::NonZero, tol);
                o.i(w as i64).b(h_eo).b(h_nz);
            }
            o.t("area").f(approximate_signed_area(tol, path.iter()));
            o.t("dir");
            {
                let mut it = path.iter();
                while let Some(d) = compute_winding(&mut it) {
                    o.t(match d {
                        Winding::Positive => "pos",
                        Winding::Negative => "neg",
                    });
                }
            }
            let mut orc = Oracle::new();
            let edges = flatten_ref(&path, tol);
            for q in &queries {
                // only points farther than the tolerance from the (finely flattened) outline
                if let Some(rw) = ref_winding(&edges, (q.x as f64, q.y as f64), tol as f64 * 1.5 + 1e-3) {
                    let w = path_winding_number_at_position(q, path.iter(), tol);
                    orc.check(w == rw, "hit_test/curved-winding", "generic", || format!("{} q=({},{}) lyon={} reference={}", name, q.x, q.y, w, rw));
                }
            }
            let area = approximate_signed_area(tol, path.iter()) as f64;
            let ref_area: f64 = edges.iter().map(|(a, b)| 0.5 * (a.x as f64 * b.y as f64 - b.x as f64 * a.y as f64)).sum();
            let per: f64 = edges.iter().map(|(a, b)| ((a.x - b.x) as f64).hypot((a.y - b.y) as f64)).sum();
            orc.check((area - ref_area).abs() <= per * tol as f64 * 1.5 + 1e-3 * (1.0 + ref_area.abs()), "area/curved", "generic", || {
                format!("{} lyon={} reference={}", name, area, ref_area)
            });
            if name == "curves" {
                // reported winding direction = sign of the signed area, when the area is clearly
                // non-zero (compute_winding works on the control polygon)
                let d = compute_winding(&mut path.iter());
                let ctrl_area: f64 = {
                    let n = ctrl_pts.len();
                    (0..n).map(|i| 0.5 * (ctrl_pts[i].x as f64 * ctrl_pts[(i + 1) % n].y as f64 - ctrl_pts[(i + 1) % n].x as f64 * ctrl_pts[i].y as f64)).sum()
                };
                let bb = per * per / 16.0;
                if ref_area.abs() > 0.05 * bb && ctrl_area.abs() > 0.05 * bb && (ref_area > 0.0) == (ctrl_area > 0.0) {
                    orc.check(d == Some(if ref_area > 0.0 { Winding::Positive } else { Winding::Negative }), "winding/sign-of-area-curved", "generic", || {
                        format!("area {} control-polygon area {} reported {:?}", ref_area, ctrl_area, d)
                    });
                }
            }
            if name != "curves" {
                // the shape helpers honour the requested winding: sign of the area and reported direction
                orc.check((ref_area > 0.0) == (want == Winding::Positive), "shape/requested-winding-area", "generic", || {
                    format!("{} requested {:?} area {}", name, want, ref_area)
                });
                let d = compute_winding(&mut path.iter());
                orc.check(d == Some(want), "shape/requested-winding-dir", "generic", || format!("{} requested {:?} got {:?}", name, want, d));
            }
            CaseOut { imp: o, orcl: orc.verdict }
        })
    });
}

fn main() {
    let mut ctx = Ctx::from_args("C18");
    let n = ctx.n(1500, 100000);
    for _ in 0..n {
        hit_case(&mut ctx);
    }
    let n = ctx.n(1500, 60000);
    for _ in 0..n {
        curved_case(&mut ctx);
    }
    ctx.finish();
}
