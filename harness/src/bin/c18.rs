//! C18 — winding number, hit test, signed area, orientation agree with geometry and fill.
//!
//! * `hit:32`   polygonal paths × query points (incl. points level with vertices / horizontal
//!              edges): winding numbers, hit tests under both rules, signed area, winding
//!              direction — compared exactly with the Lean model; oracle: exact crossing number
//!              computed independently, reversal, shoelace, agreement with the fill output.
//! * `curved`   curved paths and the shape helpers: winding numbers / hit tests at 48 query points
//!              (incl. points level with control points: bounding-range early-outs), signed area
//!              through `PathIterator::flattened`, winding direction — compared exactly with the
//!              Lean model (Model/Algo/WindingCurves.lean over Model/Geom/Flatten.lean); oracle: hit
//!              test vs the crossing number of an independent fine flattening away from the
//!              outline; area sign = requested winding of the shape helpers.
//! * `fillprog:32`  PROGRAMS of shape helpers and sub-paths issued to ONE builder object, (a) to
//!              `Path::builder()` / `Path::builder_with_attributes(n)` → hit test / winding number at
//!              ~40 query points (random, near the shapes' centres, between centres = overlaps,
//!              level with control points) and (b) to the fill tessellator's OWN builder
//!              (`FillTessellator::builder` with the inherent `NoAttributes` helpers,
//!              `builder_with_attributes(n)`, and both through the `PathBuilder` trait) with its
//!              overridden `add_circle`, x requested `Winding` x fill rule x sweep orientation x
//!              tolerance.  Compared with the model: the COMPLETE emission sequence of the fill
//!              (every vertex with its sibling edge records, interpolated attributes, triangles)
//!              obtained from the model of the helpers' expansion (Model/Tess/FillBuilderShapes.lean,
//!              `FillBuilder::add_circle` = 8 arcs + octagon) fed to the modelled sweep, and the
//!              winding number / hit test on the `Path`.  Oracle: at every query point farther than
//!              the tolerance from every outline, covered by a triangle <=> `hit_test_path` under the
//!              same rule (both rules), the hit test = crossing number of an independent fine
//!              flattening, and every helper delivers the requested direction to the fill (its
//!              contribution cancels / adds up against an enclosing rectangle of known direction).

use lyon_algorithms::area::approximate_signed_area;
use lyon_algorithms::hit_test::{hit_test_path, path_winding_number_at_position};
use lyon_algorithms::winding::compute_winding;
use lyon_path::builder::{BorderRadii, NoAttributes, PathBuilder};
use lyon_path::math::{point, vector, Angle, Box2D, Point, Vector};
use lyon_path::{FillRule, Path, PathEvent, Polygon, Winding};
use lyon_tessellation::{
    FillGeometryBuilder, FillOptions, FillTessellator, FillVertex, GeometryBuilder, GeometryBuilderError, Orientation, VerifEdgeRecord, VertexId,
};
use vh::fillgen::*;
use vh::{CaseOut, Ctx, Oracle, Out, Rng};

/// exact-ish reference crossing number in f64; `None` if q is (nearly) on the outline
fn ref_winding(edges: &[(Point, Point)], q: (f64, f64), margin: f64) -> Option<i32> {
    let mut w = 0;
    for (a, b) in edges {
        let (ax, ay, bx, by) = (a.x as f64, a.y as f64, b.x as f64, b.y as f64);
        // distance from q to the segment
        let (vx, vy) = (bx - ax, by - ay);
        let l2 = vx * vx + vy * vy;
        let t = if l2 == 0.0 { 0.0 } else { (((q.0 - ax) * vx + (q.1 - ay) * vy) / l2).clamp(0.0, 1.0) };
        let (dx, dy) = (q.0 - (ax + t * vx), q.1 - (ay + t * vy));
        if (dx * dx + dy * dy).sqrt() <= margin {
            return None;
        }
        if (ay <= q.1) != (by <= q.1) {
            // crosses the horizontal line through q (half-open rule); which side?
            let orient = vx * (q.1 - ay) - vy * (q.0 - ax); // >0: q left of a→b
            if by > ay {
                // upward edge: crossing is left of q iff q is to the right of a→b
                if orient < 0.0 {
                    w += 1;
                }
            } else if orient > 0.0 {
                w -= 1;
            }
        }
    }
    Some(w)
}

fn in_triangle(q: (f64, f64), a: Point, b: Point, c: Point) -> Option<bool> {
    let s = |p: Point, r: Point| (r.x as f64 - p.x as f64) * (q.1 - p.y as f64) - (r.y as f64 - p.y as f64) * (q.0 - p.x as f64);
    let (d1, d2, d3) = (s(a, b), s(b, c), s(c, a));
    let scale = 1e-7 * (1.0 + a.x.abs().max(a.y.abs()).max(b.x.abs()).max(b.y.abs()).max(c.x.abs()).max(c.y.abs()) as f64).powi(2);
    if d1.abs() <= scale || d2.abs() <= scale || d3.abs() <= scale {
        return None; // on / near an edge: undecided
    }
    let neg = d1 < 0.0 || d2 < 0.0 || d3 < 0.0;
    let pos = d1 > 0.0 || d2 > 0.0 || d3 > 0.0;
    Some(!(neg && pos))
}

fn shoelace(pts: &[Point]) -> f64 {
    let n = pts.len();
    let mut s = 0.0;
    for i in 0..n {
        let (a, b) = (pts[i], pts[(i + 1) % n]);
        s += a.x as f64 * b.y as f64 - b.x as f64 * a.y as f64;
    }
    0.5 * s
}

fn gen_queries(rng: &mut Rng, poly: &Poly, n: usize) -> Vec<Point> {
    let all: Vec<Point> = poly.subs.iter().flat_map(|s| s.0.iter().copied()).collect();
    let sc = poly.scale();
    (0..n)
        .map(|_| match rng.below(5) {
            // level with a vertex
            0 if !all.is_empty() => point(rng.uniform(-1.2, 1.2) as f32 * sc, rng.pick(&all).y),
            // same x as a vertex
            1 if !all.is_empty() => point(rng.pick(&all).x, rng.uniform(-1.2, 1.2) as f32 * sc),
            // mid-point between two vertices (often inside)
            2 if all.len() >= 2 => {
                let (a, b) = (*rng.pick(&all), *rng.pick(&all));
                point((a.x + b.x) * 0.5 + 0.125 * sc * 1e-2, (a.y + b.y) * 0.5)
            }
            // half-integer lattice (never on a lattice vertex row)
            3 => point((rng.range(-2, 18) as f32 * 0.5) * sc / 8.0, (rng.range(-2, 18) as f32 * 0.5 + 0.25) * sc / 8.0),
            _ => point(rng.uniform(-1.2, 1.2) as f32 * sc, rng.uniform(-1.2, 1.2) as f32 * sc),
        })
        .collect()
}

fn hit_case(ctx: &mut Ctx) {
    ctx.case("hit:32", |rng| {
        let poly = gen_poly(rng, 12);
        let queries = gen_queries(rng, &poly, 12);
        let mut args = Out::new();
        let subs: Vec<&(Vec<Point>, bool)> = poly.subs.iter().filter(|s| !s.0.is_empty()).collect();
        args.u(subs.len() as u64);
        for (pts, _) in &subs {
            args.u(pts.len() as u64);
            for p in pts {
                args.p(*p);
            }
        }
        args.u(queries.len() as u64);
        for q in &queries {
            args.p(*q);
        }
        let tag = format!("hit {} subs={}", poly.kind, subs.len());
        (args, tag, move || {
            let path = poly.to_path();
            let mut o = Out::new();
            let mut orc = Oracle::new();
            let edges = poly.edges();
            let sc = poly.scale() as f64;
            let margin = 1e-5 * sc;
            // fill output for the agreement clause
            let cfg = FillCfg { rule: FillRule::NonZero, orientation: lyon_tessellation::Orientation::Vertical, tolerance: 0.01, entry: 0 };
            let mut mesh_nz = Mesh::new();
            let mut mesh_eo = Mesh::new();
            let mut tess = FillTessellator::new();
            let ok_nz = run_fill(&mut tess, &poly, &cfg, &mut mesh_nz).is_ok();
            let ok_eo = run_fill(&mut tess, &poly, &FillCfg { rule: FillRule::EvenOdd, ..cfg }, &mut mesh_eo).is_ok();
            o.t("w");
            for q in &queries {
                let w = path_winding_number_at_position(q, path.iter(), 0.01);
                let h_eo = hit_test_path(q, path.iter(), FillRule::EvenOdd, 0.01);
                let h_nz = hit_test_path(q, path.iter(), FillRule::NonZero, 0.01);
                o.i(w as i64).b(h_eo).b(h_nz);
                let qq = (q.x as f64, q.y as f64);
                if let Some(rw) = ref_winding(&edges, qq, margin) {
                    orc.check(w == rw, "hit_test/winding-number", "generic", || format!("q=({},{}) lyon={} reference={}", q.x, q.y, w, rw));
                    orc.check(h_eo == (rw % 2 != 0), "hit_test/even-odd", "generic", || format!("q=({},{}) w={}", q.x, q.y, rw));
                    orc.check(h_nz == (rw != 0), "hit_test/non-zero", "generic", || format!("q=({},{}) w={}", q.x, q.y, rw));
                    // agreement with the fill: away from the outline by more than the fill tolerance
                    if ref_winding(&edges, qq, 0.02 + 1e-4 * sc).is_some() {
                        for (ok, mesh, hit, name) in [(ok_nz, &mesh_nz, h_nz, "non-zero"), (ok_eo, &mesh_eo, h_eo, "even-odd")] {
                            if !ok {
                                continue;
                            }
                            let mut covered = Some(false);
                            for t in mesh.indices.chunks(3) {
                                match in_triangle(qq, mesh.vertices[t[0] as usize], mesh.vertices[t[1] as usize], mesh.vertices[t[2] as usize]) {
                                    Some(true) => {
                                        covered = Some(true);
                                        break;
                                    }
                                    None => covered = None,
                                    _ => {}
                                }
                                if covered.is_none() {
                                    break;
                                }
                            }
                            if let Some(c) = covered {
                                orc.check(c == hit, "hit_test/agrees-with-fill", "generic", || {
                                    format!("q=({},{}) rule={} hit={} covered={}", q.x, q.y, name, hit, c)
                                });
                            }
                        }
                    }
                }
            }
            // area, per sub-path winding
            let area = approximate_signed_area(0.01, path.iter());
            o.t("area").f(area);
            let mut it = path.iter();
            o.t("dir");
            let mut ref_area = 0.0;
            for (pts, _) in poly.subs.iter().filter(|s| !s.0.is_empty()) {
                let d = compute_winding(&mut it);
                o.t(match d {
                    Some(Winding::Positive) => "pos",
                    Some(Winding::Negative) => "neg",
                    None => "none",
                });
                let a = shoelace(pts);
                ref_area += a;
                let tol = 1e-5 * (1.0 + sc * sc);
                if a.abs() > tol {
                    orc.check(d == Some(if a > 0.0 { Winding::Positive } else { Winding::Negative }), "winding/sign-of-area", "generic", || {
                        format!("shoelace={} dir={:?}", a, d)
                    });
                }
            }
            let tol = 1e-4 * (1.0 + sc * sc);
            orc.check((area as f64 - ref_area).abs() <= tol, "area/shoelace", "generic", || format!("lyon={} reference={}", area, ref_area));
            // reversal: area changes sign, winding numbers change sign
            let rev: Path = {
                let mut b = Path::builder();
                for e in path.reversed() {
                    b.path_event(e);
                }
                b.build()
            };
            let rarea = approximate_signed_area(0.01, rev.iter());
            orc.check((rarea as f64 + area as f64).abs() <= tol, "area/reversed", "generic", || format!("area={} reversed={}", area, rarea));
            for q in &queries {
                if ref_winding(&edges, (q.x as f64, q.y as f64), margin).is_some() {
                    let w = path_winding_number_at_position(q, path.iter(), 0.01);
                    let rw = path_winding_number_at_position(q, rev.iter(), 0.01);
                    orc.check(w == -rw, "hit_test/reversed", "generic", || format!("q=({},{}) w={} reversed={}", q.x, q.y, w, rw));
                }
            }
            CaseOut { imp: o, orcl: orc.verdict }
        })
    });
}

fn flatten_ref(path: &Path, tol: f32) -> Vec<(Point, Point)> {
    let mut v = Vec::new();
    for e in path.iter() {
        match e {
            PathEvent::Line { from, to } => v.push((from, to)),
            PathEvent::End { last, first, .. } => v.push((last, first)),
            PathEvent::Quadratic { from, ctrl, to } => {
                let c = lyon_path::geom::QuadraticBezierSegment { from, ctrl, to };
                let n = 256;
                let mut p = from;
                for i in 1..=n {
                    let q = c.sample(i as f32 / n as f32);
                    v.push((p, q));
                    p = q;
                }
            }
            PathEvent::Cubic { from, ctrl1, ctrl2, to } => {
                let c = lyon_path::geom::CubicBezierSegment { from, ctrl1, ctrl2, to };
                let n = 256;
                let mut p = from;
                for i in 1..=n {
                    let q = c.sample(i as f32 / n as f32);
                    v.push((p, q));
                    p = q;
                }
            }
            _ => {}
        }
    }
    let _ = tol;
    v
}

fn curved_case(ctx: &mut Ctx) {
    ctx.case("curved", |rng| {
        let kind = rng.below(6);
        let want = if rng.chance(1, 2) { Winding::Positive } else { Winding::Negative };
        let tol = *rng.pick(&[0.001f32, 0.01, 0.1]);
        let mut b = Path::builder();
        let c = point(rng.uniform(-5.0, 5.0) as f32, rng.uniform(-5.0, 5.0) as f32);
        let name;
        match kind {
            0 => {
                b.add_circle(c, rng.uniform(0.5, 20.0) as f32, want);
                name = "circle";
            }
            1 => {
                b.add_ellipse(c, vector(rng.uniform(0.5, 20.0) as f32, rng.uniform(0.5, 20.0) as f32), Angle::radians(rng.uniform(-3.0, 3.0) as f32), want);
                name = "ellipse";
            }
            2 => {
                b.add_rectangle(&Box2D { min: c, max: point(c.x + rng.uniform(0.5, 20.0) as f32, c.y + rng.uniform(0.5, 20.0) as f32) }, want);
                name = "rectangle";
            }
            3 => {
                let (w, h) = (rng.uniform(2.0, 20.0) as f32, rng.uniform(2.0, 20.0) as f32);
                // radii: uniform, all zero (a plain rectangle through the rounded-rectangle helper),
                // some zero, over-large (clamped) and independent per corner
                let m = w.min(h) * 0.5;
                let radii = match rng.below(6) {
                    0 => BorderRadii::new(0.0),
                    1 => BorderRadii { top_left: 0.0, top_right: rng.uniform(0.0, 1.0) as f32 * m, bottom_left: rng.uniform(0.0, 1.0) as f32 * m, bottom_right: 0.0 },
                    2 => BorderRadii::new(rng.uniform(1.0, 3.0) as f32 * m),
                    3 => BorderRadii { top_left: rng.uniform(0.0, 1.0) as f32 * m, top_right: rng.uniform(0.0, 1.0) as f32 * m, bottom_left: rng.uniform(0.0, 1.0) as f32 * m, bottom_right: rng.uniform(0.0, 1.0) as f32 * m },
                    _ => BorderRadii::new(rng.uniform(0.0, 1.0) as f32 * m),
                };
                b.add_rounded_rectangle(&Box2D { min: c, max: point(c.x + w, c.y + h) }, &radii, want);
                name = "rounded-rectangle";
            }
            _ => {
                // random closed path of curves
                b.begin(c);
                let n = rng.range(2, 5);
                for _ in 0..n {
                    let p = |rng: &mut Rng| point(rng.uniform(-10.0, 10.0) as f32, rng.uniform(-10.0, 10.0) as f32);
                    match rng.below(3) {
                        0 => {
                            b.line_to(p(rng));
                        }
                        1 => {
                            b.quadratic_bezier_to(p(rng), p(rng));
                        }
                        _ => {
                            b.cubic_bezier_to(p(rng), p(rng), p(rng));
                        }
                    }
                }
                b.end(true);
                name = "curves";
            }
        }
        let path = b.build();
        // control points and end points of the path: query points level with them exercise the
        // bounding-range early-outs of the hit test
        let mut ctrl_pts: Vec<Point> = Vec::new();
        for e in path.iter() {
            match e {
                PathEvent::Begin { at } => ctrl_pts.push(at),
                PathEvent::Line { to, .. } => ctrl_pts.push(to),
                PathEvent::Quadratic { ctrl, to, .. } => {
                    ctrl_pts.push(ctrl);
                    ctrl_pts.push(to);
                }
                PathEvent::Cubic { ctrl1, ctrl2, to, .. } => {
                    ctrl_pts.push(ctrl1);
                    ctrl_pts.push(ctrl2);
                    ctrl_pts.push(to);
                }
                _ => {}
            }
        }
        let mut queries: Vec<Point> = (0..12).map(|_| point(rng.uniform(-25.0, 25.0) as f32, rng.uniform(-25.0, 25.0) as f32)).collect();
        for _ in 0..12 {
            if !ctrl_pts.is_empty() {
                let a = *rng.pick(&ctrl_pts);
                let b2 = *rng.pick(&ctrl_pts);
                queries.push(point(rng.uniform(-25.0, 25.0) as f32, a.y));
                queries.push(point((a.x + b2.x) * 0.5, a.y));
                queries.push(point(a.x, rng.uniform(-25.0, 25.0) as f32));
            }
        }
        let mut args = Out::new();
        args.t(name).f(tol);
        // the path as `Path::iter()` yields it: nsubs (first nseg (L to | Q ctrl to | C ctrl1 ctrl2 to)*)*
        {
            let evs: Vec<PathEvent> = path.iter().collect();
            args.u(evs.iter().filter(|e| matches!(e, PathEvent::Begin { .. })).count() as u64);
            let mut i = 0;
            while i < evs.len() {
                if let PathEvent::Begin { at } = evs[i] {
                    args.p(at);
                    let mut j = i + 1;
                    while j < evs.len() && !matches!(evs[j], PathEvent::End { .. }) {
                        j += 1;
                    }
                    args.u((j - i - 1) as u64);
                    for e in &evs[i + 1..j] {
                        match *e {
                            PathEvent::Line { to, .. } => {
                                args.t("L").p(to);
                            }
                            PathEvent::Quadratic { ctrl, to, .. } => {
                                args.t("Q").p(ctrl).p(to);
                            }
                            PathEvent::Cubic { ctrl1, ctrl2, to, .. } => {
                                args.t("C").p(ctrl1).p(ctrl2).p(to);
                            }
                            _ => {}
                        }
                    }
                    i = j + 1;
                } else {
                    i += 1;
                }
            }
        }
        args.u(queries.len() as u64);
        for q in &queries {
            args.p(*q);
        }
        let tag = format!("curved {}", name);
        (args, tag, move || {
            let mut o = Out::new();
            // compared with the model (Model/Algo/WindingCurves.lean): winding number and both hit
            // tests at every query point, signed area through the flattened iterator, winding
            // direction of every sub-path (control polygon)
            o.t("w");
            for q in &queries {
                let w = path_winding_number_at_position(q, path.iter(), tol);
                let h_eo = hit_test_path(q, path.iter(), FillRule::EvenOdd, tol);
                let h_nz = hit_test_path(q, path.iter(), FillRule::NonZero, tol);
                o.i(w as i64).b(h_eo).b(h_nz);
            }
            o.t("area").f(approximate_signed_area(tol, path.iter()));
            o.t("dir");
            {
                let mut it = path.iter();
                while let Some(d) = compute_winding(&mut it) {
                    o.t(match d {
                        Winding::Positive => "pos",
                        Winding::Negative => "neg",
                    });
                }
            }
            let mut orc = Oracle::new();
            let edges = flatten_ref(&path, tol);
            for q in &queries {
                // only points farther than the tolerance from the (finely flattened) outline
                if let Some(rw) = ref_winding(&edges, (q.x as f64, q.y as f64), tol as f64 * 1.5 + 1e-3) {
                    let w = path_winding_number_at_position(q, path.iter(), tol);
                    orc.check(w == rw, "hit_test/curved-winding", "generic", || format!("{} q=({},{}) lyon={} reference={}", name, q.x, q.y, w, rw));
                }
            }
            let area = approximate_signed_area(tol, path.iter()) as f64;
            let ref_area: f64 = edges.iter().map(|(a, b)| 0.5 * (a.x as f64 * b.y as f64 - b.x as f64 * a.y as f64)).sum();
            let per: f64 = edges.iter().map(|(a, b)| ((a.x - b.x) as f64).hypot((a.y - b.y) as f64)).sum();
            orc.check((area - ref_area).abs() <= per * tol as f64 * 1.5 + 1e-3 * (1.0 + ref_area.abs()), "area/curved", "generic", || {
                format!("{} lyon={} reference={}", name, area, ref_area)
            });
            if name == "curves" {
                // reported winding direction = sign of the signed area, when the area is clearly
                // non-zero (compute_winding works on the control polygon)
                let d = compute_winding(&mut path.iter());
                let ctrl_area: f64 = {
                    let n = ctrl_pts.len();
                    (0..n).map(|i| 0.5 * (ctrl_pts[i].x as f64 * ctrl_pts[(i + 1) % n].y as f64 - ctrl_pts[(i + 1) % n].x as f64 * ctrl_pts[i].y as f64)).sum()
                };
                let bb = per * per / 16.0;
                if ref_area.abs() > 0.05 * bb && ctrl_area.abs() > 0.05 * bb && (ref_area > 0.0) == (ctrl_area > 0.0) {
                    orc.check(d == Some(if ref_area > 0.0 { Winding::Positive } else { Winding::Negative }), "winding/sign-of-area-curved", "generic", || {
                        format!("area {} control-polygon area {} reported {:?}", ref_area, ctrl_area, d)
                    });
                }
            }
            if name != "curves" {
                // the shape helpers honour the requested winding: sign of the area and reported direction
                orc.check((ref_area > 0.0) == (want == Winding::Positive), "shape/requested-winding-area", "generic", || {
                    format!("{} requested {:?} area {}", name, want, ref_area)
                });
                let d = compute_winding(&mut path.iter());
                orc.check(d == Some(want), "shape/requested-winding-dir", "generic", || format!("{} requested {:?} got {:?}", name, want, d));
            }
            CaseOut { imp: o, orcl: orc.verdict }
        })
    });
}

// ---------------------------------------------------------------------------------------------
// Family `fillprog:32`: programs of shape helpers + sub-paths on one builder object

#[derive(Clone, Debug)]
enum PSeg {
    L(Point),
    Q(Point, Point),
    C(Point, Point, Point),
}

#[derive(Clone, Debug)]
enum Item {
    Circle { c: Point, r: f32, w: Winding },
    Rect { b: Box2D, w: Winding },
    Ellipse { c: Point, radii: Vector, rot: f32, w: Winding },
    RRect { b: Box2D, radii: BorderRadii, w: Winding },
    Polygon { pts: Vec<Point>, closed: bool },
    Sub { start: Point, segs: Vec<PSeg>, close: bool },
}

/// an item with the attribute slices it is issued with (helpers: one slice; `Sub`: one per endpoint)
#[derive(Clone, Debug)]
struct ProgItem {
    item: Item,
    attrs: Vec<Vec<f32>>,
}

impl Item {
    fn name(&self) -> &'static str {
        match self {
            Item::Circle { .. } => "circle",
            Item::Rect { .. } => "rect",
            Item::Ellipse { .. } => "ellipse",
            Item::RRect { .. } => "rrect",
            Item::Polygon { .. } => "polygon",
            Item::Sub { .. } => "sub",
        }
    }
    /// requested winding, a point well inside the shape (generic: not on a symmetry axis), and
    /// whether the shape has a non-degenerate interior around that point
    fn probe(&self) -> Option<(Winding, Point, f32)> {
        match *self {
            Item::Circle { c, r, w } if r.abs() > 0.2 => Some((w, point(c.x + 0.137 * r.abs(), c.y + 0.071 * r.abs()), r.abs())),
            Item::Rect { b, w } if b.max.x - b.min.x > 0.2 && b.max.y - b.min.y > 0.2 => {
                let (sx, sy) = (b.max.x - b.min.x, b.max.y - b.min.y);
                Some((w, point(b.min.x + 0.537 * sx, b.min.y + 0.471 * sy), sx.min(sy)))
            }
            Item::Ellipse { c, radii, w, .. } if radii.x > 0.2 && radii.y > 0.2 => {
                let m = radii.x.min(radii.y);
                Some((w, point(c.x + 0.137 * m, c.y + 0.071 * m), m))
            }
            Item::RRect { b, w, .. } if b.max.x - b.min.x > 0.2 && b.max.y - b.min.y > 0.2 => {
                let (sx, sy) = (b.max.x - b.min.x, b.max.y - b.min.y);
                Some((w, point(b.min.x + 0.537 * sx, b.min.y + 0.471 * sy), sx.min(sy)))
            }
            _ => None,
        }
    }
    fn centre(&self) -> Point {
        match self {
            Item::Circle { c, .. } | Item::Ellipse { c, .. } => *c,
            Item::Rect { b, .. } | Item::RRect { b, .. } => point((b.min.x + b.max.x) * 0.5, (b.min.y + b.max.y) * 0.5),
            Item::Polygon { pts, .. } => {
                let n = pts.len().max(1) as f32;
                point(pts.iter().map(|p| p.x).sum::<f32>() / n, pts.iter().map(|p| p.y).sum::<f32>() / n)
            }
            Item::Sub { start, segs, .. } => {
                let mut v = vec![*start];
                for g in segs {
                    v.push(match g {
                        PSeg::L(p) | PSeg::Q(_, p) | PSeg::C(_, _, p) => *p,
                    });
                }
                let n = v.len() as f32;
                point(v.iter().map(|p| p.x).sum::<f32>() / n, v.iter().map(|p| p.y).sum::<f32>() / n)
            }
        }
    }
}

/// the program through the `PathBuilder` TRAIT (generic code): `FillBuilder` → its overriding
/// `add_circle`; `NoAttributes<FillBuilder>` → the trait's default `add_circle`;
/// `BuilderWithAttributes` → the defaults
fn feed_trait<B: PathBuilder>(b: &mut B, prog: &[ProgItem]) {
    for it in prog {
        let a = &it.attrs[0][..];
        match &it.item {
            Item::Circle { c, r, w } => PathBuilder::add_circle(b, *c, *r, *w, a),
            Item::Rect { b: bx, w } => PathBuilder::add_rectangle(b, bx, *w, a),
            Item::Ellipse { c, radii, rot, w } => PathBuilder::add_ellipse(b, *c, *radii, Angle::radians(*rot), *w, a),
            Item::RRect { b: bx, radii, w } => PathBuilder::add_rounded_rectangle(b, bx, radii, *w, a),
            Item::Polygon { pts, closed } => PathBuilder::add_polygon(b, Polygon { points: &pts[..], closed: *closed }, a),
            Item::Sub { start, segs, close } => {
                PathBuilder::begin(b, *start, &it.attrs[0]);
                for (k, g) in segs.iter().enumerate() {
                    let a = &it.attrs[k + 1][..];
                    match g {
                        PSeg::L(p) => PathBuilder::line_to(b, *p, a),
                        PSeg::Q(c, p) => PathBuilder::quadratic_bezier_to(b, *c, *p, a),
                        PSeg::C(c1, c2, p) => PathBuilder::cubic_bezier_to(b, *c1, *c2, *p, a),
                    };
                }
                PathBuilder::end(b, *close);
            }
        }
    }
}

/// the program through the INHERENT helper methods of `NoAttributes<B>` (what
/// `FillTessellator::builder(..)` and `Path::builder()` return): `self.inner.add_circle(..)`
fn feed_noattr<B: PathBuilder>(b: &mut NoAttributes<B>, prog: &[ProgItem]) {
    for it in prog {
        match &it.item {
            Item::Circle { c, r, w } => b.add_circle(*c, *r, *w),
            Item::Rect { b: bx, w } => b.add_rectangle(bx, *w),
            Item::Ellipse { c, radii, rot, w } => b.add_ellipse(*c, *radii, Angle::radians(*rot), *w),
            Item::RRect { b: bx, radii, w } => b.add_rounded_rectangle(bx, radii, *w),
            Item::Polygon { pts, closed } => b.add_polygon(Polygon { points: &pts[..], closed: *closed }),
            Item::Sub { start, segs, close } => {
                b.begin(*start);
                for g in segs {
                    match g {
                        PSeg::L(p) => b.line_to(*p),
                        PSeg::Q(c, p) => b.quadratic_bezier_to(*c, *p),
                        PSeg::C(c1, c2, p) => b.cubic_bezier_to(*c1, *c2, *p),
                    };
                }
                b.end(*close);
            }
        }
    }
}

/// the program through the inherent methods of `FillBuilder` (`builder_with_attributes`): its own
/// `begin / line_to / .. / add_circle`; the other helpers exist only as trait methods
fn feed_fill_builder(b: &mut lyon_tessellation::FillBuilder, prog: &[ProgItem]) {
    for it in prog {
        let a = &it.attrs[0][..];
        match &it.item {
            Item::Circle { c, r, w } => b.add_circle(*c, *r, *w, a),
            Item::Rect { b: bx, w } => b.add_rectangle(bx, *w, a),
            Item::Ellipse { c, radii, rot, w } => b.add_ellipse(*c, *radii, Angle::radians(*rot), *w, a),
            Item::RRect { b: bx, radii, w } => b.add_rounded_rectangle(bx, radii, *w, a),
            Item::Polygon { pts, closed } => b.add_polygon(Polygon { points: &pts[..], closed: *closed }, a),
            Item::Sub { start, segs, close } => {
                b.begin(*start, &it.attrs[0]);
                for (k, g) in segs.iter().enumerate() {
                    let a = &it.attrs[k + 1][..];
                    match g {
                        PSeg::L(p) => b.line_to(*p, a),
                        PSeg::Q(c, p) => b.quadratic_bezier_to(*c, *p, a),
                        PSeg::C(c1, c2, p) => b.cubic_bezier_to(*c1, *c2, *p, a),
                    };
                }
                b.end(*close);
            }
        }
    }
}

const FP_ENTRIES: [&str; 4] = ["builder", "attrs", "genericfb", "generic"];

/// the program on the fill tessellator's own builder
fn run_fillprog(tess: &mut FillTessellator, prog: &[ProgItem], entry: usize, nattr: usize, opts: &FillOptions, out: &mut dyn FillGeometryBuilder) -> Result<(), String> {
    let r = match entry {
        0 => {
            let mut b = tess.builder(opts, out);
            feed_noattr(&mut b, prog);
            b.build()
        }
        1 => {
            let mut b = tess.builder_with_attributes(nattr, opts, out);
            feed_fill_builder(&mut b, prog);
            b.build()
        }
        2 => {
            let mut b = tess.builder_with_attributes(nattr, opts, out);
            feed_trait(&mut b, prog);
            b.build()
        }
        _ => {
            let mut b = tess.builder(opts, out);
            feed_trait(&mut b, prog);
            b.build()
        }
    };
    r.map_err(|e| format!("{:?}", e))
}

/// the same program as a `Path`
fn prog_path(prog: &[ProgItem], nattr: usize) -> Path {
    if nattr == 0 {
        let mut b = Path::builder();
        feed_noattr(&mut b, prog);
        b.build()
    } else {
        let mut b = Path::builder_with_attributes(nattr);
        feed_trait(&mut b, prog);
        b.build()
    }
}

enum EmitP {
    V(Point, Vec<VerifEdgeRecord>, Vec<f32>),
    T(u32, u32, u32),
}

/// geometry builder that keeps the complete emission sequence and the mesh
#[derive(Default)]
struct ProgLog {
    ems: Vec<EmitP>,
    verts: Vec<Point>,
    tris: Vec<[u32; 3]>,
}

impl GeometryBuilder for ProgLog {
    fn add_triangle(&mut self, a: VertexId, b: VertexId, c: VertexId) {
        self.ems.push(EmitP::T(a.0, b.0, c.0));
        self.tris.push([a.0, b.0, c.0]);
    }
}

impl FillGeometryBuilder for ProgLog {
    fn add_fill_vertex(&mut self, mut v: FillVertex) -> Result<VertexId, GeometryBuilderError> {
        let pos = v.position();
        let recs = v.verif_sibling_records();
        let attrs = v.interpolated_attributes().to_vec();
        self.ems.push(EmitP::V(pos, recs, attrs));
        self.verts.push(pos);
        Ok(VertexId(self.verts.len() as u32 - 1))
    }
}

/// exact point-in-triangle coverage of a mesh; `None` = the point is on / too near a triangle edge
fn covered(verts: &[Point], tris: &[[u32; 3]], q: (f64, f64)) -> Option<bool> {
    let mut cov = false;
    for t in tris {
        match in_triangle(q, verts[t[0] as usize], verts[t[1] as usize], verts[t[2] as usize]) {
            Some(true) => cov = true,
            None => return None,
            _ => {}
        }
    }
    Some(cov)
}

fn gen_attrs(rng: &mut Rng, nattr: usize) -> Vec<f32> {
    (0..nattr).map(|_| rng.range(-64, 64) as f32 * 0.25).collect()
}

fn gen_item(rng: &mut Rng, base: Point, lattice: bool) -> Item {
    let co = |rng: &mut Rng, span: f64| -> f32 {
        if lattice {
            rng.range(-(span as i64) * 2, (span as i64) * 2) as f32 * 0.5
        } else {
            rng.uniform(-span, span) as f32
        }
    };
    let size = |rng: &mut Rng, lo: f64, hi: f64| -> f32 {
        if lattice {
            rng.range((lo * 2.0).ceil() as i64, (hi * 2.0) as i64) as f32 * 0.5
        } else {
            rng.uniform(lo, hi) as f32
        }
    };
    let w = if rng.chance(1, 2) { Winding::Positive } else { Winding::Negative };
    let c = point(base.x + co(rng, 9.0), base.y + co(rng, 9.0));
    match rng.below(16) {
        0..=5 => {
            let r = match rng.below(24) {
                0 => 0.0,
                1 => -size(rng, 1.0, 12.0),
                _ => size(rng, 1.0, 14.0),
            };
            Item::Circle { c, r, w }
        }
        6 | 7 => {
            let (sx, sy) = (size(rng, 1.0, 24.0), size(rng, 1.0, 24.0));
            Item::Rect { b: Box2D { min: point(c.x - sx * 0.5, c.y - sy * 0.5), max: point(c.x + sx * 0.5, c.y + sy * 0.5) }, w }
        }
        8 | 9 => Item::Ellipse {
            c,
            radii: vector(size(rng, 1.0, 14.0), size(rng, 1.0, 14.0)),
            rot: if rng.chance(1, 4) { 0.0 } else { rng.uniform(-3.0, 3.0) as f32 },
            w,
        },
        10 | 11 => {
            let (sx, sy) = (size(rng, 2.0, 24.0), size(rng, 2.0, 24.0));
            let m = sx.min(sy) * 0.5;
            let radii = match rng.below(5) {
                0 => BorderRadii::new(0.0),
                1 => BorderRadii::new(rng.uniform(1.0, 3.0) as f32 * m),
                2 => BorderRadii { top_left: 0.0, top_right: rng.unit() as f32 * m, bottom_left: rng.unit() as f32 * m, bottom_right: 0.0 },
                3 => BorderRadii { top_left: rng.unit() as f32 * m, top_right: rng.unit() as f32 * m, bottom_left: rng.unit() as f32 * m, bottom_right: rng.unit() as f32 * m },
                _ => BorderRadii::new(rng.unit() as f32 * m),
            };
            Item::RRect { b: Box2D { min: point(c.x - sx * 0.5, c.y - sy * 0.5), max: point(c.x + sx * 0.5, c.y + sy * 0.5) }, radii, w }
        }
        12 => {
            let n = rng.range(0, 6) as usize;
            Item::Polygon { pts: (0..n).map(|_| point(c.x + co(rng, 10.0), c.y + co(rng, 10.0))).collect(), closed: rng.chance(2, 3) }
        }
        _ => {
            let n = rng.range(2, 4);
            let p = |rng: &mut Rng| point(c.x + co(rng, 10.0), c.y + co(rng, 10.0));
            let segs = (0..n)
                .map(|_| match rng.below(4) {
                    0 | 1 => PSeg::L(p(rng)),
                    2 => PSeg::Q(p(rng), p(rng)),
                    _ => PSeg::C(p(rng), p(rng), p(rng)),
                })
                .collect();
            Item::Sub { start: p(rng), segs, close: rng.chance(2, 3) }
        }
    }
}

fn put_item(args: &mut Out, it: &ProgItem) {
    let wb = |w: &Winding| *w == Winding::Positive;
    match &it.item {
        Item::Circle { c, r, w } => {
            args.t("circle").b(wb(w)).p(*c).f(*r);
        }
        Item::Rect { b, w } => {
            args.t("rect").b(wb(w)).p(b.min).p(b.max);
        }
        Item::Ellipse { c, radii, rot, w } => {
            args.t("ellipse").b(wb(w)).p(*c).v(*radii).f(*rot);
        }
        Item::RRect { b, radii, w } => {
            args.t("rrect").b(wb(w)).p(b.min).p(b.max).f(radii.top_left).f(radii.top_right).f(radii.bottom_left).f(radii.bottom_right);
        }
        Item::Polygon { pts, closed } => {
            args.t("polygon").b(*closed).u(pts.len() as u64);
            for p in pts {
                args.p(*p);
            }
        }
        Item::Sub { start, segs, close } => {
            args.t("sub").u(segs.len() as u64 + 2);
            args.t("B").p(*start);
            for x in &it.attrs[0] {
                args.f(*x);
            }
            for (k, g) in segs.iter().enumerate() {
                match g {
                    PSeg::L(p) => {
                        args.t("L").p(*p);
                    }
                    PSeg::Q(c, p) => {
                        args.t("Q").p(*c).p(*p);
                    }
                    PSeg::C(c1, c2, p) => {
                        args.t("C").p(*c1).p(*c2).p(*p);
                    }
                }
                for x in &it.attrs[k + 1] {
                    args.f(*x);
                }
            }
            args.t("E").b(*close);
            return;
        }
    }
    for x in &it.attrs[0] {
        args.f(*x);
    }
}

fn fillprog_case(ctx: &mut Ctx) {
    let thorough = ctx.thorough;
    ctx.case("fillprog:32", |rng| {
        let rule = if rng.chance(1, 2) { FillRule::EvenOdd } else { FillRule::NonZero };
        let orientation = if rng.chance(1, 2) { Orientation::Vertical } else { Orientation::Horizontal };
        let tol = *rng.pick(&[0.001f32, 0.01, 0.01, 0.1, 0.1, 0.5]);
        let entry = rng.below(4) as usize;
        let nattr = if entry == 1 || entry == 2 { rng.range(0, 2) as usize } else { 0 };
        let lattice = rng.chance(1, 4);
        let nitems = match rng.below(8) {
            0 => 1,
            1..=3 => 2,
            4..=6 => 3,
            _ => if thorough { 5 } else { 4 },
        };
        let base = point(rng.uniform(-10.0, 10.0) as f32, rng.uniform(-10.0, 10.0) as f32);
        let base = if lattice { point(base.x.round(), base.y.round()) } else { base };
        let prog: Vec<ProgItem> = (0..nitems)
            .map(|_| {
                let item = gen_item(rng, base, lattice);
                let n = match &item {
                    Item::Sub { segs, .. } => segs.len() + 1,
                    _ => 1,
                };
                ProgItem { attrs: (0..n).map(|_| gen_attrs(rng, nattr)).collect(), item }
            })
            .collect();
        let path = prog_path(&prog, nattr);
        // query points: anywhere around the shapes, near every shape's centre, between centres
        // (overlaps), level with / above control points
        let mut ctrl_pts: Vec<Point> = Vec::new();
        for e in path.iter() {
            match e {
                PathEvent::Begin { at } => ctrl_pts.push(at),
                PathEvent::Line { to, .. } => ctrl_pts.push(to),
                PathEvent::Quadratic { ctrl, to, .. } => {
                    ctrl_pts.push(ctrl);
                    ctrl_pts.push(to);
                }
                PathEvent::Cubic { ctrl1, ctrl2, to, .. } => {
                    ctrl_pts.push(ctrl1);
                    ctrl_pts.push(ctrl2);
                    ctrl_pts.push(to);
                }
                _ => {}
            }
        }
        let span = 24.0;
        let mut queries: Vec<Point> = (0..14).map(|_| point(base.x + rng.uniform(-span, span) as f32, base.y + rng.uniform(-span, span) as f32)).collect();
        for it in &prog {
            let c = it.item.centre();
            queries.push(point(c.x + rng.uniform(-1.0, 1.0) as f32, c.y + rng.uniform(-1.0, 1.0) as f32));
            queries.push(point(c.x + rng.uniform(-6.0, 6.0) as f32, c.y + rng.uniform(-6.0, 6.0) as f32));
            if let Some((_, p, _)) = it.item.probe() {
                queries.push(p);
            }
        }
        for i in 0..prog.len() {
            for j in i + 1..prog.len() {
                let (a, b) = (prog[i].item.centre(), prog[j].item.centre());
                let t = rng.uniform(0.2, 0.8) as f32;
                queries.push(point(a.x + (b.x - a.x) * t + 0.013, a.y + (b.y - a.y) * t + 0.029));
            }
        }
        for _ in 0..4 {
            if !ctrl_pts.is_empty() {
                let a = *rng.pick(&ctrl_pts);
                let b2 = *rng.pick(&ctrl_pts);
                queries.push(point(base.x + rng.uniform(-span, span) as f32, a.y));
                queries.push(point((a.x + b2.x) * 0.5, a.y));
            }
        }
        let mut args = Out::new();
        args.u(if rule == FillRule::EvenOdd { 0 } else { 1 });
        args.u(if orientation == Orientation::Vertical { 0 } else { 1 });
        args.f(tol).t(FP_ENTRIES[entry]).u(nattr as u64).u(prog.len() as u64);
        for it in &prog {
            put_item(&mut args, it);
        }
        args.u(queries.len() as u64);
        for q in &queries {
            args.p(*q);
        }
        let kinds: Vec<&str> = prog.iter().map(|it| it.item.name()).collect();
        let ncirc = kinds.iter().filter(|k| **k == "circle").count();
        let tag = format!(
            "fillprog {} a{} {} {} items={} circles={}{}",
            FP_ENTRIES[entry],
            nattr,
            if rule == FillRule::EvenOdd { "evenodd" } else { "nonzero" },
            if orientation == Orientation::Vertical { "vertical" } else { "horizontal" },
            prog.len(),
            ncirc,
            if lattice { " lattice" } else { "" }
        );
        (args, tag, move || {
            let opts = FillOptions::tolerance(tol).with_fill_rule(rule).with_sweep_orientation(orientation);
            let mut o = Out::new();
            let mut orc = Oracle::new();
            let mut tess = FillTessellator::new();
            let mut log = ProgLog::default();
            let res = vh::guarded(|| run_fillprog(&mut tess, &prog, entry, nattr, &opts, &mut log));
            let res = match res {
                Some(r) => r,
                None => {
                    // a panic of the sweep is C01's subject; the property conditions on the fill's output
                    o.t("panic");
                    orc.skip("fill-panicked");
                    return CaseOut { imp: o, orcl: orc.verdict };
                }
            };
            match &res {
                Ok(()) => {
                    o.t("ok");
                }
                Err(e) => {
                    o.t("err").t(&e.replace(' ', "_"));
                }
            }
            for e in &log.ems {
                match e {
                    EmitP::V(p, recs, at) => {
                        o.t("v").p(*p).u(recs.len() as u64);
                        for r in recs {
                            o.t(if r.is_edge { "e" } else { "p" }).p(r.position);
                            if r.is_edge {
                                o.p(r.to);
                            }
                            o.f(r.range.start).f(r.range.end).i(r.winding as i64).u(r.from_id.0 as u64).u(r.to_id.0 as u64);
                        }
                        if nattr > 0 {
                            o.t("a");
                            for x in at {
                                o.f(*x);
                            }
                        }
                    }
                    EmitP::T(a, b, c) => {
                        o.t("t").u(*a as u64).u(*b as u64).u(*c as u64);
                    }
                }
            }
            o.t("hit");
            let hits: Vec<(i32, bool)> = queries
                .iter()
                .map(|q| (path_winding_number_at_position(q, path.iter(), tol), hit_test_path(q, path.iter(), rule, tol)))
                .collect();
            for (w, h) in &hits {
                o.i(*w as i64).b(*h);
            }
            // ---- oracle
            // reference outline: the `Path`'s events finely flattened.  The fill's own outline differs
            // from it by the flattening tolerance and, for `FillBuilder::add_circle`, by the radial
            // difference between its 8-quadratic circle and the 4-cubic circle of the `Path`
            // (at most 0.32 % of the radius).
            let edges = flatten_ref(&path, tol);
            let scale = ctrl_pts.iter().fold(1.0f32, |m, p| m.max(p.x.abs()).max(p.y.abs())) as f64;
            let rmax = prog
                .iter()
                .map(|it| match it.item {
                    Item::Circle { r, .. } => r.abs(),
                    _ => 0.0,
                })
                .fold(0.0f32, f32::max) as f64;
            let margin = 2.0 * tol as f64 + 0.005 * rmax + 1e-4 * scale + 1e-3;
            // the other rule as well (same program, not part of the tie)
            let other = if rule == FillRule::EvenOdd { FillRule::NonZero } else { FillRule::EvenOdd };
            let mut log2 = ProgLog::default();
            let res2 = vh::guarded(|| run_fillprog(&mut tess, &prog, entry, nattr, &opts.with_fill_rule(other), &mut log2));
            let rname = |r: FillRule| if r == FillRule::EvenOdd { "even-odd" } else { "non-zero" };
            for (q, (w, h)) in queries.iter().zip(hits.iter()) {
                let qq = (q.x as f64, q.y as f64);
                let rw = match ref_winding(&edges, qq, margin) {
                    Some(rw) => rw,
                    None => continue,
                };
                orc.check(*w == rw, "fillprog.hit_test/winding-number", "generic", || {
                    format!("q=({},{}) lyon={} reference={} program {:?}", q.x, q.y, w, rw, kinds)
                });
                let is_in = |r: FillRule, w: i32| match r {
                    FillRule::EvenOdd => w % 2 != 0,
                    FillRule::NonZero => w != 0,
                };
                orc.check(*h == is_in(rule, rw), "fillprog.hit_test/fill-rule", "generic", || format!("q=({},{}) w={} rule={}", q.x, q.y, rw, rname(rule)));
                if res.is_ok() {
                    if let Some(c) = covered(&log.verts, &log.tris, qq) {
                        orc.check(c == *h, "fillprog.fill/agrees-with-hit-test", "generic", || {
                            format!(
                                "{} rule={} q=({},{}) winding number {} hit_test={} but covered by the fill's triangles={} (program {:?})",
                                FP_ENTRIES[entry], rname(rule), q.x, q.y, w, h, c, kinds
                            )
                        });
                    }
                }
                if let Some(Ok(())) = res2 {
                    if let Some(c) = covered(&log2.verts, &log2.tris, qq) {
                        let h2 = hit_test_path(q, path.iter(), other, tol);
                        orc.check(c == h2, "fillprog.fill/agrees-with-hit-test", "generic", || {
                            format!(
                                "{} rule={} q=({},{}) winding number {} hit_test={} but covered by the fill's triangles={} (program {:?})",
                                FP_ENTRIES[entry], rname(other), q.x, q.y, w, h2, c, kinds
                            )
                        });
                    }
                }
            }
            // every helper delivers the requested direction: on the `Path` the winding number inside
            // the lone shape is +1 / -1, and in the fill (non-zero rule) the shape cancels against an
            // enclosing rectangle of the opposite direction and adds up with one of the same direction
            for it in &prog {
                let (want, p, size) = match it.item.probe() {
                    Some(x) => x,
                    None => continue,
                };
                if size < 20.0 * tol {
                    continue;
                }
                let lone = [ProgItem { item: it.item.clone(), attrs: it.attrs.clone() }];
                let lone_path = prog_path(&lone, nattr);
                let w = path_winding_number_at_position(&p, lone_path.iter(), tol);
                // lyon's ray-crossing count is -1 inside a `Winding::Positive` (positive shoelace sum) shape:
                // the convention the independent reference `ref_winding` shares
                let sign = if want == Winding::Positive { -1 } else { 1 };
                orc.check(w == sign, "fillprog.shape/requested-winding-number", "generic", || {
                    format!("{} requested {:?}: winding number {} at ({},{}) inside the lone shape", it.item.name(), want, w, p.x, p.y)
                });
                for d in [Winding::Positive, Winding::Negative] {
                    let (x0, y0, x1, y1) = (p.x - 60.0, p.y - 61.0, p.x + 62.0, p.y + 63.0);
                    // positive = positive shoelace sum (the order `add_rectangle` uses for `Positive`)
                    let mut ring = vec![point(x0, y0), point(x1, y0), point(x1, y1), point(x0, y1)];
                    if d == Winding::Negative {
                        ring.reverse();
                    }
                    let frame = ProgItem {
                        item: Item::Sub { start: ring[0], segs: ring[1..].iter().map(|q| PSeg::L(*q)).collect(), close: true },
                        attrs: (0..4).map(|_| vec![0.0; nattr]).collect(),
                    };
                    let two = [frame, ProgItem { item: it.item.clone(), attrs: it.attrs.clone() }];
                    let mut lg = ProgLog::default();
                    let nz = FillOptions::tolerance(tol).with_fill_rule(FillRule::NonZero).with_sweep_orientation(orientation);
                    if let Some(Ok(())) = vh::guarded(|| run_fillprog(&mut tess, &two, entry, nattr, &nz, &mut lg)) {
                        if let Some(c) = covered(&lg.verts, &lg.tris, (p.x as f64, p.y as f64)) {
                            orc.check(c == (d == want), "fillprog.shape/requested-direction-in-fill", "generic", || {
                                format!(
                                    "{} {} requested {:?} inside a {:?} rectangle, non-zero rule: point ({},{}) inside the shape covered={} (expected {})",
                                    FP_ENTRIES[entry], it.item.name(), want, d, p.x, p.y, c, d == want
                                )
                            });
                        }
                    }
                }
            }
            if res.is_err() && !orc.failed() {
                orc.skip("tessellation-error");
            }
            CaseOut { imp: o, orcl: orc.verdict }
        })
    });
}

fn main() {
    let mut ctx = Ctx::from_args("C18");
    let n = ctx.n(1500, 100000);
    for _ in 0..n {
        hit_case(&mut ctx);
    }
    let n = ctx.n(1500, 60000);
    for _ in 0..n {
        curved_case(&mut ctx);
    }
    // programs on the fill tessellator's own builder (ids after the older families)
    let n = ctx.n(2000, 40000);
    for _ in 0..n {
        fillprog_case(&mut ctx);
    }
    ctx.finish();
}
